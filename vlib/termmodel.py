"""Independent terminal decoder (DESIGN.md 3.4).

Written from the standards, sharing no code with delta, ansi_term or the Lean model:

* ECMA-48 5th ed.: 5.4 (control sequence format: parameter bytes 0x30-0x3F, intermediate bytes
  0x20-0x2F, final byte 0x40-0x7E), 8.3.117 SGR, 8.3.41 EL, 8.3.89 OSC, 8.3.143 ST;
* xterm ctlseqs: SGR 38/48 ; 5 ; n and 38/48 ; 2 ; r ; g ; b (also the ITU T.416 colon forms
  38:5:n, 38:2::r:g:b), 90-97 / 100-107 bright colours, OSC terminated by ST or BEL;
* the OSC 8 hyperlink convention (gist egmontkob/eb114294efbcd5adb1944c9f3cb5feda):
  `OSC 8 ; params ; URI ST`, an empty URI closes the link; SGR 0 does *not* close it.

    dec = decode(b"...")           # bytes of a terminal stream (UTF-8)
    dec.rows                       # list[Row]; a row ends at LF (or at end of input)
    row.cells                      # list[Cell(ch, fg, bg, attrs, link)]
    row.runs()                     # maximal runs [(text, fg, bg, attrs, link)]
    row.text()                     # visible text
    row.end                        # State at the LF: .fg .bg .attrs .link .mode
    row.end.is_default()           # default rendition, no link, parser in ground state
    row.erases                     # [(column, n, bg)] for every EL (CSI n K) in the row
    row.problems / dec.problems    # [(kind, byte offset, detail)]: cut or malformed sequences

Colours are None (default) | ("idx", n) | ("rgb", r, g, b). `attrs` is a frozenset of
"bold" "faint" "italic" "underline" "blink" "inverse" "conceal" "crossed" "overline".
Problem kinds: "cut-by-newline" (LF inside an unfinished sequence), "cut-by-eof",
"aborted" (ESC or CAN/SUB inside a sequence), "c0-in-sequence", "bad-sgr" (38/48 with a
malformed argument list), "bad-utf8".
"""
import unicodedata

ATTR_ON = {1: "bold", 2: "faint", 3: "italic", 4: "underline", 5: "blink", 6: "blink",
           7: "inverse", 8: "conceal", 9: "crossed", 21: "underline", 53: "overline"}
ATTR_OFF = {22: ("bold", "faint"), 23: ("italic",), 24: ("underline",), 25: ("blink",),
            27: ("inverse",), 28: ("conceal",), 29: ("crossed",), 55: ("overline",)}


class State:
    __slots__ = ("fg", "bg", "attrs", "link", "mode")

    def __init__(self, fg=None, bg=None, attrs=frozenset(), link=None, mode="ground"):
        self.fg, self.bg, self.attrs, self.link, self.mode = fg, bg, attrs, link, mode

    def copy(self):
        return State(self.fg, self.bg, self.attrs, self.link, self.mode)

    def rendition(self):
        return (self.fg, self.bg, self.attrs)

    def is_default(self):
        return (self.fg is None and self.bg is None and not self.attrs and self.link is None
                and self.mode == "ground")

    def describe(self):
        return dict(fg=self.fg, bg=self.bg, attrs=sorted(self.attrs), link=self.link, mode=self.mode)

    def __repr__(self):
        return "State(%r)" % (self.describe(),)


class Cell:
    __slots__ = ("ch", "fg", "bg", "attrs", "link")

    def __init__(self, ch, fg, bg, attrs, link):
        self.ch, self.fg, self.bg, self.attrs, self.link = ch, fg, bg, attrs, link

    def style(self):
        return (self.fg, self.bg, self.attrs)

    def __repr__(self):
        return "Cell(%r,%r,%r,%s,%r)" % (self.ch, self.fg, self.bg, sorted(self.attrs), self.link)


class Row:
    def __init__(self, start):
        self.cells = []
        self.start = start          # State at the beginning of the row
        self.end = None             # State at the LF (or end of input)
        self.erases = []
        self.problems = []
        self.terminated = False     # ended by LF

    def text(self):
        return "".join(c.ch for c in self.cells)

    def runs(self):
        out = []
        for c in self.cells:
            key = (c.fg, c.bg, c.attrs, c.link)
            if out and out[-1][1] == key:
                out[-1][0].append(c.ch)
            else:
                out.append(([c.ch], key))
        return [("".join(t),) + k for t, k in out]


class Decoded:
    def __init__(self):
        self.rows = []
        self.problems = []
        self.final = None

    def all_default_at_newlines(self):
        return all(r.end.is_default() for r in self.rows if r.terminated)


def _apply_sgr(st, groups, problems, off):
    """groups: list of parameter groups; a group is a list of ints/None (colon sub-parameters)."""
    i = 0
    n = len(groups)
    while i < n:
        g = groups[i]
        p = g[0] if g[0] is not None else 0
        if p in (38, 48):
            col = None
            if len(g) > 1:                      # colon form, self-contained
                sub = g[1:]
                if sub and sub[0] == 5 and len(sub) >= 2 and sub[1] is not None:
                    col = ("idx", sub[1])
                elif sub and sub[0] == 2 and len(sub) >= 4:
                    rgb = [x for x in sub[1:] if x is not None][-3:]
                    if len(rgb) == 3:
                        col = ("rgb",) + tuple(rgb)
                i += 1
            else:                                # semicolon form, consumes following groups
                kind = groups[i + 1][0] if i + 1 < n else None
                if kind == 5 and i + 2 < n:
                    col = ("idx", groups[i + 2][0] or 0)
                    i += 3
                elif kind == 2 and i + 4 < n:
                    col = ("rgb",) + tuple((groups[i + k][0] or 0) for k in (2, 3, 4))
                    i += 5
                else:
                    i = n
            if col is None:
                problems.append(("bad-sgr", off, "extended colour"))
            elif p == 38:
                st.fg = col
            else:
                st.bg = col
            continue
        i += 1
        if p == 0:
            st.fg, st.bg, st.attrs = None, None, frozenset()
        elif p in ATTR_ON:
            st.attrs = st.attrs | {ATTR_ON[p]}
        elif p in ATTR_OFF:
            st.attrs = st.attrs - set(ATTR_OFF[p])
        elif 30 <= p <= 37:
            st.fg = ("idx", p - 30)
        elif p == 39:
            st.fg = None
        elif 40 <= p <= 47:
            st.bg = ("idx", p - 40)
        elif p == 49:
            st.bg = None
        elif 90 <= p <= 97:
            st.fg = ("idx", p - 90 + 8)
        elif 100 <= p <= 107:
            st.bg = ("idx", p - 100 + 8)
        # anything else: not a rendition aspect tracked here


def _parse_params(pbytes):
    """'1;38:2::1:2:3;4' -> [[1],[38,2,None,1,2,3],[4]]; None for a non-numeric parameter string."""
    groups = []
    for part in pbytes.split(";"):
        g = []
        for sub in part.split(":"):
            if sub == "":
                g.append(None)
            elif sub.isdigit():
                g.append(int(sub))
            else:
                return None
        groups.append(g)
    return groups


def _is_combining(ch):
    if ch in ("‍", "︎", "️"):
        return True
    return unicodedata.category(ch) in ("Mn", "Me")


def decode(data, combine=True):
    if isinstance(data, str):
        text = data
        bad = False
    else:
        text = data.decode("utf-8", "replace")
        bad = b"\xef\xbf\xbd" not in data and "�" in text
    dec = Decoded()
    st = State()
    row = Row(st.copy())
    if bad:
        dec.problems.append(("bad-utf8", 0, ""))
    params = ""
    inter = ""
    buf = []
    seq_start = 0

    def problem(kind, off, detail=""):
        row.problems.append((kind, off, detail))
        dec.problems.append((kind, off, detail))

    def end_row(terminated):
        nonlocal row
        row.end = st.copy()
        row.terminated = terminated
        dec.rows.append(row)
        row = Row(st.copy())

    def dispatch_osc():
        payload = "".join(buf)
        if payload.startswith("8;"):
            rest = payload[2:]
            k = rest.find(";")
            if k < 0:
                problem("bad-osc8", seq_start, payload[:40])
            else:
                uri = rest[k + 1:]
                st.link = uri if uri else None

    i = 0
    n = len(text)
    while i < n:
        ch = text[i]
        o = ord(ch)
        m = st.mode
        if ch == "\n":
            if m != "ground":
                problem("cut-by-newline", seq_start, m)
                st.mode = "ground"
            end_row(True)
            i += 1
            continue
        if m == "ground":
            if ch == "\x1b":
                st.mode = "esc"
                seq_start = i
                inter = ""
            elif o < 0x20 or o == 0x7f:
                pass                                    # other C0 controls: not displayed
            else:
                if combine and row.cells and _is_combining(ch):
                    row.cells[-1].ch += ch
                else:
                    row.cells.append(Cell(ch, st.fg, st.bg, st.attrs, st.link))
        elif m == "esc":
            if ch == "[":
                st.mode = "csi"
                params, inter = "", ""
            elif ch == "]":
                st.mode = "osc"
                buf = []
            elif ch in "PX^_":
                st.mode = "str"
            elif ch == "\x1b":
                problem("aborted", seq_start, "ESC ESC")
                seq_start = i
            elif 0x20 <= o <= 0x2f:
                inter += ch                             # nF escape sequence
            elif o < 0x20:
                problem("c0-in-sequence", seq_start, "esc")
            else:
                st.mode = "ground"                      # two-character escape (incl. ST alone)
        elif m == "csi":
            if 0x30 <= o <= 0x3f and not inter:
                params += ch
            elif 0x20 <= o <= 0x2f:
                inter += ch
            elif 0x40 <= o <= 0x7e:
                st.mode = "ground"
                private = params[:1] in ("<", "=", ">", "?")
                if ch == "m" and not inter and not private:
                    groups = _parse_params(params)
                    if groups is None:
                        problem("bad-sgr", seq_start, params)
                    else:
                        _apply_sgr(st, groups, row.problems, seq_start)
                elif ch == "K" and not inter and not private:
                    mode = int(params) if params.isdigit() else 0
                    row.erases.append((len(row.cells), mode, st.bg))
            elif ch == "\x1b":
                problem("aborted", seq_start, "csi")
                st.mode = "esc"
                seq_start = i
            elif ch in "\x18\x1a":
                problem("aborted", seq_start, "csi")
                st.mode = "ground"
            elif o < 0x20:
                problem("c0-in-sequence", seq_start, "csi")
            else:
                problem("aborted", seq_start, "csi: byte out of range")
                st.mode = "ground"
        elif m == "osc":
            if ch == "\x07":
                dispatch_osc()
                st.mode = "ground"
            elif ch == "\x1b":
                if i + 1 < n and text[i + 1] == "\\":
                    dispatch_osc()
                    st.mode = "ground"
                    i += 1
                else:
                    problem("aborted", seq_start, "osc")
                    st.mode = "esc"
                    seq_start = i
            elif ch in "\x18\x1a":
                problem("aborted", seq_start, "osc")
                st.mode = "ground"
            else:
                buf.append(ch)
        elif m == "str":
            if ch == "\x1b":
                if i + 1 < n and text[i + 1] == "\\":
                    st.mode = "ground"
                    i += 1
                else:
                    problem("aborted", seq_start, "string")
                    st.mode = "esc"
                    seq_start = i
            elif ch in "\x18\x1a":
                st.mode = "ground"
        i += 1
    if st.mode != "ground":
        problem("cut-by-eof", seq_start, st.mode)
    if row.cells or row.erases or row.problems or st.mode != "ground" or not dec.rows or \
            (text and not text.endswith("\n")):
        end_row(False)
    dec.final = st.copy()
    # row-level bad-sgr problems were appended to row.problems only; mirror them
    for r in dec.rows:
        for p in r.problems:
            if p not in dec.problems:
                dec.problems.append(p)
    return dec


def style_key(fg, bg, attrs):
    """Canonical printable form of a rendition (for messages and comparisons)."""
    def c(x):
        if x is None:
            return "-"
        if x[0] == "idx":
            return "i%d" % x[1]
        return "r%d,%d,%d" % x[1:]
    return "%s:%s:%s" % (c(fg), c(bg), ",".join(sorted(attrs)))
