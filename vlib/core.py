"""Common machinery for the /verif checks.

Every check:  build /repo's working tree with the hooks on  ->  regenerate the extracted
Lean tables  ->  `lake build` the property's theorems and model driver  ->  axiom/source
audit  ->  correspondence (model driver vs implementation) + direct oracle on the
implementation  ->  evidence + verdict.  See DESIGN.md sections 2 and 7.
"""
import base64
import fcntl
import hashlib
import json
import os
import random
import re
import subprocess
import sys
import time

ROOT = os.path.dirname(os.path.dirname(os.path.abspath(__file__)))
REPO = os.environ.get("VERIF_REPO", "/repo")
BUILD = os.environ.get("VERIF_BUILD", os.path.join(ROOT, ".build"))
LEAN_SRC = os.path.join(ROOT, "lean")
# Checks against a scratch tree (VERIF_REPO != /repo) regenerate the extracted tables from that tree;
# they work in a private copy of the Lean project so that the shared one always reflects /repo.
LEAN = LEAN_SRC if os.path.realpath(REPO) == "/repo" else os.path.join(BUILD, "lean-" + hashlib.sha256(os.path.realpath(REPO).encode()).hexdigest()[:10])


def sync_private_lean():
    if LEAN == LEAN_SRC:
        return
    with Lock("leansync-" + os.path.basename(LEAN)):
        if not os.path.isdir(LEAN):
            subprocess.run(["cp", "-r", LEAN_SRC, LEAN])
        subprocess.run(["rsync", "-a", "--delete", "--exclude", ".lake", "--exclude", "DeltaModel/Generated",
                        "--exclude", "Audit", LEAN_SRC + "/", LEAN + "/"])
GUARD = "dandavison_delta_verif"
RUSTFLAGS = f"--cfg {GUARD} --check-cfg cfg({GUARD}) -Awarnings"
ALLOWED_AXIOMS = {"propext", "Classical.choice", "Quot.sound"}
TRUSTED_BASE = [
    "Lean 4.33.0 kernel",
    "axioms per theorem within {propext, Classical.choice, Quot.sound} (audited by #print axioms on every run)",
    "tools/extract.py (translator from /repo/src to lean/DeltaModel/Generated)",
    "correspondence harness (vlib/, hook driver src/verif_hooks under cfg(dandavison_delta_verif))",
]


def sha(b):
    if isinstance(b, str):
        b = b.encode()
    return hashlib.sha256(b).hexdigest()


def hx(s):
    """Encode a str/bytes as a protocol string field."""
    if isinstance(s, str):
        s = s.encode("utf-8", "surrogateescape")
    return "x" + s.hex()


def unhx(f):
    assert f.startswith("x"), f
    return bytes.fromhex(f[1:])


def unhxs(f):
    return unhx(f).decode("utf-8", "replace")


class Lock:
    def __init__(self, name):
        os.makedirs(BUILD, exist_ok=True)
        self.path = os.path.join(BUILD, name + ".lock")

    def __enter__(self):
        self.f = open(self.path, "w")
        fcntl.flock(self.f, fcntl.LOCK_EX)
        return self

    def __exit__(self, *a):
        fcntl.flock(self.f, fcntl.LOCK_UN)
        self.f.close()


def target_dir():
    if os.path.realpath(REPO) == "/repo":
        return os.path.join(BUILD, "target")
    return os.path.join(BUILD, "target-" + sha(os.path.realpath(REPO))[:10])


def build_impl():
    """Build REPO's working tree with the hooks on. Returns (binary path | None, log)."""
    tdir = target_dir()
    env = dict(os.environ, RUSTFLAGS=RUSTFLAGS, CARGO_TARGET_DIR=tdir, CARGO_NET_OFFLINE="true")
    with Lock("cargo-" + os.path.basename(tdir)):
        if not os.path.isdir(tdir) and os.path.isdir(os.path.join(BUILD, "target")):
            # warm start for scratch trees: reuse the dependency artefacts
            subprocess.run(["cp", "-r", os.path.join(BUILD, "target"), tdir])
        p = subprocess.run(["cargo", "build", "--offline", "--quiet"], cwd=REPO, env=env,
                           stdout=subprocess.PIPE, stderr=subprocess.STDOUT, text=True)
    binp = os.path.join(tdir, "debug", "delta")
    if p.returncode != 0 or not os.path.exists(binp):
        return None, p.stdout
    return binp, p.stdout


def run_extract(only=()):
    """Regenerate lean/DeltaModel/Generated/*.lean from REPO. `only`: the generated files this
    check depends on (they must regenerate; other generators run best-effort).
    Returns (ok, log, hashes)."""
    with Lock("extract"):
        p = subprocess.run([sys.executable, os.path.join(ROOT, "tools", "extract.py"), REPO,
                            os.path.join(LEAN, "DeltaModel", "Generated")] + list(only),
                           stdout=subprocess.PIPE, stderr=subprocess.STDOUT, text=True)
    hashes = {}
    gdir = os.path.join(LEAN, "DeltaModel", "Generated")
    if os.path.isdir(gdir):
        for f in sorted(os.listdir(gdir)):
            if f.endswith(".lean"):
                hashes[f] = sha(open(os.path.join(gdir, f), "rb").read())[:16]
    return p.returncode == 0, p.stdout, hashes


def lake_build(targets):
    p = subprocess.run(["lake", "build"] + list(targets), cwd=LEAN,
                       stdout=subprocess.PIPE, stderr=subprocess.STDOUT, text=True)
    return p.returncode == 0, p.stdout


def theorem_names(prop):
    """Named theorems of Props/<prop>.lean (the proof obligations of the property)."""
    path = os.path.join(LEAN, "Props", prop + ".lean")
    src = open(path).read()
    src = re.sub(r"/-.*?-/", "", src, flags=re.S)
    src = re.sub(r"--.*", "", src)
    ns = []
    names = []
    for m in re.finditer(r"^\s*(namespace|end|theorem)\s+([^\s:({\[]+)", src, flags=re.M):
        kw, name = m.group(1), m.group(2)
        if kw == "namespace":
            ns.append(name)
        elif kw == "end":
            if ns and ns[-1] == name:
                ns.pop()
        else:
            names.append(".".join(ns + [name]))
    return names


def axiom_audit(prop):
    """#print axioms for each property theorem. Returns {theorem: [axioms]} or raises."""
    names = theorem_names(prop)
    os.makedirs(os.path.join(LEAN, "Audit"), exist_ok=True)
    path = os.path.join(LEAN, "Audit", prop + ".lean")
    body = f"import Props.{prop}\n" + "".join(f"#print axioms {n}\n" for n in names)
    with open(path, "w") as f:
        f.write(body)
    p = subprocess.run(["lake", "env", "lean", path], cwd=LEAN, stdout=subprocess.PIPE,
                       stderr=subprocess.STDOUT, text=True)
    out = p.stdout
    res = {}
    for m in re.finditer(r"'([^']+)' depends on axioms: \[([^\]]*)\]", out, flags=re.S):
        res[m.group(1)] = [a.strip() for a in m.group(2).replace("\n", " ").split(",") if a.strip()]
    for m in re.finditer(r"'([^']+)' does not depend on any axioms", out):
        res[m.group(1)] = []
    return names, res, out, p.returncode


FORBIDDEN = re.compile(r"\b(sorry|admit|native_decide|bv_decide|implemented_by|unsafe)\b|^\s*axiom\s|maxHeartbeats\s+0\b", re.M)


def import_closure(prop):
    """Project-local modules reachable from Props/<prop>.lean through `import` lines."""
    seen, todo = set(), ["Props." + prop]
    while todo:
        mod = todo.pop()
        if mod in seen:
            continue
        path = os.path.join(LEAN, *mod.split(".")) + ".lean"
        if not os.path.exists(path):
            continue
        seen.add(mod)
        for m in re.finditer(r"^\s*(?:public\s+)?import\s+([\w.]+)", open(path).read(), flags=re.M):
            if m.group(1).split(".")[0] in ("DeltaModel", "Proofs", "Props"):
                todo.append(m.group(1))
    return sorted(seen)


def needed_generated(prop, drivers=()):
    """Generated Lean files the property's theorems and drivers import (transitively)."""
    roots = ["Props." + prop]
    lf = open(os.path.join(LEAN_SRC, "lakefile.toml")).read()
    for d in drivers:
        m = re.search(r'name = "%s"\s*\nroot = "([\w.]+)"' % re.escape(d), lf)
        if m:
            roots.append(m.group(1))
    seen, todo, gen = set(), roots, set()
    while todo:
        mod = todo.pop()
        if mod in seen:
            continue
        seen.add(mod)
        if mod.startswith("DeltaModel.Generated."):
            gen.add(mod.split(".")[-1])
            continue
        path = os.path.join(LEAN_SRC, *mod.split(".")) + ".lean"
        if not os.path.exists(path):
            continue
        for m in re.finditer(r"^\s*(?:public\s+)?import\s+([\w.]+)", open(path).read(), flags=re.M):
            if m.group(1).split(".")[0] in ("DeltaModel", "Proofs", "Props", "Driver"):
                todo.append(m.group(1))
    return sorted(gen)


def source_audit(prop):
    """Forbidden constructs in the Lean sources the property's theorems depend on (comments removed)."""
    hits = []
    for mod in import_closure(prop):
        p = os.path.join(LEAN, *mod.split(".")) + ".lean"
        src = open(p).read()
        src = re.sub(r"/-.*?-/", lambda m: "\n" * m.group(0).count("\n"), src, flags=re.S)
        src = re.sub(r"--.*", "", src)
        for m in FORBIDDEN.finditer(src):
            hits.append(f"{os.path.relpath(p, LEAN)}:{src.count(chr(10), 0, m.start()) + 1}:{m.group(0).strip()}")
    return hits


class LineProc:
    """A line-protocol process (hook driver or model driver): one response per request."""

    def __init__(self, cmd, env=None, cwd=None):
        self.cmd, self.env, self.cwd = cmd, env, cwd
        self.restarts = 0

    def _run(self, lines, timeout):
        data = ("\n".join(lines) + "\n").encode()
        try:
            p = subprocess.run(self.cmd, input=data, stdout=subprocess.PIPE, stderr=subprocess.PIPE,
                               env=self.env, cwd=self.cwd, timeout=timeout)
            out = p.stdout.decode("utf-8", "replace").split("\n")
            if out and out[-1] == "":
                out.pop()
            return out, p.returncode, p.stderr.decode("utf-8", "replace")
        except subprocess.TimeoutExpired as e:
            out = (e.stdout or b"").decode("utf-8", "replace").split("\n")
            if out and out[-1] == "":
                out.pop()
            return out, "timeout", ""

    def ask(self, lines, timeout=300, sticky=()):
        """Answers for `lines`. A request that kills the process (exit, abort, hang) gets
        `DIED <rc> <stderr hex>`; the process is restarted after it. `sticky`: indices of
        state-setting requests (e.g. `cfg`) to re-send after a restart (the most recent
        one before the restart point is re-sent)."""
        lines = list(lines)
        for ln in lines:
            assert "\n" not in ln
        res = []
        start = 0
        sticky = sorted(sticky)
        while start < len(lines):
            pre = [lines[i] for i in sticky if i < start][-1:]
            out, rc, err = self._run(pre + lines[start:], timeout)
            out = out[len(pre):] if len(out) >= len(pre) else []
            n = len(lines) - start
            if len(out) >= n:
                res.extend(out[:n])
                break
            # died while answering request start+len(out)
            res.extend(out)
            if rc == "timeout":
                # a slow batch (machine under load) is not a hang: ask for that one request alone before concluding
                k = start + len(out)
                pre1 = [lines[i] for i in sticky if i < k][-1:]
                out1, rc1, err1 = self._run(pre1 + [lines[k]], timeout)
                if rc1 != "timeout" and len(out1) > len(pre1):
                    res.append(out1[len(pre1)])
                    start = k + 1
                    continue
            else:
                # a death caused by the environment (the machine out of memory for a moment: `memory allocation of
                # N bytes failed`, a kill by the OOM killer) is not a crash of delta: a genuine crash is deterministic,
                # so ask for that one request alone once more before concluding
                k = start + len(out)
                if k < len(lines) and ("memory allocation of" in err or rc in (-9, 137)):
                    pre1 = [lines[i] for i in sticky if i < k][-1:]
                    out1, rc1, err1 = self._run(pre1 + [lines[k]], timeout)
                    if rc1 != "timeout" and len(out1) > len(pre1):
                        res.append(out1[len(pre1)])
                        self.env_retries = getattr(self, "env_retries", 0) + 1
                        start = k + 1
                        continue
            res.append("DIED %s %s" % (rc, hx(err[-400:])))
            self.restarts += 1
            start += len(out) + 1
        return res


def parallel_map(fn, items, workers=None):
    from concurrent.futures import ThreadPoolExecutor
    workers = workers or min(16, os.cpu_count() or 4)
    with ThreadPoolExecutor(max_workers=workers) as ex:
        return list(ex.map(fn, items))


def load_known():
    """Known findings: /verif/known_findings/<Cxx>.json, {"findings": [{property, id, signature
    (regex matched against the violation signature), what}], "fixed": ["fixed: property=... <commit> <what>"]}.
    Read only; never written at run time."""
    d = os.path.join(ROOT, "known_findings")
    out = []
    if os.path.isdir(d):
        for f in sorted(os.listdir(d)):
            if f.endswith(".json"):
                out.extend(json.load(open(os.path.join(d, f))).get("findings", []))
    return out


class Report:
    """Collects what a check did; writes evidence/<id>.json; prints the verdict lines."""

    def __init__(self, prop, tier, seed):
        self.prop, self.tier, self.seed = prop, tier, seed
        self.t0 = time.time()
        self.obligations = []      # theorem names
        self.discharged = []
        self.axioms = {}
        self.proof_log = ""
        self.broken_proofs = []    # theorem / module names that no longer check
        self.corr = {}             # op -> {"cases": n, "disagreements": n}
        self.corr_broken = []      # (op, case dict)
        self.evaluations = 0
        self.nontrivial = set()
        self.samples = []
        self.violations = []       # dict(signature, what, replay)
        self.known_hit = []
        self.dist = {}
        self.assumptions = []
        self.notes = {}
        self.generated_hashes = {}
        self.checker_cmd = f"lake build Props.{prop} (cwd /verif/lean) + lake env lean Audit/{prop}.lean (#print axioms)"
        self.extra_trusted = []
        self.rule = ""
        self.level = "proof"
        self.exhaustive = None

    # --- bookkeeping used by property modules
    def count(self, key, n=1):
        self.dist[key] = self.dist.get(key, 0) + n

    def case(self, key=None, nontrivial=True, sample=None):
        """Record one explored case. `key`: hashable identity used for distinctness."""
        self.evaluations += 1
        if nontrivial and key is not None:
            self.nontrivial.add(sha(repr(key))[:16])
        if sample is not None and len(self.samples) < 6:
            self.samples.append(sample)

    def corr_case(self, op, agree, case=None):
        c = self.corr.setdefault(op, {"cases": 0, "disagreements": 0})
        c["cases"] += 1
        if not agree:
            c["disagreements"] += 1
            if len(self.corr_broken) < 20:
                self.corr_broken.append((op, case))

    def violation(self, signature, what, replay):
        """A concrete failure of the property on the implementation (direct oracle)."""
        for k in load_known():
            if k.get("property") == self.prop and re.fullmatch(k["signature"], signature):
                if k["id"] not in [x["id"] for x in self.known_hit]:
                    self.known_hit.append(k)
                return False
        if len(self.violations) < 50:
            self.violations.append({"signature": signature, "what": what, "replay": replay})
        return True

    # --- output
    def _write_replay(self, obj, tag):
        d = os.path.join(ROOT, "replays")
        os.makedirs(d, exist_ok=True)
        body = json.dumps(obj, indent=1, sort_keys=True, default=str)
        path = os.path.join(d, f"{self.prop}-{tag}-{sha(body)[:10]}.json")
        with open(path, "w") as f:
            f.write(body)
        return path

    def finish(self):
        lines = []
        rc = 0
        for k in self.known_hit:
            lines.append(f"KNOWN-FINDING: property={self.prop} {k['what']}")
        seen = set()
        for v in self.violations:
            if v["signature"] in seen:
                continue
            seen.add(v["signature"])
            obj = dict(property=self.prop, kind="impl-violation", seed=self.seed, tier=self.tier,
                       signature=v["signature"], what=v["what"], case=v["replay"])
            lines.append(f"VIOLATION property={self.prop} replay={self._write_replay(obj, 'impl')}")
            rc = 1
        tie_broken = bool(self.broken_proofs or self.corr_broken)
        if tie_broken and not self.violations:
            obj = dict(property=self.prop, kind="tie-broken", seed=self.seed, tier=self.tier,
                       broken_theorems=self.broken_proofs,
                       broken_correspondence=[dict(op=o, case=c) for o, c in self.corr_broken[:5]],
                       proof_log_tail=self.proof_log[-3000:],
                       searched=dict(evaluations=self.evaluations, note="direct oracle found no failing input on the implementation"))
            lines.append(f"VIOLATION property={self.prop} replay={self._write_replay(obj, 'tie')} no-failing-input-found")
            rc = 1
        elif tie_broken:
            # the concrete violation(s) above are the replay; also record the broken tie
            self.notes["tie_broken"] = dict(theorems=self.broken_proofs,
                                            correspondence=[o for o, _ in self.corr_broken])
        cov = dict(
            obligations=len(self.obligations), discharged=len(self.discharged),
            checker_cmd=self.checker_cmd, trusted_base=TRUSTED_BASE + self.extra_trusted,
            theorems=self.obligations, axioms=self.axioms,
            evaluations=self.evaluations, distinct_nontrivial=len(self.nontrivial),
            rule=self.rule, samples=self.samples[:6] or ["(no correspondence cases ran)"],
            correspondence=self.corr,
            disagreements_checked=sum(c["disagreements"] for c in self.corr.values()),
            distribution=self.dist, generated_hashes=self.generated_hashes, notes=self.notes,
            known_findings_hit=[k["id"] for k in self.known_hit],
        )
        if self.exhaustive is not None:
            # the schema's `exhaustive` is a boolean about the run as a whole; a description of the finite sub-spaces that were
            # enumerated completely goes under its own key
            if isinstance(self.exhaustive, bool):
                cov["exhaustive"] = self.exhaustive
            else:
                cov["exhaustive_parts"] = self.exhaustive
        ev = dict(property_id=self.prop, tier=self.tier, seed=self.seed, level=self.level,
                  coverage=cov, assumptions=self.assumptions, wall_s=round(time.time() - self.t0, 2),
                  violations=len(seen) + (1 if (tie_broken and not self.violations) else 0))
        # evidence/ describes /repo itself; a run against a scratch tree (VERIF_REPO) writes beside its build
        evdir = (os.path.join(ROOT, "evidence") if os.path.realpath(REPO) == "/repo" and not getattr(self, "is_replay", False)
                 else os.path.join(ROOT, ".build", "evidence-scratch"))
        os.makedirs(evdir, exist_ok=True)
        with open(os.path.join(evdir, self.prop + ".json"), "w") as f:
            json.dump(ev, f, indent=1, default=str)
        for ln in lines:
            print(ln)
        print(f"[{self.prop}] tier={self.tier} seed={self.seed} obligations={len(self.obligations)} "
              f"discharged={len(self.discharged)} evaluations={self.evaluations} "
              f"distinct_nontrivial={len(self.nontrivial)} corr={self.corr} "
              f"violations={ev['violations']} known={len(self.known_hit)} wall={ev['wall_s']}s")
        return rc


class Ctx:
    """What a property module gets: tier, rng, the implementation binary, drivers."""

    def __init__(self, prop, tier, seed):
        self.prop, self.tier, self.seed = prop, tier, seed
        self.rng = random.Random(seed)
        self.delta = None
        self.lean_ok = False
        self.drivers_ok = True

    def quick(self):
        return self.tier == "quick"

    def n(self, quick, thorough):
        return quick if self.tier == "quick" else thorough

    def hook(self, extra_env=None):
        env = dict(os.environ, DELTA_VERIF_HOOK="1")
        env.pop("GIT_CONFIG_PARAMETERS", None)
        env.update(extra_env or {})
        return LineProc([self.delta], env=env)

    def model(self, exe):
        path = os.path.join(LEAN, ".lake", "build", "bin", exe)
        if not os.path.exists(path):
            return None
        return LineProc([path])

    def run_delta(self, args, stdin_bytes, env=None, timeout=30, cwd=None):
        """Run the real binary. Returns (rc, stdout bytes, stderr bytes); rc 'timeout' on hang."""
        e = dict(os.environ)
        for k in ("GIT_CONFIG_PARAMETERS", "DELTA_FEATURES", "DELTA_PAGER", "PAGER", "BAT_PAGER",
                  "BAT_THEME", "COLORTERM", "DELTA_VERIF_HOOK", "LESS", "GIT_PREFIX"):
            e.pop(k, None)
        e["HOME"] = os.path.join(BUILD, "home")
        os.makedirs(e["HOME"], exist_ok=True)
        e["GIT_CONFIG_NOSYSTEM"] = "1"
        e["DELTA_VERIF_FORCE_GUESS"] = "none"
        e.update(env or {})
        try:
            p = subprocess.run([self.delta] + list(args), input=stdin_bytes, stdout=subprocess.PIPE,
                               stderr=subprocess.PIPE, env=e, timeout=timeout, cwd=cwd)
            return p.returncode, p.stdout, p.stderr
        except subprocess.TimeoutExpired as ex:
            return "timeout", ex.stdout or b"", ex.stderr or b""


def b64(b):
    return base64.b64encode(b).decode()


def main(argv):
    import argparse
    import importlib
    ap = argparse.ArgumentParser()
    ap.add_argument("prop")
    ap.add_argument("--tier", default=os.environ.get("VERIF_TIER", "quick"), choices=["quick", "thorough"])
    ap.add_argument("--replay")
    a = ap.parse_args(argv)
    prop = a.prop.upper()
    seed = int(os.environ.get("VERIF_SEED", "20260929"))
    mod = importlib.import_module("vlib.props." + prop.lower())
    rep = Report(prop, a.tier, seed)
    rep.is_replay = bool(a.replay)
    ctx = Ctx(prop, a.tier, seed)

    # 1. implementation, from the current working tree, hooks on
    ctx.delta, blog = build_impl()
    if ctx.delta is None:
        print(blog[-4000:])
        print(f"[{prop}] ERROR: {REPO} does not build with the hooks on; nothing checked")
        return 2

    sync_private_lean()
    # 2. translator: regenerate the extracted tables
    need = sorted(set(getattr(mod, "GENERATED", ())) | set(needed_generated(prop, getattr(mod, "DRIVERS", ()))))
    ok, xlog, rep.generated_hashes = run_extract(need)
    rep.generated_hashes = {k: v for k, v in rep.generated_hashes.items() if k[:-5] in need}
    if not ok:
        rep.broken_proofs.append("tools/extract.py: " + xlog[-600:])

    # 3. proof obligations
    ok, plog = lake_build([f"Props.{prop}"])
    rep.proof_log = plog
    try:
        rep.obligations = theorem_names(prop)
    except OSError:
        rep.obligations = []
    if ok:
        names, ax, alog, arc = axiom_audit(prop)
        rep.axioms = ax
        for n in names:
            if n in ax and set(ax[n]) <= ALLOWED_AXIOMS:
                rep.discharged.append(n)
            else:
                rep.broken_proofs.append(f"{n}: axioms {ax.get(n, 'not reported')}")
        hits = source_audit(prop)
        rep.notes["audited_modules"] = import_closure(prop)
        if hits:
            rep.broken_proofs.append("forbidden constructs: " + ", ".join(hits[:10]))
            rep.discharged = []
    else:
        bad = sorted(set(re.findall(r"error: ([^\s:]+\.lean:\d+)", plog)))
        rep.broken_proofs.append(f"lake build Props.{prop} failed at " + (", ".join(bad[:8]) or "?"))
    ctx.lean_ok = ok
    if a.tier == "thorough" and ok:
        p = subprocess.run(["lake", "env", "leanchecker", f"Props.{prop}"], cwd=LEAN,
                           stdout=subprocess.PIPE, stderr=subprocess.STDOUT, text=True)
        rep.notes["leanchecker"] = dict(rc=p.returncode, out=p.stdout[-500:])
        if p.returncode != 0:
            rep.broken_proofs.append("leanchecker rejected Props." + prop)

    # 4. model drivers
    drivers = getattr(mod, "DRIVERS", [])
    if drivers:
        dok, dlog = lake_build(drivers)
        ctx.drivers_ok = dok
        if not dok:
            rep.broken_proofs.append("model driver does not build: " + dlog[-800:])

    # 5. correspondence + direct oracle
    if a.replay:
        obj = json.load(open(a.replay))
        try:
            mod.replay(ctx, rep, obj)
        except KeyError as e:
            if e.args != ("case",) or "broken_correspondence" not in obj:
                raise
            # a tie-broken replay: re-run each recorded disagreement case through the module's replay
            for bc in obj["broken_correspondence"]:
                print(f"--- correspondence {bc.get('op')}")
                mod.replay(ctx, rep, dict(obj, case=bc["case"], op=bc.get("op")))
            for t in obj.get("broken_theorems", []):
                print("--- broken obligation:", str(t)[:400])
    else:
        mod.run(ctx, rep)
    return rep.finish()
