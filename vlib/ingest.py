"""`ingest_line` (src/delta.rs): correspondence with the Lean model `DeltaModel/Ingest.lean` (driver
`drv_ansi`, op `ingest.line`) through the hook ops `machine.ingest` / `machine.ingest_cfg`, and a direct
oracle on the hook and on the real binary: a pass-through line comes out byte for byte, except that
the last `\\r` is dropped when only escape sequences / zero-width characters follow it (the CRLF
remnant git leaves when it colours a CRLF line), and except for truncation at `max-line-length`.

Entry point: `ingest_check(ctx, rep)` (called from vlib/props/c04.py; needs `drv_ansi` in DRIVERS and
`Ingest`, `VteTable`, `AnsiSgr`, `RawLine` in GENERATED of the calling property module).
While the hook op is not in the tree under test (`ERR unknown op`), only the binary oracle runs.
"""
import re

from .core import hx, unhx, parallel_map

ESC = "\x1b"
CSI = re.compile(rb"\x1b\[[0-9;:<=>?]*[ -/]*[@-~]")
OSC = re.compile(rb"\x1b\][^\x07\x1b]*(?:\x07|\x1b\\)")

VISIBLE = ["done", "x", "Compiling 2/3", "日本", "é", " ", "0%"]
ZERO_WIDTH = ["​", "​​"]
SEQS = [ESC + "[m", ESC + "[0m", ESC + "[K", ESC + "[0K", ESC + "[32m", ESC + "[1;31m", ESC + "]8;;" + ESC + "\\",
        ESC + "]8;;file:///x" + ESC + "\\", ESC + "[m" + ESC + "[K"]
WORDS = ["log:", "build", "Fetching", "日本語", "é", "x=1;", "100%", "a\tb", ESC + "[31mred" + ESC + "[m", ESC + "[1mbold" + ESC + "[0m", "ｗｉｄｅ", "-", "+"]


def gen_case(rng):
    """-> (line: str, tail kind after the last CR: None | 'nothing' | 'seq' | 'zero' | 'visible', prefix kind)"""
    k = rng.random()
    head = " ".join(rng.choice(WORDS) for _ in range(rng.randint(0, 5)))
    long_ = rng.random() < 0.25
    if long_:
        head = rng.choice(["", "@@ ", "{", "@", " @@", "note "]) + head + " " + " ".join(rng.choice(WORDS) for _ in range(rng.randint(6, 14)))
    if k < 0.3:
        return head, None
    if rng.random() < 0.3:
        head = head + "\r" + rng.choice(VISIBLE)      # an earlier CR: only the last one matters
    t = rng.random()
    if t < 0.15:
        return head + "\r", "nothing"
    if t < 0.45:
        return head + "\r" + "".join(rng.choice(SEQS) for _ in range(rng.randint(1, 2))), "seq"
    if t < 0.55:
        return head + "\r" + rng.choice(SEQS) + rng.choice(ZERO_WIDTH) + rng.choice(["", ESC + "[m"]), "zero"
    if t < 0.8:
        return head + "\r" + rng.choice(SEQS) + rng.choice(VISIBLE) + rng.choice(["", ESC + "[m"]), "visible"
    return head + "\r" + rng.choice(VISIBLE) + rng.choice(["", ESC + "[m"]), "visible"


def expected_raw(line, kind):
    """The documented behaviour, from the generator's own knowledge of the line's structure."""
    if kind in ("nothing", "seq", "zero"):
        i = line.rindex("\r")
        return line[:i] + line[i + 1:]
    return line


def will_truncate(max_len, raw):
    b = raw.encode()
    return max_len > 0 and len(b) > max_len and not b.startswith(b"@@") and not b.startswith(b"{")


def strip_py(b):
    return OSC.sub(b"", CSI.sub(b"", b))


def text_slices(el, sb):
    out = []
    if el.startswith("ok"):
        for e in el.split()[1:]:
            p = e.split(":")
            if p[0] == "T":
                out.append(sb[int(p[1]):int(p[2])])
    return out


def tables_for(hook, strings):
    """Unicode data (widths, grapheme clusters) of everything the model can ask about `strings`."""
    strings = [s for s in dict.fromkeys(strings)]
    el = hook.ask([f"ansi.elements {hx(s)}" for s in strings] + [f"ansi.strip {hx(s)}" for s in strings])
    texts = []
    for s, e in zip(strings, el[:len(strings)]):
        texts += text_slices(e, s)
    for r in el[len(strings):]:
        if r.startswith("ok"):
            texts.append(unhx(r[3:]) if len(r) > 3 else b"")
    texts = [t for t in dict.fromkeys(texts) if t]
    g = hook.ask([f"text.graphemes {hx(t)}" for t in texts]) if texts else []
    gt, clusters = {}, []
    for t, r in zip(texts, g):
        if r.startswith("ok"):
            gs = [unhx(x.split(":")[0]) for x in r.split()[1:]]
            gt[t] = gs
            clusters += gs
    keys = [k for k in dict.fromkeys(texts + clusters) if k]
    w = hook.ask([f"ansi.width {hx(k)}" for k in keys]) if keys else []
    wt = {k: int(r.split()[1]) for k, r in zip(keys, w) if r.startswith("ok ")}
    return wt, gt


def table_fields(wt, gt):
    wf = f"{len(wt)} " + " ".join(f"{hx(t)} {n}" for t, n in sorted(wt.items()))
    gf = f"{len(gt)} " + " ".join(f"{hx(t)} {len(gs)} " + " ".join(hx(x) for x in gs) for t, gs in sorted(gt.items()))
    return (wf.strip() + " " + gf.strip()).strip()


def hook_part(ctx, rep, report):
    rng = ctx.rng
    hook = ctx.hook()
    mdl = ctx.model("drv_ansi") if ctx.drivers_ok else None
    probe = hook.ask(["machine.ingest_cfg"])[0]
    if not probe.startswith("ok "):
        rep.count("ingest:hook-op-missing")
        rep.notes["ingest_hook"] = "machine.ingest not in the tree under test: binary oracle only"
        return
    for _ in range(ctx.n(8, 80)):
        max_len = rng.choice([0, 0, 3, 8, 20, 40, 512])
        cfg = ["--max-line-length", str(max_len)]   # the truncation symbol is fixed (reverse-video arrow)
        cfgline = "cfg " + " ".join(hx(a) for a in cfg)
        cases = [gen_case(rng) for _ in range(ctx.n(30, 120))]
        cases += [("ab\r" + ESC + "[m", "seq"), ("Fetching\r" + ESC + "[32mdone" + ESC + "[m", "visible"),
                  ("Compiling 1/3\r" + ESC + "[KCompiling 2/3", "visible")]
        ans = hook.ask([cfgline, "machine.ingest_cfg"] + [f"machine.ingest {hx(l)}" for l, _ in cases], sticky=[0])
        c = ans[1].split()
        ml, symb = int(c[1]), (unhx(c[2]) if len(c) > 2 else b"")
        impl = ans[2:]
        # what the model needs: the line, the line without its last CR, the tail, the symbol and its truncation
        tr = hook.ask([cfgline, f"ansi.truncate {hx(symb)} {ml} x 1"], sticky=[0])[1]
        symt = unhx(tr[3:]) if tr.startswith("ok x") else b""
        strings = [symb, symt]
        for l, _ in cases:
            b = l.encode()
            strings.append(b)
            if b"\r" in b:
                i = b.rindex(b"\r")
                strings += [b[i + 1:], b[:i] + b[i + 1:]]
        wt, gt = tables_for(hook, strings)
        tf = table_fields(wt, gt)
        model = mdl.ask([f"ingest.line {ml} {hx(symb)} {hx(l)} {tf}" for l, _ in cases]) if mdl else [None] * len(cases)
        for (l, kind), i, m in zip(cases, impl, model):
            rep.case(key=("ingest", ml, symb, l), nontrivial=kind is not None or will_truncate(ml, l),
                     sample=dict(op="machine.ingest", max_line_length=ml, line=l, impl=i))
            rep.count("ingest:tail=" + str(kind))
            if m is not None:
                agree = (i == m) or (i.startswith("PANIC") and m.startswith("PANIC"))
                rep.corr_case("machine.ingest", agree, dict(max_line_length=ml, symbol=symb.decode("utf-8", "replace"), line=l, impl=i, model=m))
            if not i.startswith("ok"):
                report(rep, "ingest:panic", "ingest_line panicked", dict(kind="ingest-hook", cfg=cfg, line=l, got=i))
                continue
            f = i.split()[1:]
            raw_line, line = unhx(f[0]), unhx(f[1])
            want = expected_raw(l, kind).encode()
            if will_truncate(ml, want.decode()):
                rep.count("ingest:truncated")
                continue
            if raw_line != want:
                sig = "ingest:cr-removed-before-visible-text" if kind == "visible" else \
                      "ingest:crlf-remnant-kept" if kind in ("nothing", "seq", "zero") else "ingest:line-altered"
                report(rep, sig, "raw_line is not the input line (minus the \\r of a CRLF remnant)",
                       dict(kind="ingest-hook", cfg=cfg, line=l, got=raw_line.decode("utf-8", "replace"), want=want.decode("utf-8", "replace")))
            elif line != strip_py(want):
                report(rep, "ingest:line-not-stripped", "line is not the raw line without its escape sequences",
                       dict(kind="ingest-hook", cfg=cfg, line=l, got=line.decode("utf-8", "replace")))


def binary_case(ctx, rep, report, case):
    """Pass-through text through the real binary: every line comes out as expected_raw says."""
    cases, max_len = case["lines"], case["max_len"]
    data = ("\n".join(l for l, _ in cases) + "\n").encode()
    args = ["--no-gitconfig"] + (["--max-line-length", str(max_len)] if max_len is not None else [])
    rc, out, err = ctx.run_delta(args, data)
    ml = 3000 if max_len is None else max_len
    rep.case(key=("ingest-bin", max_len, tuple(l for l, _ in cases)), nontrivial=any(k for _, k in cases),
             sample=dict(op="binary pass-through (ingest)", max_line_length=max_len, lines=[l for l, _ in cases][:4]))
    rep.count("ingest:binary")
    if rc != 0:
        report(rep, "ingest:exit-status", f"delta exit status {rc}", dict(kind="ingest-binary", case=case))
        return
    got = out.split(b"\n")
    for n, (l, kind) in enumerate(cases):
        if l.endswith("\r"):
            want = l[:-1].encode()          # the line reader already takes a trailing CR with the newline
        else:
            want = expected_raw(l, kind).encode()
        if will_truncate(ml, want.decode()):
            continue
        g = got[n] if n < len(got) else None
        if g != want:
            sig = "ingest:cr-removed-before-visible-text" if kind == "visible" else \
                  "ingest:crlf-remnant-kept" if kind in ("seq", "zero") else "ingest:line-altered"
            report(rep, sig + ":binary", "a pass-through line is not emitted byte for byte (minus the \\r of a CRLF remnant)",
                   dict(kind="ingest-binary", row=n, line=l, got=repr(g), want=repr(want), case=case))
            return


def ingest_check(ctx, rep, report=None):
    if report is None:
        seen = {}

        def report(rep, signature, what, replay):
            n = seen.get(signature, 0)
            seen[signature] = n + 1
            if n < 3:
                rep.violation(signature, what, replay)
    hook_part(ctx, rep, report)
    rng = ctx.rng
    cases = []
    for _ in range(ctx.n(30, 600)):
        lines = []
        for _ in range(rng.randint(2, 8)):
            l, kind = gen_case(rng)
            # keep the stream free of construct openers: pass-through text only
            if not l.startswith(("@@", "{")):
                l = "log: " + l
            lines.append((l, kind))
        if rng.random() < 0.3:
            lines += [("Compiling 1/3\r" + ESC + "[KCompiling 2/3\r" + ESC + "[KCompiling 3/3", "visible"),
                      ("Fetching\r" + ESC + "[32mdone" + ESC + "[m", "visible")]
        lines = [(l, k) for l, k in lines if not l.startswith(("@@", "{"))]
        cases.append(dict(lines=lines, max_len=rng.choice([None, None, 0, 30, 200])))
    import threading
    lock = threading.Lock()

    class Shim:
        def __getattr__(self, name):
            f = getattr(rep, name)
            def g(*a, **k):
                with lock:
                    return f(*a, **k)
            return g
    shim = Shim()
    parallel_map(lambda c: binary_case(ctx, shim, report, c), cases)


def ingest_replay(ctx, rep, case):
    """Replay of a violation recorded by this module (`kind` = ingest-binary / ingest-hook)."""
    def report(rep, signature, what, replay):
        rep.violation(signature, what, replay)
    if case.get("kind") == "ingest-binary":
        c = case["case"]
        binary_case(ctx, rep, report, dict(lines=[tuple(x) for x in c["lines"]], max_len=c["max_len"]))
    else:
        ingest_check(ctx, rep)
