"""`ingest_line` (src/delta.rs): correspondence with the Lean model `DeltaModel/Ingest.lean` (driver
`drv_ansi`, op `ingest.line`) through the hook ops `machine.ingest` / `machine.ingest_cfg`, and a direct
oracle on the hook and on the real binary: a pass-through line comes out byte for byte, except that
the last `\\r` is dropped when only escape sequences / zero-width characters follow it (the CRLF
remnant git leaves when it colours a CRLF line), and except for truncation at `max-line-length`.

Entry point: `ingest_check(ctx, rep)` (called from vlib/props/c04.py; needs `drv_ansi` in DRIVERS and
`Ingest`, `VteTable`, `AnsiSgr`, `RawLine` in GENERATED of the calling property module).
While the hook op is not in the tree under test (`ERR unknown op`), only the binary oracle runs.
"""
import re

from .core import hx, unhx, parallel_map

ESC = "\x1b"
CSI = re.compile(rb"\x1b\[[0-9;:<=>?]*[ -/]*[@-~]")
OSC = re.compile(rb"\x1b\][^\x07\x1b]*(?:\x07|\x1b\\)")

VISIBLE = ["done", "x", "Compiling 2/3", "日本", "é", " ", "0%"]
ZERO_WIDTH = ["​", "​​"]
SEQS = [ESC + "[m", ESC + "[0m", ESC + "[K", ESC + "[0K", ESC + "[32m", ESC + "[1;31m", ESC + "]8;;" + ESC + "\\",
        ESC + "]8;;file:///x" + ESC + "\\", ESC + "[m" + ESC + "[K"]
WORDS = ["log:", "build", "Fetching", "日本語", "é", "x=1;", "100%", "a\tb", ESC + "[31mred" + ESC + "[m", ESC + "[1mbold" + ESC + "[0m", "ｗｉｄｅ", "-", "+"]


def gen_case(rng):
    """-> (line: str, tail kind after the last CR: None | 'nothing' | 'seq' | 'zero' | 'visible', prefix kind)"""
    k = rng.random()
    head = " ".join(rng.choice(WORDS) for _ in range(rng.randint(0, 5)))
    long_ = rng.random() < 0.25
    if long_:
        head = rng.choice(["", "@@ ", "{", "@", " @@", "note "]) + head + " " + " ".join(rng.choice(WORDS) for _ in range(rng.randint(6, 14)))
    if k < 0.3:
        return head, None
    if rng.random() < 0.3:
        head = head + "\r" + rng.choice(VISIBLE)      # an earlier CR: only the last one matters
    t = rng.random()
    if t < 0.15:
        return head + "\r", "nothing"
    if t < 0.45:
        return head + "\r" + "".join(rng.choice(SEQS) for _ in range(rng.randint(1, 2))), "seq"
    if t < 0.55:
        return head + "\r" + rng.choice(SEQS) + rng.choice(ZERO_WIDTH) + rng.choice(["", ESC + "[m"]), "zero"
    if t < 0.8:
        return head + "\r" + rng.choice(SEQS) + rng.choice(VISIBLE) + rng.choice(["", ESC + "[m"]), "visible"
    return head + "\r" + rng.choice(VISIBLE) + rng.choice(["", ESC + "[m"]), "visible"


# ------------------------------------------------------------------ escape-heavy long lines (added for C09-w5-09)
#
# Lines whose BYTES are mostly escape sequences: many times longer in bytes than wide in columns. Nothing in `WORDS`
# above gets denser than 11 bytes for 3 columns, and lines there have at most ~20 words, so a line never was much longer
# than a small `max-line-length` while still *fitting* it in columns, and its sequences never lay beyond a small multiple
# of the limit in bytes. Used by C04 (hook_part below) and by C09 (vlib/props/c09.py).

HEAVY_SHAPES = ["rainbow", "tokens", "link", "escape-tail", "late-close", "mixed"]
HEAVY_CHARS = list("abcdefghijklmnopqrstuvwxyzABCXYZ0123456789_=;(){}") + ["é", "日", "本", "ｗ", "😀", "ß"]
HEAVY_WORDS = ["let", "x", "=", "f(a,", "b);", "fn", "main()", "{", "}", "return", "日本語", "naïve", "42;", "//", "ok"]


def _sgr_open(rng):
    k = rng.random()
    if k < 0.4:
        return ESC + "[38;2;%d;%d;%dm" % (rng.randint(0, 255), rng.randint(0, 255), rng.randint(0, 255))
    if k < 0.6:
        return ESC + "[1;4;38;5;%d;48;5;%dm" % (rng.randint(16, 255), rng.randint(232, 255))
    if k < 0.75:
        return ESC + "[38;2;%d;%d;%d;48;2;%d;%d;%dm" % tuple(rng.randint(0, 255) for _ in range(6))
    if k < 0.9:
        return ESC + "[%dm" % rng.choice([1, 3, 4, 7, 31, 32, 36, 91, 44])
    return ESC + "[1;3;4;7;9;38;5;%dm" % rng.randint(0, 255)


def _sgr_close(rng):
    return ESC + rng.choice(["[0m", "[m", "[0m", "[22;23;24;27;29;39;49m" + ESC + "[0m"])


def gen_escape_heavy(rng, max_len, shape=None, multiple=None):
    """-> (items, shape): a balanced line as items [('t', text) | ('e', one escape sequence)], no two adjacent text
    items, no CR, whose byte length is at least `multiple` x (max_len + 1) (+ a random remainder, so that the end, and
    any byte offset derived from the limit, falls at every position of a sequence over the runs). Every SGR that is
    opened is reset and every OSC 8 link closed before the end - possibly only at the very end of the line."""
    shape = shape or rng.choice(HEAVY_SHAPES)
    multiple = multiple or rng.choice([1, 2, 3, 4, 4, 5, 6, 8, 8, 12, 16, 33])
    target = multiple * (max_len + 1) + rng.randint(1, 48)
    items = []

    def size():
        return sum(len(s.encode()) for _, s in items)

    def text(t):
        if not t:
            return
        if items and items[-1][0] == "t":
            items[-1] = ("t", items[-1][1] + t)
        else:
            items.append(("t", t))

    def esc(s_):
        items.append(("e", s_))
    if shape == "rainbow":
        if rng.random() < 0.5:
            text(rng.choice(["== ", "log: ", "x"]))
        while size() < target:
            esc(_sgr_open(rng)); text(rng.choice(HEAVY_CHARS)); esc(_sgr_close(rng))
    elif shape == "tokens":
        while size() < target:
            esc(_sgr_open(rng)); text(rng.choice(HEAVY_WORDS)); esc(_sgr_close(rng)); text(" ")
    elif shape == "link":
        text(rng.choice(["see ", "", "at "]))
        while size() < target:
            url = "https://ci.example.org/builds/" + "artifact/" * rng.randint(1, max(2, target // 12)) + "log.txt"
            esc(ESC + "]8;;" + url + rng.choice([ESC + "\\", "\x07"]))
            if rng.random() < 0.6:
                esc(ESC + "[4m"); text(rng.choice(["the log", "x", "日本"])); esc(ESC + "[0m")
            else:
                text(rng.choice(["here", "l"]))
            esc(ESC + "]8;;" + rng.choice([ESC + "\\", "\x07"]))
            text(rng.choice([" ", ", ", " and "]))
    elif shape == "escape-tail":
        # the text fits the limit in columns; the bytes beyond it are sequences only
        w = rng.randint(0, max_len)
        text("".join(rng.choice("abcdefgh ") for _ in range(w)))
        while size() < target:
            esc(_sgr_open(rng))
            if rng.random() < 0.3:
                esc(ESC + "[K")
            esc(_sgr_close(rng))
    elif shape == "late-close":
        # opened early (rendition and link), closed only at the very end, escape-dense in between
        esc(_sgr_open(rng))
        link = rng.random() < 0.5
        if link:
            esc(ESC + "]8;;file:///tmp/x.rs" + ESC + "\\")
        text("".join(rng.choice("abcdefgh") for _ in range(rng.randint(0, max_len))))
        while size() < target:
            esc(ESC + "[%dm" % rng.choice([1, 3, 4, 7, 33, 45]))
            if rng.random() < 0.3:
                text(rng.choice(HEAVY_CHARS))
        if link:
            esc(ESC + "]8;;" + ESC + "\\")
        esc(ESC + "[0m")
    else:
        open_sgr = open_link = False
        while size() < target:
            k = rng.random()
            if k < 0.25:
                text(rng.choice(HEAVY_WORDS + [" "]))
            elif k < 0.7:
                if open_sgr and rng.random() < 0.5:
                    esc(_sgr_close(rng)); open_sgr = False
                else:
                    esc(_sgr_open(rng)); open_sgr = True
            elif k < 0.9:
                if open_link:
                    esc(ESC + "]8;;" + ESC + "\\"); open_link = False
                else:
                    esc(ESC + "]8;;http://example.com/" + "p/" * rng.randint(0, 30) + ESC + "\\"); open_link = True
            else:
                esc(ESC + rng.choice(["[K", "[0K"]))
        if open_link:
            esc(ESC + "]8;;" + ESC + "\\")
        if open_sgr:
            esc(ESC + "[0m")
    # split any item that holds two sequences (the closers above) into one item per sequence
    out = []
    for k, s_ in items:
        if k == "e" and s_.count(ESC + "[") + s_.count(ESC + "]") > 1:
            for part in re.findall("\x1b\\][^\x07\x1b]*(?:\x07|\x1b\\\\)|\x1b\\[[0-9;]*[A-Za-z]", s_):
                out.append(("e", part))
        else:
            out.append((k, s_))
    return out, shape


HEAVY_LIMITS = [1, 2, 3, 5, 8, 10, 20, 25, 40, 100]


def expected_raw(line, kind):
    """The documented behaviour, from the generator's own knowledge of the line's structure."""
    if kind in ("nothing", "seq", "zero"):
        i = line.rindex("\r")
        return line[:i] + line[i + 1:]
    return line


def will_truncate(max_len, raw):
    b = raw.encode()
    return max_len > 0 and len(b) > max_len and not b.startswith(b"@@") and not b.startswith(b"{")


def strip_py(b):
    return OSC.sub(b"", CSI.sub(b"", b))


def text_slices(el, sb):
    out = []
    if el.startswith("ok"):
        for e in el.split()[1:]:
            p = e.split(":")
            if p[0] == "T":
                out.append(sb[int(p[1]):int(p[2])])
    return out


def tables_for(hook, strings):
    """Unicode data (widths, grapheme clusters) of everything the model can ask about `strings`."""
    strings = [s for s in dict.fromkeys(strings)]
    el = hook.ask([f"ansi.elements {hx(s)}" for s in strings] + [f"ansi.strip {hx(s)}" for s in strings])
    texts = []
    for s, e in zip(strings, el[:len(strings)]):
        texts += text_slices(e, s)
    for r in el[len(strings):]:
        if r.startswith("ok"):
            texts.append(unhx(r[3:]) if len(r) > 3 else b"")
    texts = [t for t in dict.fromkeys(texts) if t]
    g = hook.ask([f"text.graphemes {hx(t)}" for t in texts]) if texts else []
    gt, clusters = {}, []
    for t, r in zip(texts, g):
        if r.startswith("ok"):
            gs = [unhx(x.split(":")[0]) for x in r.split()[1:]]
            gt[t] = gs
            clusters += gs
    keys = [k for k in dict.fromkeys(texts + clusters) if k]
    w = hook.ask([f"ansi.width {hx(k)}" for k in keys]) if keys else []
    wt = {k: int(r.split()[1]) for k, r in zip(keys, w) if r.startswith("ok ")}
    return wt, gt


def table_fields(wt, gt):
    wf = f"{len(wt)} " + " ".join(f"{hx(t)} {n}" for t, n in sorted(wt.items()))
    gf = f"{len(gt)} " + " ".join(f"{hx(t)} {len(gs)} " + " ".join(hx(x) for x in gs) for t, gs in sorted(gt.items()))
    return (wf.strip() + " " + gf.strip()).strip()


def hook_part(ctx, rep, report):
    rng = ctx.rng
    hook = ctx.hook()
    mdl = ctx.model("drv_ansi") if ctx.drivers_ok else None
    probe = hook.ask(["machine.ingest_cfg"])[0]
    if not probe.startswith("ok "):
        rep.count("ingest:hook-op-missing")
        rep.notes["ingest_hook"] = "machine.ingest not in the tree under test: binary oracle only"
        return
    for _ in range(ctx.n(8, 80)):
        max_len = rng.choice([0, 0, 3, 8, 20, 40, 512])
        cfg = ["--max-line-length", str(max_len)]   # the truncation symbol is fixed (reverse-video arrow)
        cfgline = "cfg " + " ".join(hx(a) for a in cfg)
        cases = [gen_case(rng) for _ in range(ctx.n(30, 120))]
        cases += [("ab\r" + ESC + "[m", "seq"), ("Fetching\r" + ESC + "[32mdone" + ESC + "[m", "visible"),
                  ("Compiling 1/3\r" + ESC + "[KCompiling 2/3", "visible")]
        if max_len > 0:
            for _ in range(ctx.n(6, 30)):
                hv, shape = gen_escape_heavy(rng, max_len)
                cases.append(("".join(x for _, x in hv), None))
                rep.count("ingest:escape-heavy:" + shape)
        ans = hook.ask([cfgline, "machine.ingest_cfg"] + [f"machine.ingest {hx(l)}" for l, _ in cases], sticky=[0])
        c = ans[1].split()
        ml, symb = int(c[1]), (unhx(c[2]) if len(c) > 2 else b"")
        impl = ans[2:]
        # what the model needs: the line, the line without its last CR, the tail, the symbol and its truncation
        tr = hook.ask([cfgline, f"ansi.truncate {hx(symb)} {ml} x 1"], sticky=[0])[1]
        symt = unhx(tr[3:]) if tr.startswith("ok x") else b""
        strings = [symb, symt]
        for l, _ in cases:
            b = l.encode()
            strings.append(b)
            if b"\r" in b:
                i = b.rindex(b"\r")
                strings += [b[i + 1:], b[:i] + b[i + 1:]]
        wt, gt = tables_for(hook, strings)
        tf = table_fields(wt, gt)
        model = mdl.ask([f"ingest.line {ml} {hx(symb)} {hx(l)} {tf}" for l, _ in cases]) if mdl else [None] * len(cases)
        for (l, kind), i, m in zip(cases, impl, model):
            rep.case(key=("ingest", ml, symb, l), nontrivial=kind is not None or will_truncate(ml, l),
                     sample=dict(op="machine.ingest", max_line_length=ml, line=l, impl=i))
            rep.count("ingest:tail=" + str(kind))
            if m is not None:
                agree = (i == m) or (i.startswith("PANIC") and m.startswith("PANIC"))
                rep.corr_case("machine.ingest", agree, dict(max_line_length=ml, symbol=symb.decode("utf-8", "replace"), line=l, impl=i, model=m))
            if not i.startswith("ok"):
                report(rep, "ingest:panic", "ingest_line panicked", dict(kind="ingest-hook", cfg=cfg, line=l, got=i))
                continue
            f = i.split()[1:]
            raw_line, line = unhx(f[0]), unhx(f[1])
            want = expected_raw(l, kind).encode()
            if will_truncate(ml, want.decode()):
                rep.count("ingest:truncated")
                continue
            if raw_line != want:
                sig = "ingest:cr-removed-before-visible-text" if kind == "visible" else \
                      "ingest:crlf-remnant-kept" if kind in ("nothing", "seq", "zero") else "ingest:line-altered"
                report(rep, sig, "raw_line is not the input line (minus the \\r of a CRLF remnant)",
                       dict(kind="ingest-hook", cfg=cfg, line=l, got=raw_line.decode("utf-8", "replace"), want=want.decode("utf-8", "replace")))
            elif line != strip_py(want):
                report(rep, "ingest:line-not-stripped", "line is not the raw line without its escape sequences",
                       dict(kind="ingest-hook", cfg=cfg, line=l, got=line.decode("utf-8", "replace")))
    invalid_hook_part(ctx, rep, report, hook, mdl)


# ------------------------------------------------------------------ invalid UTF-8

INVALID = [b"\xff", b"\x80", b"\xbf\x80", b"\xe6\x97", b"\xf0\x9f\x99", b"\xc3", b"\xed\xa0\x80", b"\xc0\xaf", b"\xfe\xfe"]
PIECES = [b"a", b"bc", b" ", "é".encode(), "日本".encode(), b"x=1;", b"word"]
WRAPS = [(b"", b""), (b"\x1b[31m", b"\x1b[m"), (b"\x1b[1;32m", b"\x1b[0m"), (b"\x1b]8;;file:///x\x1b\\", b"\x1b]8;;\x1b\\"),
         (b"\x1b[38;5;208m", b"\x1b[39m\x1b[m")]


def gen_invalid_line(rng):
    """A line that is not valid UTF-8: text pieces with invalid byte sequences between them, optionally
    wrapped in SGR / OSC 8 sequences. No `\r`."""
    open_, close = rng.choice(WRAPS)
    parts = []
    for _ in range(rng.randint(1, 6)):
        parts.append(rng.choice(PIECES))
        if rng.random() < 0.6:
            parts.append(rng.choice(INVALID))
    body = b"".join(parts)
    if not any(p in INVALID for p in parts):
        body += rng.choice(INVALID)
    return rng.choice([b"", b"log: "]) + open_ + body + close


def lossy(b):
    """`String::from_utf8_lossy` as the harness understands it (U+FFFD per maximal invalid sequence)."""
    return b.decode("utf-8", "replace").encode("utf-8")


def ends_default(b):
    """After the last SGR sequence of the line the rendition is the default one, and no OSC 8 link is open."""
    styled = False
    for m in re.finditer(rb"\x1b\[([0-9;:]*)m", b):
        p = m.group(1)
        styled = not (p in (b"", b"0") or p.endswith(b";0"))
        if p in (b"39", b"49") and not styled:
            styled = False
    link = False
    for m in OSC.finditer(b):
        body = m.group(0)
        if body.startswith(b"\x1b]8;"):
            link = not re.match(rb"\x1b\]8;[^;]*;(\x07|\x1b\\)", body)
    return not styled and not link


def check_invalid(rep, report, where, max_len, raw, raw_line, line, case):
    """Direct oracle for a line with invalid UTF-8: nothing is lost at limit 0 (or when it fits); when cut, the
    truncation mark is shown, the kept text is a prefix of the text, and the line ends in the default rendition."""
    want = lossy(raw)
    text = strip_py(want)
    if raw_line == want:
        pass        # kept whole (the byte length may exceed the limit while the display width does not)
    elif max_len == 0 or len(want) <= max_len:
        if raw_line != want:
            report(rep, "ingest:invalid-utf8:text-lost" + where, "a line with invalid UTF-8 is not ingested as its lossy conversion",
                   dict(case, kind="ingest-invalid" + where, got=repr(raw_line), want=repr(want)))
            return
    else:
        vis = strip_py(raw_line)
        arrow = "→".encode()
        if arrow not in vis:
            report(rep, "ingest:invalid-utf8:cut-without-mark" + where, "an over-long line with invalid UTF-8 is cut without the truncation symbol",
                   dict(case, kind="ingest-invalid" + where, got=repr(raw_line)))
            return
        kept = vis[:vis.rindex(arrow)].rstrip(b" ")
        if not text.startswith(kept):
            report(rep, "ingest:invalid-utf8:text-altered" + where, "the kept part of a truncated line is not a prefix of its text",
                   dict(case, kind="ingest-invalid" + where, got=repr(raw_line), text=repr(text)))
            return
    if ends_default(want) and not ends_default(raw_line):
        report(rep, "ingest:invalid-utf8:unbalanced" + where, "an ingested line leaves a rendition / link open that the input closed",
               dict(case, kind="ingest-invalid" + where, got=repr(raw_line)))
        return
    if line is not None and line != strip_py(raw_line):
        report(rep, "ingest:invalid-utf8:line-not-stripped" + where, "line is not raw_line without its escape sequences",
               dict(case, kind="ingest-invalid" + where, got=repr(line)))


def invalid_hook_part(ctx, rep, report, hook, mdl):
    rng = ctx.rng
    for max_len in (0, 5, 12, 40):
        cfgline = "cfg " + " ".join(hx(a) for a in ["--max-line-length", str(max_len)])
        raws = [gen_invalid_line(rng) for _ in range(ctx.n(25, 200))] + [b"a\xffb", b"\x1b[31ma\xffb\x1b[m", b"\xff" * 9]
        ans = hook.ask([cfgline, "machine.ingest_cfg"] + ["machine.ingest x" + r.hex() for r in raws], sticky=[0])
        c = ans[1].split()
        ml, symb = int(c[1]), (unhx(c[2]) if len(c) > 2 else b"")
        tr = hook.ask([cfgline, f"ansi.truncate {hx(symb)} {ml} x 1"], sticky=[0])[1]
        symt = unhx(tr[3:]) if tr.startswith("ok x") else b""
        wt, gt = tables_for(hook, [symb, symt] + [lossy(r) for r in raws])
        tf = table_fields(wt, gt)
        model = mdl.ask([f"ingest.lossy {ml} {hx(symb)} {hx(lossy(r))} {tf}" for r in raws]) if mdl else [None] * len(raws)
        for r, i, m in zip(raws, ans[2:], model):
            rep.case(key=("ingest-invalid", ml, r), nontrivial=True,
                     sample=dict(op="machine.ingest (invalid UTF-8)", max_line_length=ml, line=repr(r), impl=i))
            rep.count("ingest:invalid:max=%d" % ml)
            if m is not None:
                rep.corr_case("machine.ingest(invalid)", i == m or (i.startswith("PANIC") and m.startswith("PANIC")),
                              dict(max_line_length=ml, line=repr(r), impl=i, model=m))
            if not i.startswith("ok"):
                report(rep, "ingest:panic", "ingest_line panicked", dict(kind="ingest-invalid:hook", max_len=ml, raw=r.hex(), got=i))
                continue
            f = i.split()
            check_invalid(rep, report, ":hook", ml, r, unhx(f[1]), unhx(f[2]), dict(max_len=ml, raw=r.hex()))


def invalid_binary_case(ctx, rep, report, case):
    max_len = case["max_len"]
    raws = [bytes.fromhex(x) for x in case["raws"]]
    rc, out, err = ctx.run_delta(["--no-gitconfig", "--max-line-length", str(max_len)], b"\n".join(raws) + b"\n")
    rep.case(key=("ingest-invalid-bin", max_len, tuple(case["raws"])), nontrivial=True,
             sample=dict(op="binary pass-through (invalid UTF-8)", max_line_length=max_len, first=repr(raws[0])))
    rep.count("ingest:invalid:binary")
    if rc != 0:
        report(rep, "ingest:exit-status", f"delta exit status {rc}", dict(kind="ingest-invalid:binary", **case))
        return
    got = out.split(b"\n")
    for n, r in enumerate(raws):
        g = got[n] if n < len(got) else b""
        check_invalid(rep, report, ":binary", max_len, r, g, None, dict(case, row=n))


def binary_case(ctx, rep, report, case):
    """Pass-through text through the real binary: every line comes out as expected_raw says."""
    cases, max_len = case["lines"], case["max_len"]
    data = ("\n".join(l for l, _ in cases) + "\n").encode()
    args = ["--no-gitconfig"] + (["--max-line-length", str(max_len)] if max_len is not None else [])
    rc, out, err = ctx.run_delta(args, data)
    ml = 3000 if max_len is None else max_len
    rep.case(key=("ingest-bin", max_len, tuple(l for l, _ in cases)), nontrivial=any(k for _, k in cases),
             sample=dict(op="binary pass-through (ingest)", max_line_length=max_len, lines=[l for l, _ in cases][:4]))
    rep.count("ingest:binary")
    if rc != 0:
        report(rep, "ingest:exit-status", f"delta exit status {rc}", dict(kind="ingest-binary", case=case))
        return
    got = out.split(b"\n")
    for n, (l, kind) in enumerate(cases):
        if l.endswith("\r"):
            want = l[:-1].encode()          # the line reader already takes a trailing CR with the newline
        else:
            want = expected_raw(l, kind).encode()
        if will_truncate(ml, want.decode()):
            continue
        g = got[n] if n < len(got) else None
        if g != want:
            sig = "ingest:cr-removed-before-visible-text" if kind == "visible" else \
                  "ingest:crlf-remnant-kept" if kind in ("seq", "zero") else "ingest:line-altered"
            report(rep, sig + ":binary", "a pass-through line is not emitted byte for byte (minus the \\r of a CRLF remnant)",
                   dict(kind="ingest-binary", row=n, line=l, got=repr(g), want=repr(want), case=case))
            return


def ingest_check(ctx, rep, report=None):
    if report is None:
        seen = {}

        def report(rep, signature, what, replay):
            n = seen.get(signature, 0)
            seen[signature] = n + 1
            if n < 3:
                rep.violation(signature, what, replay)
    hook_part(ctx, rep, report)
    rng = ctx.rng
    cases = []
    for _ in range(ctx.n(30, 600)):
        lines = []
        for _ in range(rng.randint(2, 8)):
            l, kind = gen_case(rng)
            # keep the stream free of construct openers: pass-through text only
            if not l.startswith(("@@", "{")):
                l = "log: " + l
            lines.append((l, kind))
        if rng.random() < 0.3:
            lines += [("Compiling 1/3\r" + ESC + "[KCompiling 2/3\r" + ESC + "[KCompiling 3/3", "visible"),
                      ("Fetching\r" + ESC + "[32mdone" + ESC + "[m", "visible")]
        lines = [(l, k) for l, k in lines if not l.startswith(("@@", "{"))]
        cases.append(dict(lines=lines, max_len=rng.choice([None, None, 0, 30, 200])))
    import threading
    lock = threading.Lock()

    class Shim:
        def __getattr__(self, name):
            f = getattr(rep, name)
            def g(*a, **k):
                with lock:
                    return f(*a, **k)
            return g
    shim = Shim()
    parallel_map(lambda c: binary_case(ctx, shim, report, c), cases)
    icases = [dict(max_len=ml, raws=[gen_invalid_line(rng).hex() for _ in range(rng.randint(2, 6))] + [b"a\xffb".hex()])
              for ml in (0, 5, 12, 40) for _ in range(ctx.n(6, 80))]
    parallel_map(lambda c: invalid_binary_case(ctx, shim, report, c), icases)


def ingest_replay(ctx, rep, case):
    """Replay of a violation recorded by this module (`kind` = ingest-binary / ingest-hook)."""
    def report(rep, signature, what, replay):
        rep.violation(signature, what, replay)
    if str(case.get("kind", "")).startswith("ingest-invalid"):
        if "raws" in case:
            invalid_binary_case(ctx, rep, report, dict(max_len=case["max_len"], raws=case["raws"]))
        else:
            ingest_check(ctx, rep)
        return
    if case.get("kind") == "ingest-binary":
        c = case["case"]
        binary_case(ctx, rep, report, dict(lines=[tuple(x) for x in c["lines"]], max_len=c["max_len"]))
    else:
        ingest_check(ctx, rep)
