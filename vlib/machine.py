"""Shared harness for the line-state-machine properties (C01 C02 C04 C10 C11 C14).

* a structured diff generator (`gen_diff`) that knows, for everything it emits, what the
  property expects to see (`Expect` records);
* verification configurations: the model `Cfg` <-> delta command-line arguments with a
  reserved colour per element type (the verification palette of DESIGN.md 3.4);
* `observe(...)`: the same lines to the hooked implementation (`machine.run`, in-process,
  observed after every line) and to the Lean model driver (`drv_machine`);
* decoding of the implementation's output into rows `(kind, visible text)`.
"""
import re

from .core import hx, unhx, unhxs

# ------------------------------------------------------------------ palette

PAL = {
    "commit": "#010101", "file": "#020202", "hunkHeader": "#030303", "minus": "#040404",
    "zero": "#050505", "plus": "#060606", "deco": "#070707", "mcHeader": "#080808",
}
RGB2KIND = {(1, 1, 1): "commit", (2, 2, 2): "file", (3, 3, 3): "hunkHeader", (3, 3, 4): "hunkHeader",
            (3, 3, 5): "hunkHeader", (4, 4, 4): "minus", (5, 5, 5): "zero", (6, 6, 6): "plus",
            (7, 7, 7): "deco", (8, 8, 8): "mcHeader"}

DECOS = ["none", "box", "box ul", "ul", "ol", "ul ol"]   # index = model Deco code

SGR_RE = re.compile(rb"\x1b\[([0-9;]*)m")
ANSI_RE = re.compile(rb"\x1b\[[0-9;?]*[ -/]*[@-~]|\x1b\]8;[^\x1b\x07]*(?:\x1b\\|\x07)")


def strip_ansi(b):
    return ANSI_RE.sub(b"", b)


def classify_row(line):
    """kind of an output row by the first reserved colour it carries"""
    for m in SGR_RE.finditer(line):
        ps = m.group(1).split(b";")
        for i in range(len(ps) - 4):
            if ps[i] == b"38" and ps[i + 1] == b"2":
                rgb = tuple(int(x or 0) for x in ps[i + 2:i + 5])
                if rgb in RGB2KIND:
                    return RGB2KIND[rgb]
    return "blank" if strip_ansi(line) == b"" else "raw"


BOX = "│┃"
BOXCHARS = "─━┐┘┓┛│┃┴┻"


def canon_text(kind, text):
    t = text.rstrip(" ")
    if kind in ("file", "commit", "hunkHeader", "mcHeader") and t and t[-1] in BOX:
        t = t[:-1].rstrip(" ")
    return t


def decode_output(out):
    """impl output bytes -> list of (kind, canonical visible text)"""
    rows = []
    lines = out.split(b"\n")
    if lines and lines[-1] == b"":
        lines.pop()
    for ln in lines:
        k = classify_row(ln)
        vis = strip_ansi(ln).decode("utf-8", "replace")
        if k == "deco" and vis.strip(BOXCHARS + " ") != "":
            # raw-styled header text followed by the box's vertical bar in the decoration colour
            k = "raw"
            vis = vis.rstrip(" ")
            if vis and vis[-1] in BOX:
                vis = vis[:-1]
        if k == "deco":
            rows.append(("deco", ""))
        else:
            t = canon_text(k, vis)
            if t == "" and k in ("zero", "minus", "plus") and vis == "":
                k = "blank"      # an empty painted prefix (combined diff) leaves only escape sequences
            rows.append((k, t))
    return rows


# ------------------------------------------------------------------ configurations

class VCfg:
    """A verification configuration: fields of the Lean `Machine.Cfg`."""
    FIELDS = dict(colorOnly=0, commitRaw=0, commitOmit=0, commitDeco=0, fileRaw=0, fileOmit=0, fileDeco=0,
                  hhRaw=0, hhOmit=0, hhDeco=0, keepMarkers=0, tab=8, bufSize=32, mergeConflicts=1,
                  hhFile=0, hhLineNumber=1, hhFragment=1, hunkLabel="", lblModified="", lblAdded="added:",
                  lblRemoved="removed:", lblRenamed="renamed:", lblCopied="copied:", rightArrow="⟶  ")

    def __init__(self, **kw):
        self.d = dict(self.FIELDS)
        self.d.update(kw)

    def key(self):
        return tuple(sorted(self.d.items()))

    def model_field(self):
        parts = []
        for k, v in self.d.items():
            parts.append(f"{k}={hx(v) if isinstance(v, str) else int(v)}")
        return ",".join(parts)

    def style(self, base, raw, omit, extra=""):
        if raw:
            return "raw"
        if omit:
            return "omit"
        return (PAL[base] + " " + extra).strip()

    def args(self):
        d = self.d
        hh_extra = " ".join(x for x, on in (("file", d["hhFile"]), ("line-number", d["hhLineNumber"]),
                                            ("omit-code-fragment", not d["hhFragment"])) if on)
        a = []
        if d["colorOnly"]:
            a.append("--color-only")
        a += [
            "--syntax-theme", "none", "--width", "80", "--paging", "never", "--true-color", "always",
            "--commit-style", self.style("commit", d["commitRaw"], d["commitOmit"]),
            "--file-style", self.style("file", d["fileRaw"], d["fileOmit"]),
            "--hunk-header-style", self.style("hunkHeader", d["hhRaw"], d["hhOmit"], hh_extra),
            "--hunk-header-file-style", "#030304", "--hunk-header-line-number-style", "#030305",
            "--minus-style", PAL["minus"], "--minus-emph-style", PAL["minus"], "--minus-non-emph-style", PAL["minus"],
            "--minus-empty-line-marker-style", PAL["minus"],
            "--zero-style", PAL["zero"],
            "--plus-style", PAL["plus"], "--plus-emph-style", PAL["plus"], "--plus-non-emph-style", PAL["plus"],
            "--plus-empty-line-marker-style", PAL["plus"], "--whitespace-error-style", PAL["plus"],
            "--merge-conflict-ours-diff-header-style", PAL["mcHeader"],
            "--merge-conflict-theirs-diff-header-style", PAL["mcHeader"],
            "--merge-conflict-ours-diff-header-decoration-style", PAL["deco"] + " box",
            "--merge-conflict-theirs-diff-header-decoration-style", PAL["deco"] + " box",
            "--tabs", str(d["tab"]), "--line-buffer-size", str(d["bufSize"]),
            "--hunk-label", d["hunkLabel"], "--file-modified-label", d["lblModified"],
            "--file-added-label", d["lblAdded"], "--file-removed-label", d["lblRemoved"],
            "--file-renamed-label", d["lblRenamed"], "--file-copied-label", d["lblCopied"],
            "--right-arrow", d["rightArrow"],
        ]
        if not d["colorOnly"]:
            for name, key in (("commit", "commitDeco"), ("file", "fileDeco"), ("hunk-header", "hhDeco")):
                deco = DECOS[d[key]]
                a += [f"--{name}-decoration-style", "none" if deco == "none" else PAL["deco"] + " " + deco]
        if d["keepMarkers"]:
            a.append("--keep-plus-minus-markers")
        # `--opt=value` form throughout: values such as `->` must not be taken for flags
        out, i = [], 0
        while i < len(a):
            if a[i].startswith("--") and i + 1 < len(a) and not (a[i + 1].startswith("--") and a[i + 1][2:3].isalpha()) \
                    and a[i] not in ("--color-only", "--keep-plus-minus-markers"):
                out.append(a[i] + "=" + a[i + 1]); i += 2
            else:
                out.append(a[i]); i += 1
        return out


def gen_cfg(rng, color_only=None):
    co = rng.random() < 0.25 if color_only is None else color_only
    d = dict(colorOnly=int(co))
    # --color-only enables the built-in feature that keeps the markers (a bool flag cannot be unset)
    d["keepMarkers"] = 1 if co else int(rng.random() < 0.3)
    d["tab"] = rng.choice([0, 1, 2, 4, 8, 8])
    d["bufSize"] = rng.choice([0, 1, 2, 4, 32, 32])
    d["mergeConflicts"] = 1
    for p in ("commit", "file", "hh"):
        r = rng.random()
        if r < 0.12:
            d[p + "Raw"] = 1
        elif r < 0.22:
            d[p + "Omit"] = 1
        if not co:
            d[p + "Deco"] = rng.choice([0, 0, 1, 2, 3, 4, 5])
    d["hhFile"] = int(rng.random() < 0.4)
    d["hhLineNumber"] = int(rng.random() < 0.7)
    if rng.random() < 0.3:
        d["hunkLabel"] = rng.choice(["@", "hunk", "§"])
    if rng.random() < 0.3:
        d["lblModified"] = rng.choice(["Δ", "modified:", "M"])
    if rng.random() < 0.2:
        d["rightArrow"] = rng.choice(["->", "=>", "→"])
    return VCfg(**d)


# ------------------------------------------------------------------ diff generator

BODIES = ["", "x", "foo bar", "\tindented", "a\tb", "-- sql comment", "++ inc", "@@ not a header @@", "- item",
          "+ item", "\\ backslash", "diff --git a/q b/q", "commit 1234567", "日本語 テキスト", "é", "ñandú  ", " ",
          "Binary files a and b differ", "rename from x", "new file mode 100644", "index 0000..1111",
          "<<<<<<< HEAD", "=======", ">>>>>>> other", "Subproject commit abc", "let x = 1;", "}", "{", "  return 0;",
          "--- a/old", "+++ b/new", "old mode 100644", "Submodule x 1..2:", "Only in a: b", "# comment",
          "a" * 70, "😀 emoji", "é combining", "​ zero width",
          # text that starts with a character extending the previous grapheme cluster: with the marker column in front,
          # the first cluster of the line is marker + this character (prefix removal must still cut after the marker)
          "\u0301 leading combining acute", "\u200dleading zwj", "\ufe0f leading vs16", "\U0001f3fd leading skin tone",
          "\u093e leading spacing mark"]

PATHS = ["src/main.rs", "a b/with space.txt", "Makefile", "dir/ünïcode.py", "x", "a/b/c/d.e", "w/o/i.c",
         "日本/ファイル.txt", "foo-bar_baz.1.txt", "i/x.rs"]

HASH = "0123456789abcdef0123456789abcdef01234567"


class Expect:
    """What the generator promises about the lines it emitted."""

    def __init__(self):
        self.files = []      # dict(kind, old, new, hunks=[dict(header, frag, lines=[(kind, body)])], header_expected)
        self.passthrough = []  # (line index, bytes) of lines that must pass through unchanged


def gen_hunk(rng, max_lines=8, start=None):
    n = rng.randint(1, max_lines)
    lines = []
    # runs of kinds so that subhunks of several shapes occur
    while len(lines) < n:
        k = rng.choice("  -+-+")
        for _ in range(rng.randint(1, 3)):
            lines.append((k, rng.choice(BODIES)))
    lines = lines[:n]
    a = start if start is not None else rng.choice([1, 1, 7, 100, 99999])
    c = a + rng.randint(0, 3)
    nm = sum(1 for k, _ in lines if k in " -")
    np_ = sum(1 for k, _ in lines if k in " +")
    frag = rng.choice(["", " fn main() {", " class X:", " @@ weird", " \tdef f():"])
    om = rng.random() < 0.2
    header = "@@ -%d%s +%d%s @@%s" % (a, "" if (om and nm == 1) else ",%d" % nm, c, "" if (om and np_ == 1) else ",%d" % np_, frag)
    return dict(header=header, frag=frag, old=(a, nm), new=(c, np_), lines=lines)


FILE_KINDS = ["modified", "added", "deleted", "renamed", "renamed_changed", "copied", "mode_only", "mode_changed",
              "binary", "binary_added", "submodule", "empty_added", "binary_noindex", "submodule_added", "submodule_deleted",
              "renamed_binary_changed", "copied_binary_changed"]
# further section shapes `gen_file` knows, not drawn by default (a check that wants them passes `kind=`)
EXTRA_FILE_KINDS = ["binary_deleted", "binary_mode_changed", "submodule_log"]
# the sections whose file header delta writes late: they have no line naming their files, the header is written when the
# next section begins (`diff` line, `commit` line, `Submodule …` line) or at the end of the input
LATE_HEADER_KINDS = ["mode_only", "empty_added", "binary", "binary_added", "binary_deleted", "binary_mode_changed"]
LOG_SUBJECTS = ["Fix the thing", "Ünïcode subject", "subject mentioning diff --git a/x b/x", "WIP", "--- not a header", "+++ b/x", "@@ -1 +1 @@"]


def tabbed(name):
    """git appends a TAB to the names in `--- `/`+++ ` lines when they contain a space"""
    return name + "\t" if " " in name else name


def gen_file(rng, kind=None, prefixes=("a/", "b/"), ending=None, paths=None):
    kind = kind or rng.choice(FILE_KINDS)
    paths = paths or PATHS
    if prefixes == ("", ""):
        # diff.noprefix: a first path component that looks like a mnemonic prefix is inherently ambiguous
        paths = [p for p in PATHS if not re.match(r"[abciow]/", p)]
    p1 = rng.choice(paths)
    p2 = rng.choice([p for p in paths if p != p1])
    a, b = prefixes
    f = dict(kind=kind, old=p1, new=p1, hunks=[], lines=[])
    L = f["lines"]

    def hunks(nmin=1):
        for _ in range(rng.randint(nmin, 3)):
            h = gen_hunk(rng)
            f["hunks"].append(h)
    if kind == "modified":
        L += [f"diff --git {a}{p1} {b}{p1}", "index 1111111..2222222 100644", tabbed(f"--- {a}{p1}"), tabbed(f"+++ {b}{p1}")]
        hunks()
    elif kind == "added":
        f["old"] = "/dev/null"
        L += [f"diff --git {a}{p1} {b}{p1}", "new file mode 100644", "index 0000000..2222222", "--- /dev/null", tabbed(f"+++ {b}{p1}")]
        h = gen_hunk(rng)
        h["lines"] = [("+", body) for _, body in h["lines"]]
        h["header"] = "@@ -0,0 +1,%d @@" % len(h["lines"]); h["frag"] = ""; h["old"] = (0, 0); h["new"] = (1, len(h["lines"]))
        f["hunks"].append(h)
    elif kind == "deleted":
        f["new"] = "/dev/null"
        L += [f"diff --git {a}{p1} {b}{p1}", "deleted file mode 100644", "index 1111111..0000000", tabbed(f"--- {a}{p1}"), "+++ /dev/null"]
        h = gen_hunk(rng)
        h["lines"] = [("-", body) for _, body in h["lines"]]
        h["header"] = "@@ -1,%d +0,0 @@" % len(h["lines"]); h["frag"] = ""; h["old"] = (1, len(h["lines"])); h["new"] = (0, 0)
        f["hunks"].append(h)
    elif kind == "renamed":
        f["new"] = p2
        L += [f"diff --git {a}{p1} {b}{p2}", "similarity index 100%", f"rename from {p1}", f"rename to {p2}"]
    elif kind == "renamed_changed":
        f["new"] = p2
        L += [f"diff --git {a}{p1} {b}{p2}", "similarity index 90%", f"rename from {p1}", f"rename to {p2}",
              "index 1111111..2222222 100644", tabbed(f"--- {a}{p1}"), tabbed(f"+++ {b}{p2}")]
        hunks()
    elif kind == "copied":
        f["new"] = p2
        L += [f"diff --git {a}{p1} {b}{p2}", "similarity index 100%", f"copy from {p1}", f"copy to {p2}"]
    elif kind == "mode_only":
        f["mode"] = rng.choice([("100644", "100755"), ("100755", "100644"), ("100644", "120000")])
        L += [f"diff --git {a}{p1} {b}{p1}", f"old mode {f['mode'][0]}", f"new mode {f['mode'][1]}"]
    elif kind == "mode_changed":
        f["mode"] = rng.choice([("100644", "100755"), ("100755", "100644")])
        L += [f"diff --git {a}{p1} {b}{p1}", f"old mode {f['mode'][0]}", f"new mode {f['mode'][1]}",
              "index 1111111..2222222", tabbed(f"--- {a}{p1}"), tabbed(f"+++ {b}{p1}")]
        hunks()
    elif kind == "binary":
        L += [f"diff --git {a}{p1} {b}{p1}", "index 1111111..2222222 100644", f"Binary files {a}{p1} and {b}{p1} differ"]
    elif kind == "binary_added":
        f["old"] = "/dev/null"
        L += [f"diff --git {a}{p1} {b}{p1}", "new file mode 100644", "index 0000000..2222222", f"Binary files /dev/null and {b}{p1} differ"]
    elif kind == "binary_noindex":
        # `git diff --no-index old new`: the two paths differ, there are no ---/+++ lines: the names of the previous
        # section must not survive (delta shows the `Binary files` line itself)
        f["new"] = p2
        L += [f"diff --git {a}{p1} {b}{p2}", "index 1111111..2222222 100644", f"Binary files {a}{p1} and {b}{p2} differ"]
    elif kind in ("renamed_binary_changed", "copied_binary_changed"):
        # a binary file renamed (copied) AND modified (similarity < 100%): the rename lines name the two files (delta writes
        # the header there), then an index line and a `Binary files` line instead of ---/+++ and hunks
        f["new"] = p2
        op = "rename" if kind == "renamed_binary_changed" else "copy"
        L += [f"diff --git {a}{p1} {b}{p2}", "similarity index %d%%" % rng.choice([50, 81, 99]), f"{op} from {p1}", f"{op} to {p2}",
              "index 1111111..2222222 100644", f"Binary files {a}{p1} and {b}{p2} differ"]
    elif kind == "binary_deleted":
        f["new"] = "/dev/null"
        L += [f"diff --git {a}{p1} {b}{p1}", "deleted file mode 100644", "index 1111111..0000000", f"Binary files {a}{p1} and /dev/null differ"]
    elif kind == "binary_mode_changed":
        f["mode"] = rng.choice([("100644", "100755"), ("100755", "100644")])
        L += [f"diff --git {a}{p1} {b}{p1}", f"old mode {f['mode'][0]}", f"new mode {f['mode'][1]}",
              "index 1111111..2222222", f"Binary files {a}{p1} and {b}{p1} differ"]
    elif kind == "submodule":
        L += [f"diff --git {a}{p1} {b}{p1}", "index 1111111..2222222 160000", f"--- {a}{p1}", f"+++ {b}{p1}",
              "@@ -1 +1 @@", "-Subproject commit " + HASH, "+Subproject commit " + HASH[::-1]]
        f["submodule"] = True
    elif kind == "submodule_added":
        # a new submodule under diff.submodule=short: one hunk holding only `+Subproject commit <sha>`
        f["old"] = "/dev/null"
        L += [f"diff --git {a}{p1} {b}{p1}", "new file mode 160000", "index 0000000..2222222", "--- /dev/null", f"+++ {b}{p1}"]
        f["hunks"].append(dict(header="@@ -0,0 +1 @@", frag="", old=(0, 0), new=(1, 1), lines=[("+", "Subproject commit " + HASH)]))
    elif kind == "submodule_deleted":
        # a removed submodule: the `-Subproject commit` line has no `+` line to be paired with
        f["new"] = "/dev/null"
        L += [f"diff --git {a}{p1} {b}{p1}", "deleted file mode 160000", "index 1111111..0000000", f"--- {a}{p1}", "+++ /dev/null"]
        f["hunks"].append(dict(header="@@ -1 +0,0 @@", frag="", old=(1, 1), new=(0, 0), lines=[("-", "Subproject commit " + HASH)]))
    elif kind == "empty_added":
        f["old"] = "/dev/null"
        L += [f"diff --git {a}{p1} {b}{p1}", "new file mode 100644", "index 0000000..e69de29"]
    elif kind == "submodule_log":
        # `git diff --submodule=log` (diff.submodule=log): no `diff --git` line; the section is the `Submodule <path> <range>:`
        # line - delta shows it as a file header of its own - and the subjects of the commits (`  > …` added, `  < …` removed)
        form = rng.choice(["log", "log", "log", "rewind", "untracked", "modified"])
        if form in ("log", "rewind"):
            head = f"Submodule {p1} {HASH[:7]}{'...' if form == 'rewind' else '..'}{HASH[7:14]}{' (rewind)' if form == 'rewind' else ''}:"
            msgs = [("  < " if form == "rewind" else rng.choice(["  > ", "  > ", "  < "])) + rng.choice(LOG_SUBJECTS)
                    for _ in range(rng.randint(0, 3))]
        else:
            head, msgs = f"Submodule {p1} contains {form} content", []
        f["log_header"] = head
        L += [head] + msgs
    for h in f["hunks"]:
        if ending and h is f["hunks"][-1]:
            # force the last line kind of the section
            h["lines"][-1] = (ending, h["lines"][-1][1])
            nm = sum(1 for k, _ in h["lines"] if k in " -"); np_ = sum(1 for k, _ in h["lines"] if k in " +")
            h["header"] = "@@ -%d,%d +%d,%d @@%s" % (h["old"][0], nm, h["new"][0], np_, h["frag"])
            h["old"] = (h["old"][0], nm); h["new"] = (h["new"][0], np_)
        L.append(h["header"])
        for k, body in h["lines"]:
            L.append(k + body)
    return f


def gen_commit(rng):
    return ["commit " + HASH, "Author: A U Thor <a@example.com>", "Date:   Mon Jan 1 00:00:00 2024 +0000", "",
            "    " + rng.choice(["Fix the thing", "Ünïcode subject", "commit message mentioning diff --git", "WIP"]), ""]


def gen_git_diff(rng, nfiles=None, with_commit=None, kinds=None):
    """Returns (lines: list[str], files: list[dict]) for a `git diff` / `git show` style input."""
    lines, files = [], []
    if with_commit if with_commit is not None else rng.random() < 0.4:
        lines += gen_commit(rng)
    prefixes = rng.choice([("a/", "b/")] * 4 + [("i/", "w/"), ("c/", "w/"), ("o/", "w/"), ("", "")])
    for i in range(nfiles or rng.randint(1, 4)):
        if i and rng.random() < 0.15:          # `git log -p`: the next commit starts here
            lines += gen_commit(rng)
        f = gen_file(rng, kind=(kinds[i] if kinds else None), prefixes=prefixes)
        f["first_line"] = len(lines)
        lines += f["lines"]
        files.append(f)
    return lines, files


def gen_plain_diff(rng, nfiles=None):
    """`diff -u a b` (optionally with the `diff -u` command line, as diff -ru prints)."""
    lines, files = [], []
    with_cmd = rng.random() < 0.5
    for _ in range(nfiles or rng.randint(1, 3)):
        p1 = rng.choice(PATHS); p2 = rng.choice(PATHS)
        f = dict(kind="plain", old="x/" + p1, new="y/" + p2, hunks=[], lines=[], first_line=len(lines))
        if with_cmd:
            f["lines"].append(f"diff -u x/{p1} y/{p2}")
        f["lines"] += [f"--- x/{p1}\t2024-01-01 00:00:00.000000000 +0000", f"+++ y/{p2}\t2024-01-02 00:00:00.000000000 +0000"]
        for _ in range(rng.randint(1, 3)):
            h = gen_hunk(rng)
            f["hunks"].append(h)
            f["lines"].append(h["header"])
            f["lines"] += [k + b for k, b in h["lines"]]
        lines += f["lines"]
        files.append(f)
    return lines, files


def gen_combined_diff(rng, conflict=None):
    """`git diff` during a merge: combined diff with two parents, optionally a conflict region."""
    p = rng.choice(PATHS)
    start = rng.choice([1, 1, 7, 50, 1200])
    frag = rng.choice(["", "", " fn main() {", " class Foo:", " impl Bar for Baz {"])
    lines = [f"diff --cc {p}", "index 1111111,2222222..0000000", f"--- a/{p}", f"+++ b/{p}",
             f"@@@ -{start},5 -{start},5 +{start},9 @@@{frag}"]
    body = lambda: rng.choice([b for b in BODIES if not b.startswith(("<<<", "===", ">>>"))])
    hl = []
    has_conflict = conflict if conflict is not None else rng.random() < 0.7
    # a conflict at the top of a file makes the region the first thing in its hunk (no line before it)
    for _ in range(rng.randint(0 if has_conflict and rng.random() < 0.3 else 1, 3)):
        hl.append((rng.choice(["  ", "  ", "+ ", " +", "- ", " -", "++", "--"]), body()))
    def gen_region():
        ours = [body() for _ in range(rng.randint(0, 3))]
        anc = [body() for _ in range(rng.randint(0, 3))] if rng.random() < 0.6 else None
        theirs = [body() for _ in range(rng.randint(0, 3))]
        return dict(ours=ours, anc=anc, theirs=theirs)
    region = None
    regions = []
    if has_conflict:
        # one region mostly; sometimes several in one run (state carried from one region to the next)
        regions = [gen_region() for _ in range(rng.choice([1, 1, 1, 2, 2, 3]))]
        region = regions[0]
    for pre, b in hl:
        lines.append(pre + b)
        if rng.random() < 0.08:
            # `\ No newline at end of file` inside a combined hunk: the lines after it are still lines of a combined diff
            lines.append("\\ No newline at end of file")
    for k, rg in enumerate(regions):
        if k:
            lines += ["  " + body() for _ in range(rng.randint(0, 2))]
        lines.append("++<<<<<<< HEAD")
        lines += ["+ " + b for b in rg["ours"]]
        if rg["anc"] is not None:
            lines.append("++||||||| 1234567")
            lines += ["++" + b for b in rg["anc"]]
        lines.append("++=======")
        lines += [" +" + b for b in rg["theirs"]]
        lines.append("++>>>>>>> branch")
    tail = [("  ", body()) for _ in range(rng.randint(0, 2))]
    for pre, b in tail:
        lines.append(pre + b)
    f = dict(kind="combined", old=p, new=p, lines=lines, first_line=0, pre_lines=hl, region=region, tail=tail, hunks=[],
             combined_hunk=dict(frag=frag, start=start))
    return lines, [f]


# --- combined diffs with the file-section header lines git emits (session 4, strengthening of C01) ----------------
#
# `git show` / `git log -p --cc|-c` of a merge, `git diff` during a merge (combine-diff.c, show_combined_header): after
# `diff --cc <path>` (`diff --combined <path>` for -c) come `index <a>,<b>..<c>`, then - only if a parent's mode differs
# from the result's - `mode <m>,<m>..<m>` | `new file mode <m>` | `deleted file mode <m>,<m>`, then `--- a/<path>`
# (one per parent with --combined-all-paths) and `+++ b/<path>`, then `@@@ … @@@` hunks (n+1 `@` for n parents), or
# `Binary files differ`. Every section of a stream is generated with its own number of parents' columns in the hunks.

COMBINED_KINDS = ["cc_modified", "cc_mode", "cc_added", "cc_deleted", "cc_all_paths", "cc_mode_all_paths",
                  "cc_mode_only", "cc_binary", "cc_mode_binary"]
COMBINED_BODIES = [b for b in BODIES if not b.startswith(("<<<", "===", ">>>", "|||"))]


def gen_combined_hunk(rng, nparents, max_lines=7, only=None):
    """One `@@@` hunk of a combined diff with `nparents` parents: lines = [(prefix columns | None, body)]; prefix None
    is the `\\ No newline at end of file` line (not a hunk line). `only`: '+' / '-' for an added / deleted file."""
    n = rng.randint(1, max_lines)
    lines = []
    while len(lines) < n:
        r = rng.random()
        if only:
            pre = only * nparents
        elif r < 0.35:
            pre = " " * nparents
        else:
            ch = "+" if r < 0.7 else "-"
            pre = "".join(rng.choice([ch, ch, " "]) for _ in range(nparents))
            if pre.strip(" ") == "":
                pre = ch + pre[1:]
        for _ in range(rng.randint(1, 2)):
            lines.append((pre, rng.choice(COMBINED_BODIES)))
    lines = lines[:n]
    if rng.random() < 0.1:
        lines.insert(rng.randint(1, len(lines)), (None, "\\ No newline at end of file"))
    start = rng.choice([1, 1, 7, 50, 1200])
    real = [(p, b) for p, b in lines if p is not None]
    counts = [sum(1 for p, _ in real if p[i] == "-" or ("-" not in p and p[i] == " ")) for i in range(nparents)]
    result = sum(1 for p, _ in real if "-" not in p)
    frag = rng.choice(["", "", " fn main() {", " class Foo:", " @@ weird", " \tdef f():"])
    ats = "@" * (nparents + 1)
    header = ats + "".join(" -%d,%d" % (start, c) for c in counts) + " +%d,%d " % (start, result) + ats + frag
    return dict(header=header, frag=frag, start=start, lines=lines)


def gen_combined_file(rng, kind=None, nparents=None, word=None, paths=None):
    """One file section of a combined diff. Returns dict(kind, nparents, old, new, lines, header_lines, hunks)."""
    kind = kind or rng.choice(COMBINED_KINDS)
    n = nparents or rng.choice([2, 2, 2, 3])
    word = word or rng.choice(["--cc", "--cc", "--combined"])
    p = rng.choice(paths or PATHS)
    hashes = ["%07x" % rng.randrange(1, 16 ** 7) for _ in range(n + 1)]
    f = dict(kind=kind, nparents=n, old=p, new=p, hunks=[], lines=[], word=word)
    L = f["lines"]
    L.append(f"diff {word} {p}")
    result_mode = rng.choice(["100755", "100644"])
    other = "100644" if result_mode == "100755" else "100755"
    pm = [rng.choice([result_mode, other]) for _ in range(n)]
    if all(m == result_mode for m in pm):
        pm[rng.randrange(n)] = other
    mode_line = "mode " + ",".join(pm) + ".." + result_mode
    minus = [f"--- a/{p}"] * (n if "all_paths" in kind else 1)
    only = None
    if kind == "cc_added":
        f["old"] = "/dev/null"
        L += ["index " + ",".join(["0000000"] * n) + ".." + hashes[n], "new file mode " + result_mode, "--- /dev/null", f"+++ b/{p}"]
        only = "+"
    elif kind == "cc_deleted":
        f["new"] = "/dev/null"
        L += ["index " + ",".join(hashes[:n]) + "..0000000", "deleted file mode " + ",".join([result_mode] * n), f"--- a/{p}", "+++ /dev/null"]
        only = "-"
    else:
        L.append("index " + ",".join(hashes[:n]) + ".." + hashes[n])
        if "mode" in kind:
            L.append(mode_line)
        if "binary" in kind:
            L.append("Binary files differ")
        elif kind != "cc_mode_only":
            L += minus + [f"+++ b/{p}"]
    f["header_lines"] = list(L)
    if kind not in ("cc_mode_only", "cc_binary", "cc_mode_binary"):
        for _ in range(1 if only else rng.randint(1, 3)):
            h = gen_combined_hunk(rng, n, only=only)
            f["hunks"].append(h)
            L.append(h["header"])
            L += [b if pre is None else pre + b for pre, b in h["lines"]]
    return f


def gen_combined_sections(rng, nfiles=None, kinds=None, nparents=None, with_commit=None):
    """A combined diff of several file sections (merge commit shown with --cc / -c, or `git diff` during a merge), each
    with the header lines git emits there. Returns (lines, files). No conflict regions (see `gen_combined_diff`)."""
    lines, files = [], []
    if with_commit if with_commit is not None else rng.random() < 0.5:
        c = gen_commit(rng)
        lines += [c[0], "Merge: 1111111 2222222"] + c[1:]
    for i in range(nfiles or rng.randint(1, 3)):
        f = gen_combined_file(rng, kind=(kinds[i] if kinds else None), nparents=nparents)
        f["first_line"] = len(lines)
        lines += f["lines"]
        files.append(f)
    return lines, files


def mutate_lines(rng, lines):
    """Structure-aware damage: delete / duplicate / swap / truncate lines, inject markers."""
    ls = list(lines)
    for _ in range(rng.randint(1, 3)):
        if not ls:
            break
        i = rng.randrange(len(ls))
        op = rng.choice(["del", "dup", "swap", "trunc", "inject", "marker"])
        if op == "del":
            del ls[i]
        elif op == "dup":
            ls.insert(i, ls[i])
        elif op == "swap" and len(ls) > 1:
            j = rng.randrange(len(ls)); ls[i], ls[j] = ls[j], ls[i]
        elif op == "trunc":
            ls[i] = ls[i][: rng.randint(0, max(0, len(ls[i]) - 1))]
        elif op == "inject":
            ls.insert(i, rng.choice(["@@ -1 +1 @@", "@@@ -1 -1 +1 @@@", "diff --git a/z b/z", "--- a/z", "+++ b/z", "old mode 100644",
                                     "new mode 100755", "Binary files a/z and b/z differ", "rename from q", "rename to r",
                                     "deleted file mode 100644", "new file mode 100644", "Submodule sub 123..456:",
                                     "-Subproject commit " + HASH, "+Subproject commit " + HASH, "commit " + HASH, "++<<<<<<< HEAD",
                                     "++=======", "++>>>>>>> x", "++||||||| y", "diff --cc z", "Only in x: y", "diff -u a b", "",
                                     "\\ No newline at end of file", " 1 file changed, 1 insertion(+)", "random text"]))
        elif op == "marker":
            ls[i] = rng.choice(["-", "+", " ", "@@", "--- ", "+++ "]) + ls[i]
    return ls


# ------------------------------------------------------------------ running both sides

def hook_requests(cfg, lines_bytes):
    return ["cfg " + " ".join(hx(a) for a in cfg.args()),
            "machine.run " + " ".join(hx(b) for b in lines_bytes)]


class ImplRun:
    def __init__(self, resp):
        self.resp = resp
        self.ok = resp.startswith("ok ")
        self.panic = resp.startswith("PANIC") or resp.startswith("DIED")
        self.msg = ""
        if self.panic:
            parts = resp.split(" ")
            try:
                self.msg = unhxs(parts[-1])
            except Exception:
                self.msg = resp
        self.out = b""
        self.obs = []
        if self.ok:
            parts = resp.split(" ")
            self.out = unhx(parts[1])
            for o in (parts[2].split(";") if len(parts) > 2 and parts[2] else []):
                f = o.split(",")
                self.obs.append(dict(state=f[0], written=int(f[1]), buffered=int(f[2]), minus=int(f[3]), plus=int(f[4]),
                                     raw=unhx(f[5]), text=unhx(f[6]), commitRe=f[7], blame=f[8], grep=f[9], submodule=f[10]))
            self.rows = decode_output(self.out)


class ModelRun:
    def __init__(self, resp):
        self.resp = resp
        self.ok = resp.startswith("ok ")
        self.panic = resp.startswith("PANIC")
        self.msg = unhxs(resp.split(" ")[1]) if self.panic and " " in resp else ""
        self.rows, self.obs = [], []
        if self.ok:
            parts = resp.split(" ")
            if parts[1] != "-":
                for r in parts[1].split(","):
                    k, t, s = r.split(":")
                    self.rows.append((k, unhxs(t), int(s)))
            for o in parts[2].split(";"):
                f = o.split(",")
                self.obs.append(dict(state=f[0], out=int(f[1]), buf=int(f[2]), minus=int(f[3]), plus=int(f[4]), orderOk=f[5] == "1"))


MODEL2PAL = {"raw": "raw", "other": "raw", "commit": "commit", "file": "file", "hunkHeader": "hunkHeader", "minus": "minus",
             "plus": "plus", "zero": "zero", "blank": "blank", "deco": "deco", "mcBar": "raw", "mcHeader": "mcHeader",
             "submodule": "minus", "blame": "blame", "grep": "grep"}


def canon_model_rows(rows, cfg):
    out = []
    for k, t, _ in rows:
        pk = MODEL2PAL[k]
        # an `omit` style that color-only mode nevertheless writes carries no colour
        if (k == "file" and cfg.d["fileOmit"]) or (k == "commit" and cfg.d["commitOmit"]):
            pk = "raw"
        if pk == "deco":
            out.append(("deco", ""))
            continue
        if k == "mcBar":
            out.append(("raw", (t * 80)[:80] if t else ""))
            continue
        t = strip_ansi(t.encode("utf-8", "surrogateescape")).decode("utf-8", "replace")
        if t == "" and pk in ("raw", "zero", "minus", "plus"):
            # hunk lines paint nothing for an empty text: the row is an empty line. (Header rows go
            # through draw.rs, which paints even an empty text, so they keep their colour.)
            pk = "blank"
        t = canon_text(pk, t)
        out.append((pk, t))
    # an empty raw-styled header inside a box is just the box's vertical bar: a decoration row
    for i in range(1, len(out) - 1):
        if out[i] in (("blank", ""), ("raw", "")) and rows[i][0] == "raw" and rows[i][1] == " " \
                and rows[i][2] == rows[i - 1][2] == rows[i + 1][2] and out[i - 1][0] == "deco" and out[i + 1][0] == "deco":
            out[i] = ("deco", "")
    return out


def model_lines(impl, graphemes):
    """Build the model's <line> fields from the implementation's per-line observations."""
    fields = []
    for o, gs in zip(impl.obs, graphemes):
        g = ".".join(hx(x) for x in gs)
        fields.append("/".join([hx(o["raw"]), hx(o["text"]), g, o["commitRe"], o["blame"], o["grep"], o["submodule"]]))
    return fields


def observe(ctx, cases, hook=None, model=None):
    """cases: list of (VCfg, [bytes]). Returns list of (ImplRun, ModelRun | None)."""
    hook = hook or ctx.hook()
    reqs, sticky = [], []
    for cfg, lines in cases:
        sticky.append(len(reqs))
        reqs += hook_requests(cfg, lines)
    resp = hook.ask(reqs, sticky=sticky)
    impls = [ImplRun(resp[2 * i + 1]) for i in range(len(cases))]
    # grapheme segmentation of the stripped lines, from the implementation
    greqs, gidx = [], []
    for i, im in enumerate(impls):
        if im.ok:
            for o in im.obs[:-1]:
                gidx.append(i)
                greqs.append("text.graphemes " + hx(o["text"]))
    gresp = hook.ask(greqs) if greqs else []
    gs_by_case = {}
    for i, r in zip(gidx, gresp):
        toks = r.split(" ")[1:] if r.startswith("ok") else []
        gs_by_case.setdefault(i, []).append([unhx(t.split(":")[0]) for t in toks if t])
    models = [None] * len(cases)
    mdl = model if model is not None else (ctx.model("drv_machine") if ctx.drivers_ok else None)
    if mdl:
        mreqs, midx = [], []
        for i, ((cfg, lines), im) in enumerate(zip(cases, impls)):
            if im.ok:
                obs_lines = ImplRun.__new__(ImplRun)
                obs_lines.obs = im.obs[:-1]
                mreqs.append("machine.run " + cfg.model_field() + " " + " ".join(model_lines(obs_lines, gs_by_case.get(i, []))))
                midx.append(i)
        mresp = mdl.ask(mreqs) if mreqs else []
        for i, r in zip(midx, mresp):
            models[i] = ModelRun(r)
    return list(zip(impls, models))


def compare(cfg, impl, model):
    """Correspondence between one implementation run and the model run. Returns list of
    disagreement descriptions (empty = agree)."""
    if model is None:
        return []
    if any(o["blame"] == "1" or o["grep"] != "0" for o in impl.obs[:-1]):
        return []   # blame / grep rows have their own models (C17, C16); the machine model only approximates them
    if not model.ok and not model.panic:
        return ["model driver error: " + model.resp[:100]]
    if model.panic:
        return ["model predicts a panic/fatal exit (%s) but the implementation finished" % model.msg[:80]]
    dis = []
    io, mo = impl.obs, model.obs
    if len(io) != len(mo):
        return [f"observation count {len(io)} vs {len(mo)}"]
    nl = 0
    for i, (a, b) in enumerate(zip(io, mo)):
        if a["state"] != b["state"]:
            dis.append(f"line {i}: state {a['state']} vs model {b['state']}"); break
        if (a["minus"], a["plus"]) != (b["minus"], b["plus"]):
            dis.append(f"line {i}: buffered minus/plus {(a['minus'], a['plus'])} vs model {(b['minus'], b['plus'])}"); break
        if (a["buffered"] > 0) != (b["buf"] > 0):
            dis.append(f"line {i}: output buffer non-empty {a['buffered'] > 0} vs model {b['buf'] > 0}"); break
        nl = impl.out[:a["written"]].count(b"\n")
        if nl != b["out"]:
            dis.append(f"line {i}: {nl} rows written vs model {b['out']}"); break
    if not dis:
        # decoration rows, blank rows and empty raw rows are all "nothing visible": the properties are about
        # rows that carry text, and the number of rows per input line has been compared above
        soft = lambda rows: [("empty", "") if (k in ("deco", "blank") or (k == "raw" and t == "")) else (k, t) for k, t in rows]
        mr = soft(canon_model_rows(model.rows, cfg))
        ir = soft(impl.rows)
        if mr != ir:
            for j, (x, y) in enumerate(zip(ir, mr)):
                if x != y:
                    dis.append(f"row {j}: impl {x!r} vs model {y!r}"); break
            else:
                dis.append(f"row count {len(ir)} vs model {len(mr)}")
    return dis
