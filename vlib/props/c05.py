"""C05 — displayed line numbers are the true old/new file line numbers.

Correspondence (hooked implementation vs Lean model driver `drv_linenum`):
  pad / log10 / parse_format / hunk_header / config / numbers / machine  — identical requests;
  sbs_block (explicit alignment through the real side-by-side row loop) vs sbs_rows,
  blocks (a whole hunk through a real Painter) vs blocks_rows — the implementation reports the
  parameters of the model (rows per wrapped line, alignment chosen by the edit inference).
Direct oracle (the property itself, written against the statement, not the model):
  * on every sbs_block / blocks answer: gutters decoded from the painted rows must be the true
    numbers computed from the hunk starts, the line kinds and the alignment;
  * on the real binary: generated multi-file multi-hunk two-way diffs are run through
    `delta -n` and `delta -s`; every output row is matched to the hunk line whose unique token it
    starts with and must show exactly that line's old/new number; rows that start no line
    (continuation rows, the empty half of an unpaired row) must show none; the hunk-header row must
    show the new-file start and the path of the file;
  * the same on plain `diff -u` / `diff -ru` / concatenated plain-diff streams whose hunks contain marker
    look-alike bodies (`--- x` = removed line `-- x`, `+++ x` = added line `++ x`), most of them after
    several added lines (`gen_plain`): there the numbering depends on delta telling such a body from the
    `--- file` header of the next section (the minus-line counter of `handle_hunk_line`).
Correspondence for that code: the same plain streams through the real state machine (hook op
`machine.run`) and the machine model `drv_machine` (`machine.run:plain-diff`); its proof tie is
`Generated/HunkCounter.lean` + `C05.minus_counter_arms_match_source`.
"""
import itertools
import re

from ..core import hx, unhx, unhxs, parallel_map

DRIVERS = ["drv_linenum", "drv_machine"]
GENERATED = ["LineNum", "HunkCounter", "HunkInit", "Handlers", "Markers", "SbsDispatch"]

ANSI = re.compile(r"\x1b\[[0-9;?]*[A-Za-z]|\x1b\]8;[^\x1b\x07]*(?:\x1b\\|\x07)")
USIZE_MAX = 2 ** 64 - 1
ALIGN_CH = "<^>"
WIDE = "日本語表示"


def cw(ch):
    return 2 if ch in WIDE else 1


def col_slice(s, start, width=None):
    """Substring of `s` from display column `start` (optionally `width` columns)."""
    col, i = 0, 0
    while i < len(s) and col < start:
        col += cw(s[i])
        i += 1
    if width is None:
        return s[i:]
    j, c2 = i, 0
    while j < len(s) and c2 < width:
        c2 += cw(s[j])
        j += 1
    return s[i:j]


# ------------------------------------------------------------------ format strings

class Fmt:
    """A number-format string built from parts: ('lit', text) | ('ph', 'nm'|'np', spec text)."""

    def __init__(self, parts):
        self.parts = parts

    def text(self):
        out = ""
        for p in self.parts:
            out += p[1] if p[0] == "lit" else "{" + p[1] + p[2] + "}"
        return out

    def regex(self, prefix):
        """Regex of the rendered field; groups `<prefix>_nm<i>` / `<prefix>_np<i>` hold the number cells."""
        out, i = "", 0
        for p in self.parts:
            if p[0] == "lit":
                out += re.escape(p[1])
            else:
                out += f"(?P<{prefix}_{p[1]}{i}>(?: *[0-9]+ *)| *)"
                i += 1
        return out

    def spec_width(self, i):
        phs = [p for p in self.parts if p[0] == "ph"]
        m = re.match(r":(?:.?[<^>])?(\d+)?", phs[i][2])
        return int(m.group(1)) if m and m.group(1) else 0


LIT_CHARS = ["", "|", "│", "⋮", ":", " ", "L", "R", "[", "]", "#", "é"]
SUF_CHARS = ["|", "│", "⋮", ":", "]", "#", "│ ", "⋮ "]


def gen_spec(rng):
    r = rng.random()
    if r < 0.15:
        return ""
    s = ":"
    if rng.random() < 0.75:
        if rng.random() < 0.3:
            s += rng.choice("_ .x0*")
        s += rng.choice(ALIGN_CH)
    if rng.random() < 0.8:
        s += str(rng.choice([0, 1, 2, 3, 4, 5, 6, 8, 11]))
    if rng.random() < 0.15:
        s += "." + str(rng.randint(0, 9))
    if rng.random() < 0.1:
        s += rng.choice(["_x", "d", "_ab-1", "s"])
    return s


def gen_fmt(rng, which, decodable=True):
    """A format for one side (`which` = the placeholder that side carries by default). Also generated:
    the *other* placeholder in this side ({np} in the left format, {nm} in the right one), both in
    one column, repeated placeholders, no placeholder at all, the empty format. Every placeholder is
    followed by a literal starting with a non-blank, non-digit character, so that the number cells
    can be read back from the output without knowing their width."""
    other = "np" if which == "nm" else "nm"
    k = rng.random()
    if k < 0.05:
        return Fmt([])                                             # empty format
    parts = []
    pre = rng.choice(["", "", "│", "L", "[", "# "])
    if pre:
        parts.append(("lit", pre))
    if k < 0.10:
        parts.append(("lit", rng.choice(["x", "│", "--"])))     # no placeholder at all
        return Fmt(parts)
    phs = rng.choice([[which], [which], [which], [which], [other], [other], [which, other], [other, which],
                      [which, which], [other, other], [which, other, which]])
    for ph in phs:
        parts.append(("ph", ph, gen_spec(rng)))
        parts.append(("lit", rng.choice(SUF_CHARS)))
    return Fmt(parts)


def cell_list(f, m, pre):
    """[(placeholder, number | None, cell text)] of the number cells of a decoded field."""
    out, i = [], 0
    for q in f.parts:
        if q[0] == "ph":
            txt = m.group(f"{pre}_{q[1]}{i}")
            out.append((q[1], cell_number(txt), txt))
            i += 1
    return out


def cells_wrong(cells, old, new, own=None):
    """The property on one decoded field: every {nm} cell shows `old`, every {np} cell `new`
    (None = blank). `own` = None: one gutter per line (unified view), every cell exact. `own` =
    'nm' / 'np': a side-by-side panel — the cells of the panel's own kind are exact, a cell of the
    other kind may also be blank (the panel is painted with its own line's state). Returns None or
    (description, the failing cell is of the other kind)."""
    for kind, num, _ in cells:
        want = old if kind == "nm" else new
        if num == want or (own is not None and kind != own and num is None):
            continue
        return (f"{{{kind}}} cell shows {num}, true value {want}", own is not None and kind != own)
    return None


def check_gutter(f, text, old, new, own=None):
    """Decode a gutter text with the format's own structure and apply `cells_wrong`."""
    m = re.fullmatch(f.regex("g"), text)
    if not m:
        return (f"gutter {text!r} does not have the shape of format {f.text()!r}", False)
    return cells_wrong(cell_list(f, m, "g"), old, new, own)


CROSS_SIG = "cross-placeholder-in-empty-half"

DEFAULT_FMTS = {False: (Fmt([("ph", "nm", ":^4"), ("lit", "⋮")]), Fmt([("ph", "np", ":^4"), ("lit", "│")])),
                True: (Fmt([("lit", "│"), ("ph", "nm", ":^4"), ("lit", "│")]),
                       Fmt([("lit", "│"), ("ph", "np", ":^4"), ("lit", "│")]))}


def digits_width(pairs):
    m = max(n + d for n, d in pairs)
    return len(str(m))


def cell_number(txt):
    t = txt.strip()
    return int(t) if t else None


# ------------------------------------------------------------------ primitive correspondence

def run_primitives(ctx, rep, hook, mdl):
    rng = ctx.rng
    reqs, meta = [], []
    # pad: exhaustive small + random large
    small_n = list(range(0, 13)) + [99, 100, 101, 999, 1000, 9999, 10000, 99999, 123456, 10 ** 6, 10 ** 6 + 1]
    for n in small_n:
        for w in range(0, 9):
            for al in range(3):
                reqs.append(f"linenum.pad {n} {w} {al} -")
                meta.append(("pad", (n, w, al)))
    for _ in range(ctx.n(300, 6000)):
        n = rng.choice([rng.randint(0, 200), rng.randint(0, 10 ** 7), rng.randint(0, USIZE_MAX), 10 ** rng.randint(0, 19) - rng.randint(0, 1)])
        n = max(0, min(n, USIZE_MAX))
        w, al = rng.randint(0, 24), rng.randint(0, 2)
        prec = rng.choice(["-", "-", str(rng.randint(0, 5))])
        reqs.append(f"linenum.pad {n} {w} {al} {prec}")
        meta.append(("pad", (n, w, al)))
    for n in small_n + [USIZE_MAX, USIZE_MAX - 1, 10 ** 19, 10 ** 19 - 1] + [rng.randint(0, USIZE_MAX) for _ in range(ctx.n(100, 2000))]:
        reqs.append(f"linenum.log10 {n}")
        meta.append(("log10", n))
    # parse_format
    fmts = ["", "x", "{nm}", "{np}", "{nm:^4}⋮", "{np:^4}│", "│{nm:^4}│", "{nm} {np}|", "{nm:}<", "{nm:}<}", "{nm:}<x y",
            "{nm:x<5.2_ab}", "{nm:_}", "{{nm}}", "{np:^}", "{nm:1<5}", "{nm:12}", "{nm:<<}", "{nm:.}", "{nm:.3}", "{nm:_a}",
            "{nm:a<b}", "{nm:a^}", "{nm", "nm}", "{nq}", "{nm:>99999999999999999999}", "{nm:.99999999999999999999}",
            "a{nm:^3}b{np:>2}c{nm}d", "{nm:٣}", "{nm:>٣}", "é{np:é^3}日", "{nm:-^7}", "{nm:^4.2x}", "{nm:4_}", "{nm:4-}",
            "{nm:^04}", "{np:>+3}", "{nm: >3}", "{nm:}}", "{nm:}}<}"]
    for _ in range(ctx.n(200, 4000)):
        f = gen_fmt(rng, rng.choice(["nm", "np"])).text()
        if rng.random() < 0.3:       # near-valid: damage one character
            i = rng.randrange(len(f) + 1)
            f = f[:i] + rng.choice("{}:<^>._9x ") + f[i + rng.randint(0, 1):]
        fmts.append(f)
    for f in fmts:
        for pws in (0, 1):
            reqs.append(f"linenum.parse_format {hx(f)} {pws}")
            meta.append(("parse_format", (f, pws)))
    # hunk headers
    for line in gen_header_lines(rng, ctx.n(250, 5000)):
        reqs.append(f"linenum.hunk_header {hx(line)}")
        meta.append(("hunk_header", line))
    # linenumbers_and_styles alone
    for st in range(7):
        for inc in (0, 1):
            for l, r in [(0, 0), (5, 9), (USIZE_MAX, 3), (3, USIZE_MAX), (USIZE_MAX, USIZE_MAX)]:
                reqs.append(f"linenum.numbers {st} {inc} {l} {r}")
                meta.append(("numbers", (st, inc, l, r)))
    impl = hook.ask(reqs)
    model = mdl.ask(reqs) if mdl else [None] * len(reqs)
    for (op, case), i, m in zip(meta, impl, model):
        nontrivial = True
        if op == "pad":
            n, w, al = case
            nontrivial = w > len(str(n))
            direct_pad(rep, n, w, al, i)
        elif op == "parse_format":
            nontrivial = "{n" in case[0]
        elif op == "hunk_header":
            nontrivial = i not in ("ok none",)
        rep.case(key=(op, case), nontrivial=nontrivial, sample=dict(op=op, case=case, impl=i) if rep.evaluations % 400 == 0 else None)
        rep.count("prim:" + op)
        if i.startswith("PANIC"):
            rep.count("prim-panic:" + op)
        if m is not None:
            rep.corr_case("linenum." + op, same(i, m), dict(op=op, case=case, impl=i, model=m))


def same(i, m):
    if i is None or m is None:
        return False
    # a refusal is a refusal: the implementation reports an invalid format through `fatal` (exit 2, "DIED 2") since fix
    # 48f15b5, through a panic before; the model has one error branch for it
    rej = lambda x: x.startswith("PANIC") or x.startswith("DIED 2")
    if rej(i) or rej(m):
        return rej(i) and rej(m)
    return i == m


def direct_pad(rep, n, w, al, ans):
    """pad_width, checked on the implementation: length max(w, digits), digits preserved."""
    if not ans.startswith("ok "):
        rep.violation("pad:panic", "format::pad panicked", dict(kind="hook", reqs=[f"linenum.pad {n} {w} {al} -"], got=ans))
        return
    s = unhxs(ans[3:])
    d = str(n)
    if len(s) != max(w, len(d)) or s.replace(" ", "") != d or s.strip() != d:
        rep.violation("pad:wrong-field", f"pad({n},{w},{ALIGN_CH[al]}) = {s!r}",
                      dict(kind="hook", reqs=[f"linenum.pad {n} {w} {al} -"], got=ans))


def gen_header_lines(rng, count):
    lines = ["@@ -1,2 +3,4 @@", "@@ -1 +1 @@", "@@ -0,0 +1 @@ fn x()", "@@ foo @@", "@@@ -1,2 -3,4 +5,6 @@@", "@@ -1,2 +3,4", "@@-1 +1@@",
             "@@ -18446744073709551615 +1 @@", "@@ -18446744073709551616 +1 @@", "@@ -1,+2 @@", "@@ --5 ++6 @@", "@@ -٣ +1 @@",
             "@@x -1 +1 @@ foo", "x @@ -7 +8 @@ y", "@@ -1 +1 @@ a @ b", "@@ -1,2 +3,4 @@@@ z", "@@  -1 +2 @@", "@@ -1,18446744073709551616 +1 @@",
             "@@ -12,3 +45,6 @@ @@ -9 +9 @@", "@@ - +7 @@", "@@ -1,2, +3,4 @@", "@@ +5 -6 @@", "@ -1 +2 @"]
    for _ in range(count):
        a, c = gen_start(rng), gen_start(rng)
        b = rng.choice([None, None, rng.randint(0, 50)])
        d = rng.choice([None, None, rng.randint(0, 50)])
        co = f"-{a}" + ("" if b is None else f",{b}") + f" +{c}" + ("" if d is None else f",{d}")
        line = f"@@ {co} @@" + rng.choice(["", " fn foo()", " class X:", " @@ x", " a@b", "   "])
        if rng.random() < 0.3:
            i = rng.randrange(len(line) + 1)
            line = line[:i] + rng.choice("@ -+,9x") + line[i + rng.randint(0, 1):]
        lines.append(line)
    return lines


def gen_start(rng, small=False):
    r = rng.random()
    if small or r < 0.5:
        return rng.randint(0, 120)
    if r < 0.7:
        return rng.choice([9, 10, 99, 100, 999, 1000, 9999, 10000, 99999, 100000, 999999, 10 ** 6, 10 ** 6 + 1]) - rng.randint(0, 3) * rng.randint(0, 1)
    if r < 0.9:
        return rng.randint(10 ** 6, 10 ** 7)
    return rng.randint(10 ** 7, 10 ** 13)


# ------------------------------------------------------------------ machine (paint_line level)

def run_machine(ctx, rep, hook, mdl):
    rng = ctx.rng
    reqs, sticky, meta = [], [], []
    for ci in range(ctx.n(12, 80)):
        sbs = rng.random() < 0.5
        if ci < 2:
            args = ["-s", "--width=80"] if ci else ["-n"]
            sbs = bool(ci)
            fl, fr = DEFAULT_FMTS[sbs]
        else:
            fl, fr = gen_fmt(rng, "nm", False), gen_fmt(rng, "np", False)
            args = (["--side-by-side", "--width=" + str(rng.randint(30, 120))] if sbs else ["--line-numbers"])
            if rng.random() < 0.8:
                args += ["--line-numbers-left-format=" + fl.text(), "--line-numbers-right-format=" + fr.text()]
            else:
                fl, fr = DEFAULT_FMTS[sbs]
        sticky.append(len(reqs))
        reqs.append("cfg " + " ".join(hx(a) for a in args))
        meta.append(("cfg", args, None))
        reqs.append("linenum.config")
        meta.append(("config", args, None))
        for _ in range(ctx.n(25, 120)):
            npairs = rng.choice([2, 2, 2, 2, 2, 2, 2, 2, 2, 2, 2, 1, 3, 3, 0])
            weird = rng.random() < 0.04      # a panel-less call in side-by-side mode: unreachable!()
            pairs = []
            for _ in range(npairs):
                s = gen_start(rng)
                if rng.random() < 0.04:
                    s = USIZE_MAX - rng.randint(0, 3)
                pairs.append((s, rng.choice([1, 0, rng.randint(0, 40)])))
            steps = []
            plain = (not sbs) and rng.random() < 0.7     # unified: a plain sequence of hunk lines (panel None throughout)
            for _ in range(rng.randint(0, 14)):
                st = rng.choice([0, 0, 2, 2, 4, 4, 1, 3, 5, 6])
                if sbs:
                    panel = 0 if weird else rng.choice([1, 2])
                else:
                    panel = 0 if plain else rng.choice([0, 0, 0, 1, 2])
                steps.append((st, panel))
            r = f"linenum.machine {len(pairs)} " + " ".join(f"{a} {b}" for a, b in pairs)
            r += f" {len(steps)} " + " ".join(f"{a} {b}" for a, b in steps)
            reqs.append(" ".join(r.split()))
            meta.append(("machine", (tuple(args), tuple(pairs), tuple(steps)), (sbs, fl, fr, reqs[-1])))
    impl = hook.ask(reqs, sticky=sticky)
    model = mdl.ask(reqs, sticky=sticky) if mdl else [None] * len(reqs)
    for (op, case, extra), i, m in zip(meta, impl, model):
        if op == "cfg":
            continue
        if op == "machine" and not extra[0]:
            sbs_, fl_, fr_, req_ = extra
            bad = machine_oracle(fl_, fr_, case[1], case[2], i)
            if bad == "n/a":
                rep.count("machine:oracle-not-applicable")
            else:
                rep.count("machine:oracle-checked")
                if bad:
                    rep.violation("machine:numbers-wrong", bad, dict(kind="hook-machine", cfg=list(case[0]), req=req_,
                                                                      pairs=list(case[1]), steps=list(case[2]),
                                                                      fl=fl_.parts, fr=fr_.parts, got=i))
        big = op == "machine" and case[1] and max(a + b for a, b in case[1]) >= 10 ** 14
        rep.case(key=(op, case), nontrivial=op == "machine" and len(case[2]) >= 2,
                 sample=dict(op=op, case=case, impl=i) if rep.evaluations % 300 == 0 else None)
        rep.count("machine:" + op + (":panic" if i.startswith("PANIC") else ""))
        if m is not None:
            if big and not i.startswith("PANIC") and not m.startswith("PANIC"):
                # f64 log10 in initialize_hunk is not modelled above 10^14: compare digits only
                ok = [unhxs(f).replace(" ", "") for f in i.split()[3:-2]] == [unhxs(f).replace(" ", "") for f in m.split()[3:-2]] \
                    and i.split()[-2:] == m.split()[-2:]
                rep.count("machine:width-not-compared")
            else:
                ok = same(i, m)
            rep.corr_case("linenum." + op, ok, dict(op=op, case=case, impl=i, model=m))


def machine_oracle(fl, fr, pairs, steps, ans):
    """The property on a `linenum.machine` answer, independent of the model, for a unified-view
    sequence of hunk lines (two coordinate pairs, panel None throughout, numbers inside usize):
    the gutters the implementation printed are decoded with the format's structure and every
    {nm}/{np} cell is compared with the true old/new number counted from the header starts.
    Returns None (holds), "n/a" (not such a sequence) or a description of the failure."""
    if len(pairs) != 2 or any(p != 0 for _, p in steps):
        return "n/a"
    old, new = pairs[0][0], pairs[1][0]
    if max(old, new) + len(steps) > USIZE_MAX or max(a + b for a, b in pairs) > USIZE_MAX:
        return "n/a"
    if not ans.startswith("ok "):
        return "initialize_hunk / paint_line failed: " + ans[:120]
    f = ans.split()
    n = int(f[2])
    guts = [unhxs(x) for x in f[3:3 + n]]
    if n != len(steps):
        return f"{n} gutters for {len(steps)} lines"
    rx = re.compile(fl.regex("l") + fr.regex("r"))
    for t, ((st, _), g) in enumerate(zip(steps, guts)):
        if st == 6:
            want = None
        elif st == 0:
            want = (old, None); old += 1
        elif st == 2:
            want = (old, new); old += 1; new += 1
        elif st == 4:
            want = (None, new); new += 1
        else:
            want = (None, None)
        if want is None:
            if g != "":
                return f"step {t}: a non-hunk state printed a gutter {g!r}"
            continue
        m = rx.fullmatch(g)
        if not m:
            return f"step {t}: gutter {g!r} does not have the shape of formats {fl.text()!r} / {fr.text()!r}"
        bad = cells_wrong(cell_list(fl, m, "l"), *want) or cells_wrong(cell_list(fr, m, "r"), *want)
        if bad:
            return f"step {t} (state {st}, true old/new {want}), gutter {g!r}: {bad[0]}"
    if [int(f[3 + n]), int(f[4 + n])] != [old, new]:
        return f"counters after the lines ({f[3 + n]},{f[4 + n]}) != ({old},{new})"
    return None


# ------------------------------------------------------------------ side-by-side blocks, explicit alignment

def alignments(m, p):
    """All valid alignments of m minus and p plus lines (each line once, in order)."""
    if m == 0 and p == 0:
        yield []
        return
    if m > 0:
        for rest in alignments(m - 1, p):
            yield [("m",)] + rest
    if p > 0:
        for rest in alignments(m, p - 1):
            yield [("p",)] + rest
    if m > 0 and p > 0:
        for rest in alignments(m - 1, p - 1):
            yield [("mp",)] + rest


def number_alignment(al):
    out, i, j = [], 0, 0
    for (k,) in al:
        if k == "m":
            out.append((i, None)); i += 1
        elif k == "p":
            out.append((None, j)); j += 1
        else:
            out.append((i, j)); i += 1; j += 1
    return out


def fmt_al(al):
    return f"{len(al)} " + " ".join(f"{'-' if a is None else a} {'-' if b is None else b}" for a, b in al)


def parse_rows(fields, pos):
    n = int(fields[pos]); pos += 1
    rows = [unhxs(f) for f in fields[pos:pos + n]]
    return rows, pos + n


def parse_counts(fields, pos):
    n = int(fields[pos]); pos += 1
    return [int(x) for x in fields[pos:pos + n]], pos + n


def parse_al(fields, pos):
    n = int(fields[pos]); pos += 1
    al = []
    for k in range(n):
        a, b = fields[pos + 2 * k], fields[pos + 2 * k + 1]
        al.append((None if a == "-" else int(a), None if b == "-" else int(b)))
    return al, pos + 2 * n


def line_of_rows(target, textw):
    """ASCII line that wrap_line breaks into `target` rows for text width `textw`."""
    if target <= 1:
        return "abc"
    return "".join("abcdefghij"[k % 10] for k in range((target - 1) * (textw - 1) + 2))


def true_sbs_rows(a, c, al, wl, wr):
    """The property, for one subhunk: per row (old, new) = the numbers of the lines that *start* in
    that row (None otherwise), and whether the left / right panel holds no line text at all."""
    rows = []
    for mi, pi in al:
        x = wl[mi] if mi is not None else 0
        y = wr[pi] if pi is not None else 0
        for k in range(max(x, y)):
            first = k == 0
            rows.append(((a + mi if (first and mi is not None) else None, c + pi if (first and pi is not None) else None),
                         k >= x, k >= y))
    return rows


def sbs_row_check(fl, fr, lg, rg, nums, lempty, rempty):
    """One side-by-side row: left panel ({nm} exact, {np} blank or true), right panel ({np} exact,
    {nm} blank or true). Returns None or (description, signature suffix)."""
    for f, g, own, empty in ((fl, lg, "nm", lempty), (fr, rg, "np", rempty)):
        bad = check_gutter(f, g, nums[0], nums[1], own)
        if bad:
            return (("left" if own == "nm" else "right") + " panel: " + bad[0],
                    CROSS_SIG if (bad[1] and empty) else "numbers-wrong")
    return None


def decode_sbs(rows, lw, rw, pl, fl, fr):
    """(left gutter text, right gutter text) of each painted row."""
    return [(col_slice(r, 0, lw), col_slice(r, pl, rw)) for r in rows]


def hxl(text, raw):
    """A line field of `linenum.sbs_block` / `linenum.blocks`: `X<hex>` = the hunk state keeps the raw line."""
    f = hx(text)
    return "X" + f[1:] if raw else f


def raw_lines_supported(hook):
    """Does the hooked build understand `X<hex>` line fields (hooks-linenum-raw.diff)?"""
    ans = hook.ask(["cfg " + " ".join(hx(x) for x in ["-s", "--width=80"]), "linenum.sbs_block 2 1 1 1 1 1 X61 0 1 0 -"])
    return ans[-1].startswith("ok ")


def flags(v):
    return f"{len(v)} " + " ".join("1" if x else "0" for x in v)


def run_sbs_blocks(ctx, rep, hook, mdl):
    rng = ctx.rng
    cfgs = [(["--side-by-side", "--width=64", "--wrap-max-lines=unlimited"], DEFAULT_FMTS[True])]
    for _ in range(ctx.n(2, 10)):
        fl, fr = gen_fmt(rng, "nm"), gen_fmt(rng, "np")
        w = rng.choice([60, 71, 80, 96])
        cfgs.append((["-s", f"--width={w}", "--wrap-max-lines=" + rng.choice(["unlimited", "5", "9"]),
                      "--line-numbers-left-format=" + fl.text(), "--line-numbers-right-format=" + fr.text()] +
                     (["--keep-plus-minus-markers"] if rng.random() < 0.3 else []), (fl, fr)))
    shapes = [(m, p) for m in range(0, 5) for p in range(0, 5) if m + p > 0]
    cases = []
    raw_ok = raw_lines_supported(hook)
    rep.notes["hook_raw_line_states"] = raw_ok
    # exhaustive pairing patterns for every shape; wrap counts exhaustive for small shapes, sampled otherwise
    full_wraps = ctx.n(2, 6)       # shapes with m + p <= full_wraps: every wrap-count vector in {1,2,3}^(m+p)
    for ci, (args, fmts) in enumerate(cfgs):
        for (m, p) in shapes:
            als = list(alignments(m, p))
            for al in als:
                if ci > 0 and rng.random() > ctx.n(0.04, 0.3):
                    continue
                if m + p <= full_wraps and ci == 0:
                    wraps = list(itertools.product([1, 2, 3], repeat=m + p))
                else:
                    wraps = [tuple(1 for _ in range(m + p))] + [tuple(rng.choice([1, 1, 2, 3]) for _ in range(m + p))
                                                                 for _ in range(ctx.n(1, 60) if ci == 0 else ctx.n(1, 6))]
                for w in wraps:
                    a, c = gen_start(rng, small=rng.random() < 0.4), gen_start(rng, small=rng.random() < 0.4)
                    # which lines keep their raw form in the hunk state (coloured input / raw styles)
                    if raw_ok and rng.random() < 0.5:
                        rl = tuple(rng.random() < 0.6 for _ in range(m)); rr = tuple(rng.random() < 0.6 for _ in range(p))
                    else:
                        rl, rr = (False,) * m, (False,) * p
                    cases.append((ci, m, p, number_alignment(al), w[:m], w[m:], a, c, rl, rr))
    # ask the implementation (needs the text width first: one probe per config)
    reqs, sticky, idx = [], [], []
    textw = {}
    probe = hook.ask(list(itertools.chain.from_iterable(
        ("cfg " + " ".join(hx(x) for x in args), "linenum.sbs_block 2 1 1 1 1 1 x61 0 1 0 -") for args, _ in cfgs)))
    for ci, (args, _) in enumerate(cfgs):
        f = probe[2 * ci + 1].split()
        # ok <rows..> <wl> <wr> left right lw rw pl pr
        lw, rw, pl, pr = (int(x) for x in f[-4:])
        keep = 1 if "--keep-plus-minus-markers" in args else 0
        textw[ci] = (pl - lw - keep, pr - rw - keep, lw, rw, pl, pr)
    cur = None
    for case in cases:
        ci, m, p, al, wl, wr, a, c, rl, rr = case
        if ci != cur:
            sticky.append(len(reqs)); reqs.append("cfg " + " ".join(hx(x) for x in cfgs[ci][0])); idx.append(None); cur = ci
        tl, tr = textw[ci][0], textw[ci][1]
        minus = [line_of_rows(wl[i], tl) for i in range(m)]
        plus = [line_of_rows(wr[j], tr) for j in range(p)]
        b, d = m, p
        r = f"linenum.sbs_block 2 {a} {b} {c} {d} {m} " + " ".join(hxl(x, q) for x, q in zip(minus, rl)) + f" {p} " + " ".join(hxl(x, q) for x, q in zip(plus, rr)) + " " + fmt_al(al)
        reqs.append(" ".join(r.split())); idx.append(case)
    impl = hook.ask(reqs, sticky=sticky)
    mreqs, msticky, back = [], [], []
    parsed = {}
    for k, (case, ans) in enumerate(zip(idx, impl)):
        if case is None:
            msticky.append(len(mreqs)); mreqs.append(reqs[k]); back.append(None)
            continue
        ci, m, p, al, wl, wr, a, c, rl, rr = case
        if not ans.startswith("ok "):
            parsed[k] = None
            mreqs.append(f"linenum.sbs_rows 2 {a} {m} {c} {p} {m} {p} {fmt_al(al)} {m} " + " ".join(map(str, wl)) + f" {p} " + " ".join(map(str, wr)) + " " + flags(rl) + " " + flags(rr))
            mreqs[-1] = " ".join(mreqs[-1].split()); back.append(k)
            continue
        f = ans.split()
        rows, pos = parse_rows(f, 1)
        rwl, pos = parse_counts(f, pos)
        rwr, pos = parse_counts(f, pos)
        left, right, lw, rw, pl, pr = (int(x) for x in f[pos:pos + 6])
        parsed[k] = (rows, rwl, rwr, left, right, lw, rw, pl, pr)
        r = f"linenum.sbs_rows 2 {a} {m} {c} {p} {m} {p} {fmt_al(al)} {m} " + " ".join(map(str, rwl)) + f" {p} " + " ".join(map(str, rwr)) + " " + flags(rl) + " " + flags(rr)
        mreqs.append(" ".join(r.split())); back.append(k)
    model = mdl.ask(mreqs, sticky=msticky) if mdl else [None] * len(mreqs)
    for mk, k in enumerate(back):
        if k is None:
            continue
        case, ans = idx[k], impl[k]
        ci, m, p, al, wl, wr, a, c, rl, rr = case
        fl, fr = cfgs[ci][1]
        replay = dict(kind="hook-sbs", cfg=cfgs[ci][0], req=reqs[k], case=dict(m=m, p=p, al=al, wl=wl, wr=wr, a=a, c=c, rl=rl, rr=rr),
                      fl=fl.parts, fr=fr.parts)
        got = parsed[k]
        rep.count(f"sbs_block:shape:{m}x{p}")
        if got is None:
            rep.case(key=("sbs_block", case), nontrivial=True)
            rep.count("sbs_block:impl-failed")
            if not ans.startswith("PANIC") or a + m <= USIZE_MAX:
                rep.violation("sbs_block:panic", "side-by-side row loop failed: " + ans[:200], replay)
            if model[mk] is not None:
                rep.corr_case("linenum.sbs_block", same(ans, model[mk]), dict(replay, impl=ans, model=model[mk]))
            continue
        rows, rwl, rwr, left, right, lw, rw, pl, pr = got
        if lw + 4 > pl or rw + 4 > pr:
            rep.count("sbs_block:gutter-wider-than-panel-skipped")
            continue
        hit = tuple(rwl) == tuple(wl) and tuple(rwr) == tuple(wr)
        rep.count("sbs_block:wrap-target-" + ("hit" if hit else "miss"))
        rep.count("sbs_block:wrapped" if any(x > 1 for x in rwl + rwr) else "sbs_block:unwrapped")
        if any(rl) or any(rr):
            rep.count("sbs_block:raw-line-states:" + ("wrapped" if any(x > 1 for x in rwl + rwr) else "unwrapped"))
        rep.case(key=("sbs_block", ci, m, p, tuple(al), tuple(rwl), tuple(rwr), a, c), nontrivial=(m + p >= 2),
                 sample=dict(op="sbs_block", cfg=cfgs[ci][0], al=al, wraps=[rwl, rwr], starts=[a, c], rows=rows)
                 if (rep.evaluations % 2500 == 7) else None)
        gut = decode_sbs(rows, lw, rw, pl, fl, fr)
        # correspondence
        if model[mk] is not None:
            mm = model[mk]
            ok = False
            if mm.startswith("ok "):
                f = mm.split()
                n = int(f[1])
                mg = [(unhxs(f[2 + 2 * t]), unhxs(f[3 + 2 * t])) for t in range(n)]
                ok = mg == gut and [int(f[2 + 2 * n]), int(f[3 + 2 * n])] == [left, right]
            rep.corr_case("linenum.sbs_block", ok, dict(replay, impl_gutters=gut, impl_counters=[left, right], model=mm))
        bad = sbs_oracle(fl, fr, a, c, m, p, al, rwl, rwr, rows, gut, left, right)
        if bad:
            rep.violation("sbs_block:" + bad[1], bad[0], dict(replay, rows=rows))


def sbs_oracle(fl, fr, a, c, m, p, al, rwl, rwr, rows, gut, left, right):
    """The property on one painted subhunk (side-by-side): None or (description, signature suffix).
    Every number cell of both gutters is checked, whichever placeholder it holds."""
    want = true_sbs_rows(a, c, al, rwl, rwr)
    if len(want) != len(rows):
        return (f"{len(rows)} rows painted, {len(want)} expected", "numbers-wrong")
    for t, ((lg, rg), (nums, le, re_)) in enumerate(zip(gut, want)):
        bad = sbs_row_check(fl, fr, lg, rg, nums, le, re_)
        if bad:
            return (f"row {t} (lines starting here: old/new {nums}): {bad[0]}", bad[1])
    if (left, right) != (a + m, c + p):
        return (f"counters after the subhunk ({left},{right}) != ({a + m},{c + p})", "numbers-wrong")
    return None


def parse_sbs_answer(ans):
    f = ans.split()
    rows, pos = parse_rows(f, 1)
    rwl, pos = parse_counts(f, pos)
    rwr, pos = parse_counts(f, pos)
    left, right, lw, rw, pl, pr = (int(x) for x in f[pos:pos + 6])
    return rows, rwl, rwr, left, right, lw, rw, pl, pr


# ------------------------------------------------------------------ whole hunks through a real Painter

def gen_blocks(rng, sbs, textw, raw_ok=False):
    blocks, kinds = [], []
    for _ in range(rng.randint(1, 6)):
        if rng.random() < 0.4:
            n = rng.choice([1, 1, 2, 3]) if sbs else 1
            blocks.append(("z", line_of_rows(n, textw) if n > 1 else rng.choice(["ctx", "", "  x"])))
        else:
            m, p = rng.randint(0, 4), rng.randint(0, 4)
            if m + p == 0:
                m = 1
            base = [rng.choice(["alpha beta gamma", "let x = 1;", "foo(bar, baz)", "return"]) + str(rng.randint(0, 9)) for _ in range(max(m, p))]
            minus, plus = [], []
            for i in range(m):
                t = base[i] + (" " + line_of_rows(rng.choice([2, 3]), textw) if sbs and rng.random() < 0.3 else "")
                minus.append(t)
            for j in range(p):
                t = (base[j] if rng.random() < 0.7 else "zzz qqq " + str(j)) + rng.choice(["", " more", "!"])
                if sbs and rng.random() < 0.3:
                    t += " " + line_of_rows(rng.choice([2, 3]), textw)
                plus.append(t)
            rawp = rng.choice([0.0, 0.0, 0.5, 1.0]) if raw_ok else 0.0
            blocks.append(("s", minus, plus, [rng.random() < rawp for _ in minus], [rng.random() < rawp for _ in plus]))
    return blocks


def run_blocks(ctx, rep, hook, mdl):
    rng = ctx.rng
    raw_ok = raw_lines_supported(hook)
    reqs, sticky, meta = [], [], []
    for ci in range(ctx.n(8, 40)):
        sbs = ci % 2 == 1
        fl, fr = (gen_fmt(rng, "nm"), gen_fmt(rng, "np")) if ci >= 2 else DEFAULT_FMTS[sbs]
        width = rng.choice([100, 120, 144, 160]) if sbs else rng.choice([60, 80, 100])
        args = (["-s", f"--width={width}", "--wrap-max-lines=" + rng.choice(["unlimited", "2", "6"])] if sbs else ["-n", f"--width={width}"])
        if ci >= 2:
            args += ["--line-numbers-left-format=" + fl.text(), "--line-numbers-right-format=" + fr.text()]
        sticky.append(len(reqs)); reqs.append("cfg " + " ".join(hx(x) for x in args)); meta.append(None)
        for _ in range(ctx.n(20, 120)):
            blocks = gen_blocks(rng, sbs, width // 2 - 24, raw_ok)
            a, c = gen_start(rng), gen_start(rng)
            nm = sum(len(b[1]) for b in blocks if b[0] == "s") + sum(1 for b in blocks if b[0] == "z")
            np_ = sum(len(b[2]) for b in blocks if b[0] == "s") + sum(1 for b in blocks if b[0] == "z")
            r = f"linenum.blocks 2 {a} {nm} {c} {np_} {len(blocks)}"
            for b in blocks:
                if b[0] == "z":
                    r += f" 0 {hx(b[1])}"
                else:
                    r += f" 1 {len(b[1])} " + " ".join(hxl(x, q) for x, q in zip(b[1], b[3])) + f" {len(b[2])} " + " ".join(hxl(x, q) for x, q in zip(b[2], b[4]))
                    if any(b[3]) or any(b[4]):
                        rep.count("blocks:raw-line-states:" + ("sbs" if sbs else "unified"))
            reqs.append(" ".join(r.split()))
            meta.append((ci, sbs, args, fl, fr, a, c, nm, np_, blocks))
    impl = hook.ask(reqs, sticky=sticky)
    mreqs, msticky, back, parsed = [], [], [], {}
    for k, (mt, ans) in enumerate(zip(meta, impl)):
        if mt is None:
            msticky.append(len(mreqs)); mreqs.append(reqs[k]); back.append(None)
            continue
        ci, sbs, args, fl, fr, a, c, nm, np_, blocks = mt
        if not ans.startswith("ok "):
            parsed[k] = None
            continue
        f = ans.split()
        nb, pos = int(f[1]), 2
        out, spec = [], f"linenum.blocks_rows 2 {a} {nm} {c} {np_} {nb}"
        for b in blocks:
            kind = f[pos]; pos += 1
            rows, pos = parse_rows(f, pos)
            if kind == "0":
                wr_ = int(f[pos]); pos += 1
                out.append(("z", rows, wr_))
                spec += f" 0 {wr_}"
            else:
                al, pos = parse_al(f, pos)
                wl, pos = parse_counts(f, pos)
                wr, pos = parse_counts(f, pos)
                out.append(("s", rows, al, wl, wr))
                spec += f" 1 {len(b[1])} {len(b[2])} {fmt_al(al)} {len(wl)} " + " ".join(map(str, wl)) + f" {len(wr)} " + " ".join(map(str, wr)) \
                    + " " + flags(b[3]) + " " + flags(b[4])
        left, right, lw, rw, pl, pr = (int(x) for x in f[pos:pos + 6])
        parsed[k] = (out, left, right, lw, rw, pl, pr)
        mreqs.append(" ".join(spec.split())); back.append(k)
    model = mdl.ask(mreqs, sticky=msticky) if mdl else [None] * len(mreqs)
    mans = {k: model[mk] for mk, k in enumerate(back) if k is not None}
    for k, mt in enumerate(meta):
        if mt is None:
            continue
        ci, sbs, args, fl, fr, a, c, nm, np_, blocks = mt
        replay = dict(kind="hook-blocks", cfg=args, req=reqs[k])
        rep.case(key=("blocks", tuple(args), a, c, repr(blocks)), nontrivial=len(blocks) >= 2,
                 sample=dict(op="blocks", cfg=args, starts=[a, c], blocks=blocks, impl=impl[k][:300]) if rep.evaluations % 900 == 11 else None)
        rep.count("blocks:" + ("sbs" if sbs else "unified"))
        if parsed[k] is None:
            rep.violation("blocks:panic", "Painter path failed: " + impl[k][:200], replay)
            continue
        out, left, right, lw, rw, pl, pr = parsed[k]
        if sbs and (lw + 4 > pl or rw + 4 > pr):
            rep.count("blocks:gutter-wider-than-panel-skipped")
            continue
        # decoded gutters of every row
        gut = []
        want = []
        ca, cc = a, c
        for b, o in zip(blocks, out):
            rows = o[1]
            if sbs:
                gut += decode_sbs(rows, lw, rw, pl, fl, fr)
            else:
                gut += [(col_slice(r, 0, lw), col_slice(r, lw, rw)) for r in rows]
            if b[0] == "z":
                want.append(("z", (ca, cc))); want += [("z", (None, None))] * (o[2] - 1)
                ca += 1; cc += 1
            elif sbs:
                want += [("s",) + w_ for w_ in true_sbs_rows(ca, cc, o[2], o[3], o[4])]
                ca += len(b[1]); cc += len(b[2])
            else:
                want += [("z", (ca + i, None)) for i in range(len(b[1]))]; ca += len(b[1])
                want += [("z", (None, cc + j)) for j in range(len(b[2]))]; cc += len(b[2])
        if k in mans and mans[k] is not None:
            mm, ok = mans[k], False
            if mm.startswith("ok "):
                f = mm.split()
                n = int(f[1])
                if sbs:
                    mg = [(unhxs(f[2 + 2 * t]), unhxs(f[3 + 2 * t])) for t in range(n)]
                    tail = f[2 + 2 * n:]
                    ok = mg == gut
                else:
                    mg = [unhxs(f[2 + t]) for t in range(n)]
                    tail = f[2 + n:]
                    ok = mg == [l + r for l, r in gut]
                ok = ok and [int(x) for x in tail] == [left, right]
            rep.corr_case("linenum.blocks", ok, dict(replay, impl_gutters=gut, impl_counters=[left, right], model=mm))
        bad, sig = None, "numbers-wrong"
        if len(gut) != len(want):
            bad = f"{len(gut)} rows painted, {len(want)} expected"
        else:
            for t, ((lg, rg), w_) in enumerate(zip(gut, want)):
                if w_[0] == "z":      # one line per row, the same pair in both fields / panels: exact
                    r_ = check_gutter(fl, lg, *w_[1]) or check_gutter(fr, rg, *w_[1])
                    r_ = (r_[0], "numbers-wrong") if r_ else None
                else:
                    r_ = sbs_row_check(fl, fr, lg, rg, w_[1], w_[2], w_[3])
                if r_:
                    bad, sig = f"row {t} (true old/new {w_[1]}): {r_[0]}", r_[1]
                    break
            if bad is None and (left, right) != (ca, cc):
                bad = f"counters after the hunk ({left},{right}) != ({ca},{cc})"
        if bad:
            rep.violation("blocks:" + sig + ":" + ("sbs" if sbs else "unified"), bad, dict(replay, gutters=gut))


# ------------------------------------------------------------------ binary level

WORDS = ["lorem", "ipsum", "dolor", "sit", "amet", "consectetur", "adipiscing", "elit", "sed", "do", "eiusmod", "tempor",
         "incididunt", "ut", "labore", "et", "dolore", "magna", "aliqua", "fn", "let", "mut", "return", "if", "else", "日本語", "表示"]
PATHS = ["a.txt", "src/main.rs", "dir with space/file name.py", "dëep/päth/ünï.c", "x", "Makefile", "lib/日本.txt", "a-b_c.d.e", "dev/null.txt"]
FRAGS = ["", " fn foo()", " class Bar", " impl<T> X for Y {", "   ", " @ at", " def f(x, y)"]


def gen_diff(rng, blank_ctx=False, wide=True, colour=0.0):
    """A multi-file, multi-hunk two-way diff in git format plus the truth about it."""
    files, text = [], []
    raw_lines = 0
    paths = rng.sample(PATHS, rng.randint(1, 3))
    for path in paths:
        mode = rng.choice(["mod", "mod", "mod", "rename", "add", "del"])
        old, new = path, path
        if mode == "rename":
            new = "renamed/" + path
        text.append(f"diff --git a/{old} b/{new}")
        if mode == "add":
            text += ["new file mode 100644", "index 0000000..1111111", "--- /dev/null", f"+++ b/{new}"]
            old_shown = "/dev/null"
        elif mode == "del":
            text += ["deleted file mode 100644", "index 1111111..0000000", f"--- a/{old}", "+++ /dev/null"]
        elif mode == "rename":
            text += ["similarity index 80%", f"rename from {old}", f"rename to {new}", "index 1111111..2222222 100644", f"--- a/{old}", f"+++ b/{new}"]
        else:
            text += ["index 1111111..2222222 100644", f"--- a/{old}", f"+++ b/{new}"]
        shown = old if mode == "del" else new
        hunks = []
        for _ in range(rng.randint(1, 3)):
            a, c = gen_start(rng), gen_start(rng)
            if mode == "add":
                a = 0
            if mode == "del":
                c = 0
            lines = []
            for _ in range(rng.randint(1, 5)):
                r = rng.random()
                if mode == "mod" or mode == "rename":
                    if r < 0.4:
                        lines += [" "] * rng.randint(1, 3)
                    else:
                        m, p = rng.randint(0, 4), rng.randint(0, 4)
                        if rng.random() < 0.05:
                            m, p = rng.choice([(36, 2), (2, 36), (34, 34)])
                        lines += ["-"] * m + ["+"] * p
                elif mode == "add":
                    lines += ["+"] * rng.randint(1, 5)
                else:
                    lines += ["-"] * rng.randint(1, 5)
            if not lines:
                lines = [" "]
            nb = sum(1 for k in lines if k in "- ")
            nd = sum(1 for k in lines if k in "+ ")
            if nb == 0 and mode != "add" and rng.random() < 0.5:
                pass
            co = f"-{a}" + ("" if (nb == 1 and rng.random() < 0.7) else f",{nb}") + f" +{c}" + ("" if (nd == 1 and rng.random() < 0.7) else f",{nd}")
            frag = rng.choice(FRAGS)
            header = f"@@ {co} @@{frag}"
            text.append(header)
            oa, oc = a, c
            truth = []
            filler_prev = None
            for k in lines:
                nwords = rng.choice([1, 2, 3, 6, 12, 25])
                words = [w for w in (rng.choice(WORDS) for _ in range(nwords)) if wide or w.isascii()]
                if k == "+" and filler_prev and rng.random() < 0.7:
                    words = list(filler_prev)
                    if words and rng.random() < 0.6:
                        words[rng.randrange(len(words))] = rng.choice(WORDS[:20])
                if k == "-":
                    tok, filler_prev = f"o{oa}_", words
                    truth.append(("-", oa, None, tok)); oa += 1
                elif k == "+":
                    tok = f"n{oc}_"
                    truth.append(("+", None, oc, tok)); oc += 1
                else:
                    tok, filler_prev = f"k{oa}_{oc}_", None
                    truth.append((" ", oa, oc, tok)); oa += 1; oc += 1
                body = tok + " " + " ".join(words)
                if k == " " and blank_ctx and rng.random() < 0.5:
                    # GNU diff --suppress-blank-empty / git diff.suppressBlankEmpty: an empty context
                    # line is written as an empty line. (kept with its body for the control run)
                    text.append(("blank", k + body))
                    truth[-1] = (" ", truth[-1][1], truth[-1][2], "", tok)
                elif colour and rng.random() < colour:
                    # git-coloured input: moved-line colours (non-default, so the raw line is kept in the
                    # state: HunkMinus/HunkPlus/HunkZero(_, Some(raw))), sometimes git's default colours
                    # (not kept raw), in git's own layout "<sgr><marker><reset><sgr>body<reset>" or one span
                    sgr = rng.choice({"-": ["1;35", "1;34", "31"], "+": ["1;36", "1;33", "32"], " ": ["2", "1;35"]}[k])
                    if rng.random() < 0.5:
                        text.append(f"\x1b[{sgr}m{k}\x1b[m\x1b[{sgr}m{body}\x1b[m")
                    else:
                        text.append(f"\x1b[{sgr}m{k}{body}\x1b[m")
                    raw_lines += 1
                else:
                    text.append(k + body)
            other_after = []
            if rng.random() < 0.15:
                text.append("\\ No newline at end of file")
                other_after.append(len(truth) - 1)
            hunks.append(dict(header=header, a=a, c=c, nb=nb, nd=nd, frag=frag, truth=truth, other_after=other_after))
        files.append(dict(old=("/dev/null" if mode == "add" else old), new=("/dev/null" if mode == "del" else new), shown=shown, hunks=hunks))
    diff = "\n".join("" if isinstance(t, tuple) else t for t in text) + "\n"
    control = "\n".join(t[1] if isinstance(t, tuple) else t for t in text) + "\n"
    return diff, files, control


# plain `diff -u` / `diff -ru` streams (no `diff --git` line). Here a removed line whose text starts with
# `-- ` is written `--- …` and an added line `++ …` is written `+++ …`: delta tells them from the
# `--- file` / `+++ file` header of the next section by counting the old-file lines of the hunk.
PLAIN_PATHS = ["db/schema.sql", "src/init.lua", "Main.hs", "pkg/body.adb", "README.md", "mail/signature.txt", "a b/with space.sql",
               "lib/日本.lua", "x"]
STAMPS = ["\t2024-03-01 10:00:00.000000000 +0000", "\t2024-03-02 10:00:00.123456789 +0100", "\tFri Mar  1 10:00:00 2024", ""]
# what follows the look-alike marker in the text of the line (after it: the line's token)
MINUS_LOOKALIKE = ["-- ", "-- ", "-- ", "--  ", "-- a/", "-- old/"]      # input line `--- …`
PLUS_LOOKALIKE = ["++ ", "++ ", "++  ", "++ b/", "++ new/"]                # input line `+++ …`
NEAR_MISS = {"-": ["--", "-", "--- ", "-@@ "], "+": ["++", "+", "+++ ", "+@@ "], " ": ["-- ", "++ ", "--- ", "@@ -1 +1 @@ "]}


def gen_plain(rng, wide=True):
    """A plain `diff -u` (one comparison), `diff -ru` (command line before each section, `Only in` lines)
    or concatenated-plain-diffs stream with the truth about it. Hunks contain marker look-alike bodies
    (`--- x` removed lines, `+++ x` added lines), many of them after several added lines, i.e. at a
    point where fewer old-file lines are still to come than added lines have been seen."""
    style = rng.choice(["u", "u", "ru", "ru", "ru-N", "concat"])
    nfiles = 1 if (style == "u" and rng.random() < 0.5) else rng.randint(2, 3)
    files, text = [], []
    lookalike = False
    after_adds = False
    for fi, rel in enumerate(rng.sample(PLAIN_PATHS, nfiles)):
        if not wide and not rel.isascii():
            rel = "plain.txt"
        stamp = rng.choice(STAMPS)
        if " " in rel and not stamp:
            stamp = STAMPS[0]          # a name with a space is only delimited by the TAB of the time stamp
        if style.startswith("ru"):
            old, new = "old/" + rel, "new/" + rel
            if fi and rng.random() < 0.3:
                text.append(f"Only in {rng.choice(['old', 'new'])}/{rng.choice(['db', 'src', 'doc'])}: {rng.choice(['gone.txt', 'fresh.lua'])}")
            text.append(rng.choice(["diff -ru", "diff -ru", "diff -r -u", "diff -u -r", "diff -U3 -r", "diff -urN"]) + f" {old} {new}")
        elif style == "u":
            old, new = (rel + ".orig", rel) if rng.random() < 0.5 else ("a/" + rel, "b/" + rel)
        else:
            old, new = rng.choice([("a/" + rel, "b/" + rel), (rel, rel), ("v1/" + rel, "v2/" + rel)])
        mode = "mod"
        if style == "ru-N" and rng.random() < 0.4:
            mode = rng.choice(["add", "del"])
        text += [f"--- {old}{stamp}", f"+++ {new}{stamp}"]
        hunks = []
        for _ in range(rng.randint(1, 3)):
            a, c = gen_start(rng), gen_start(rng)
            kinds = []          # (kind, look-alike)
            if mode == "add":
                a = 0
                kinds = [("+", rng.random() < 0.3) for _ in range(rng.randint(1, 6))]
            elif mode == "del":
                c = 0
                kinds = [("-", rng.random() < 0.3) for _ in range(rng.randint(1, 6))]
            elif rng.random() < 0.6:
                # the shape that needs the counter to count old-file lines only: unchanged lines, then
                # several added lines, then (after 0-2 more lines) a removed line `-- x`, then a few
                # more old-file lines
                kinds += [(" ", False)] * rng.randint(0, 2)
                kinds += [("-", rng.random() < 0.2)] * rng.randint(0, 1)
                kinds += [("+", rng.random() < 0.2) for _ in range(rng.randint(1, 9))]
                kinds += [(" ", False)] * rng.randint(0, 2)
                kinds += [("-", True)] * rng.randint(1, 2)
                kinds += [("+", rng.random() < 0.5)] * rng.randint(0, 2)
                kinds += [(rng.choice(" -"), rng.random() < 0.2) for _ in range(rng.randint(0, 4))]
                after_adds = True
            else:
                for _ in range(rng.randint(1, 5)):
                    if rng.random() < 0.4:
                        kinds += [(" ", False)] * rng.randint(1, 3)
                    else:
                        kinds += [("-", rng.random() < 0.25) for _ in range(rng.randint(0, 4))]
                        kinds += [("+", rng.random() < 0.25) for _ in range(rng.randint(0, 4))]
                if not kinds:
                    kinds = [(" ", False)]
            nb = sum(1 for k, _ in kinds if k in "- ")
            nd = sum(1 for k, _ in kinds if k in "+ ")
            co = f"-{a}" + ("" if (nb == 1 and rng.random() < 0.7) else f",{nb}") + f" +{c}" + ("" if (nd == 1 and rng.random() < 0.7) else f",{nd}")
            frag = rng.choice(FRAGS) if rng.random() < 0.3 else ""      # `diff -up`
            header = f"@@ {co} @@{frag}"
            text.append(header)
            oa, oc = a, c
            truth = []
            last_old = max((i for i, (k, _) in enumerate(kinds) if k in "- "), default=-1)
            last_new = max((i for i, (k, _) in enumerate(kinds) if k in "+ "), default=-1)
            nonl = rng.random() < 0.15
            other_after = []
            for i, (k, look) in enumerate(kinds):
                nwords = rng.choice([1, 2, 3, 6, 12, 25])
                words = [w for w in (rng.choice(WORDS) for _ in range(nwords)) if wide or w.isascii()]
                pre = ""
                if look and k == "-":
                    pre, lookalike = rng.choice(MINUS_LOOKALIKE), True
                elif look and k == "+":
                    pre, lookalike = rng.choice(PLUS_LOOKALIKE), True
                elif rng.random() < 0.08:
                    pre = rng.choice(NEAR_MISS[k])
                if k == "-":
                    tok = f"o{oa}_"
                    truth.append(("-", oa, None, pre + tok)); oa += 1
                elif k == "+":
                    tok = f"n{oc}_"
                    truth.append(("+", None, oc, pre + tok)); oc += 1
                else:
                    tok = f"k{oa}_{oc}_"
                    truth.append((" ", oa, oc, pre + tok)); oa += 1; oc += 1
                text.append(k + pre + tok + " " + " ".join(words))
                if nonl and ((i == last_old and k == "-") or (i == last_new and i == len(kinds) - 1)):
                    text.append("\\ No newline at end of file")
                    other_after.append(i)
            hunks.append(dict(header=header, a=a, c=c, nb=nb, nd=nd, frag=frag, truth=truth, other_after=other_after))
        files.append(dict(old=old, new=new, shown=new, hunks=hunks))
    diff = "\n".join(text) + "\n"
    return diff, files, dict(style=style, lookalike=lookalike, after_adds=after_adds)


def strip_ansi(b):
    return ANSI.sub("", b.decode("utf-8", "replace"))


# a line's token at the start of a row's text: after the marker column (when markers are kept) and after
# the dashes / pluses of a marker look-alike text (`-- o12_ …`, `++ n7_ …`, near misses `--o12_ …`)
TOK = re.compile(r"^ ?[-+ ]?(?:-{1,3} {0,2}(?:a/|old/)?|\+{1,3} {0,2}(?:b/|new/)?|-?@@ (?:-1 \+1 @@ )?|\+@@ )?([onk])(\d+)_(?:(\d+)_)?")
TOKP = re.compile(r"^ ?[-+ ]?(?:-{1,3} {0,2}(?:a/|old/)?|\+{1,3} {0,2}(?:b/|new/)?|-?@@ (?:-1 \+1 @@ )?|\+@@ )?[onk]\d")


def check_binary_case(ctx, case):
    """Run one generated diff through the real binary in one view and evaluate the property.
    Returns dict(fail=None|(signature, what), hunks=[decoded per hunk], raw=...)."""
    args, diff, files, sbs, fl, fr, width = case["args"], case["diff"], case["files"], case["sbs"], case["fl"], case["fr"], case["width"]
    rc, out, err = ctx.run_delta(args, diff.encode())
    res = dict(fail=None, hunks=[], rc=rc)
    if rc != 0:
        res["fail"] = ("binary:exit-" + str(rc), "delta failed: " + err.decode("utf-8", "replace")[-300:])
        return res
    rows = strip_ansi(out).split("\n")
    # segment at hunk-header rows
    segs, cur = [], None
    for r in rows:
        if r.startswith("HUNK@ "):
            cur = dict(head=r, rows=[])
            segs.append(cur)
        elif cur is not None:
            cur["rows"].append(r)
    truth = [(f, h) for f in files for h in f["hunks"]]
    if len(segs) != len(truth):
        res["fail"] = ("binary:hunk-count", f"{len(segs)} hunk headers shown, {len(truth)} hunks in the input")
        return res
    keep = 1 if "--keep-plus-minus-markers" in args else 0
    for seg, (f, h) in zip(segs, truth):
        minw = digits_width([(h["a"], h["nb"]), (h["c"], h["nd"])])
        # ---- hunk header: position and path
        m = re.match(r"^HUNK@ (.*?):(\d+): ?(.*)$", seg["head"])
        dec = dict(head=seg["head"], numbers=[])
        res["hunks"].append(dec)
        if not m:
            res["fail"] = ("header:undecodable", "hunk header row not understood: " + seg["head"])
            return res
        dec["path"], dec["number"] = m.group(1), int(m.group(2))
        if m.group(1) != f["shown"]:
            res["fail"] = ("header:path-wrong", f"header shows path {m.group(1)!r}, hunk belongs to {f['shown']!r}")
            return res
        if int(m.group(2)) != h["c"]:
            res["fail"] = ("header:number-wrong", f"header shows line {m.group(2)}, new-file start is {h['c']}")
            return res
        # ---- rows of the hunk: everything after the header row up to the first empty row, except
        # the "\\ No newline at end of file" marker (selected by position, not by the gutter's
        # looks: a format may be empty)
        hrows = []
        for r in seg["rows"]:
            if r == "":
                break
            if r.startswith("\\ No newline"):
                continue
            hrows.append(r)
        lre = re.compile("^" + fl.regex("l"))
        rre = re.compile("^" + fr.regex("r"))
        shown_rows = []
        for r in hrows:
            ml = lre.match(r)
            if not ml:
                res["fail"] = (("sbs" if sbs else "unified") + ":row-undecodable", f"row {r[:60]!r} does not start with a left number field of format {fl.text()!r}")
                return res
            if sbs:
                # the right panel starts at column width/2; a truncated wide character can shift
                # it by one column (panel geometry is C07's subject): try the neighbours too
                mr = None
                for off in (0, -1, 1):
                    lpanel = col_slice(r, 0, width // 2 + off)
                    rpanel = col_slice(r, width // 2 + off)
                    mr = rre.match(rpanel)
                    if mr:
                        break
                if not mr:
                    res["fail"] = ("sbs:row-undecodable", f"right panel of row {r[:80]!r} does not start with a number field of format {fr.text()!r}")
                    return res
                lcont, rcont = lpanel[ml.end():], rpanel[mr.end():]
                shown_rows.append((ml, mr, lcont, rcont))
            else:
                mr = rre.match(r[ml.end():])
                if not mr:
                    res["fail"] = ("unified:row-undecodable", f"row {r[:60]!r}: no right number field of format {fr.text()!r}")
                    return res
                cont = r[ml.end() + mr.end():]
                shown_rows.append((ml, mr, cont, cont))

        def first(cells_, kind):
            return next((num for k_, num, _ in cells_ if k_ == kind), None)

        def field_ok(cells_, f_):
            # pad_width on the binary: every number cell has width max(spec width, hunk width, digits)
            for i, (_, _, txt) in enumerate(cells_):
                w = max(f_.spec_width(i), minw)
                if len(txt) != max(w, len(txt.strip())):
                    return f"number cell {txt!r} has width {len(txt)}, expected {max(w, len(txt.strip()))}"
            return None

        old_seq = [t for t in h["truth"] if t[0] in "- "]
        new_seq = [t for t in h["truth"] if t[0] in "+ "]
        if not sbs:
            lines = [t for t in h["truth"]]
            if len(shown_rows) != len(lines):
                res["fail"] = ("unified:row-count", f"{len(shown_rows)} rows for {len(lines)} hunk lines")
                return res
            for t, (ml, mr, cont, _) in zip(lines, shown_rows):
                if (t[3] == "" and cont.strip(" +-") != "") or not cont[keep:].startswith(t[3]):
                    res["fail"] = ("unified:row-order", f"row {cont[:30]!r} does not start the expected line {t[3]!r}")
                    return res
                cl, cr = cell_list(fl, ml, "l"), cell_list(fr, mr, "r")
                dec["numbers"].append((first(cl, "nm"), first(cr, "np")))
                bad = cells_wrong(cl, t[1], t[2]) or cells_wrong(cr, t[1], t[2])
                if bad:
                    res["fail"] = ("unified:numbers-wrong", f"line {t[3]!r} ({t[0]!r}, true old={t[1]} new={t[2]}): {bad[0]}")
                    return res
                w = field_ok(cl, fl) or field_ok(cr, fr)
                if w:
                    res["fail"] = ("unified:field-width", w)
                    return res
        else:
            seen_old, seen_new = [], []
            for ml, mr, lcont, rcont in shown_rows:
                cl, cr = cell_list(fl, ml, "l"), cell_list(fr, mr, "r")
                tl, tr = TOK.match(lcont), TOK.match(rcont)
                if any(TOKP.match(x) and not (y and (y.group(1) != "k" or y.group(3))) for x, y in ((lcont, tl), (rcont, tr))):
                    res["skip"] = "a line token is cut off by the panel edge"
                    return res
                if case.get("plain") and any(not y and re.match(r"^ ?[-+ ]?[-+@]", x) for x, y in ((lcont, tl), (rcont, tr))):
                    # a marker look-alike / near-miss prefix (`-- `, `++ `, `@@ -1 +1 @@ `, …) is in view but the
                    # token behind it is not: the panel is only a few columns wide
                    res["skip"] = "a line token is cut off by the panel edge"
                    return res
                # what each panel must show, from the line that starts in it (None = blank)
                exp_l, exp_r = (None, None), (None, None)
                if tl and tl.group(1) == "o":
                    exp_l = (int(tl.group(2)), None); seen_old.append(("o", exp_l[0]))
                elif tl and tl.group(1) == "k":
                    exp_l = (int(tl.group(2)), int(tl.group(3))); seen_old.append(("k", exp_l[0]))
                if tr and tr.group(1) == "n":
                    exp_r = (None, int(tr.group(2))); seen_new.append(("n", exp_r[1]))
                elif tr and tr.group(1) == "k":
                    exp_r = (int(tr.group(2)), int(tr.group(3))); seen_new.append(("k", exp_r[1]))
                # an empty context line (input written without the leading space; such inputs use the
                # default formats): both panels empty, both numbers shown; it takes its place in the
                # line sequences checked below
                if case.get("blank") and not tl and not tr and lcont.strip(" +-") == "" and rcont.strip(" +-") == "" \
                        and first(cl, "nm") is not None and first(cr, "np") is not None:
                    exp_l = exp_r = (first(cl, "nm"), first(cr, "np"))
                    seen_old.append(("k", exp_l[0])); seen_new.append(("k", exp_r[1]))
                # numbers of the lines that start in this row; a panel's own placeholder is exact, the
                # other placeholder may also be blank
                nums = (exp_l[0] if exp_l[0] is not None else exp_r[0], exp_r[1] if exp_r[1] is not None else exp_l[1])
                for cells_, own_, cont_ in ((cl, "nm", lcont), (cr, "np", rcont)):
                    bad = cells_wrong(cells_, nums[0], nums[1], own_)
                    if bad:
                        sig = CROSS_SIG if (bad[1] and cont_.strip(" +-") == "") else "numbers-wrong"
                        res["fail"] = ("sbs:" + sig, f"row L={lcont[:24]!r} R={rcont[:24]!r} (lines starting here: old/new {nums}), "
                                       + ("left" if own_ == "nm" else "right") + " panel: " + bad[0])
                        return res
                w = field_ok(cl, fl) or field_ok(cr, fr)
                if w:
                    res["fail"] = ("sbs:field-width", w)
                    return res
                dec["numbers"].append((exp_l, exp_r))
                # what the two own cells of the row show (first {nm} of the left field, first {np} of the right one)
                dec.setdefault("shown", []).append((first(cl, "nm"), first(cr, "np")))
            want_old = [(("k" if t[0] == " " else "o"), t[1]) for t in old_seq]
            want_new = [(("k" if t[0] == " " else "n"), t[2]) for t in new_seq]
            if seen_old != want_old or seen_new != want_new:
                res["fail"] = ("sbs:line-sequence", f"old lines shown {seen_old[:8]}… expected {want_old[:8]}…; new shown {seen_new[:8]}… expected {want_new[:8]}…")
                return res
    return res


def make_binary_cases(ctx, count):
    rng = ctx.rng
    cases = []
    for i in range(count):
        blank = (i % 25 == 24)
        # lines kept raw in the hunk states: by style (`raw`) or because the input carries colours
        rawmode = None if blank else rng.choice([None, None, None, "colour", "colour", "minus", "plus", "zero", "minus+plus", "all"])
        diff, files, control = gen_diff(rng, blank_ctx=blank, wide=rng.random() < 0.5,
                                        colour=(rng.choice([0.3, 0.6, 1.0]) if rawmode == "colour" else 0.0))
        base = ["--no-gitconfig", "--paging=never", "--hunk-header-style=file line-number", "--hunk-header-decoration-style=none",
                "--hunk-label=HUNK@"]
        lbs = rng.choice([32, 32, 0, 1, 2, 3])
        if lbs != 32:
            base.append(f"--line-buffer-size={lbs}")
        if rawmode == "colour":
            base.append("--inspect-raw-lines=true")
        elif rawmode:
            for side in ("minus", "plus", "zero"):
                if side in rawmode or rawmode == "all":
                    base.append(f"--{side}-style=raw")
        for sbs in (False, True):
            custom = rng.random() < 0.6 and not blank     # empty-context-line inputs: default formats
            fl, fr = (gen_fmt(rng, "nm"), gen_fmt(rng, "np")) if custom else DEFAULT_FMTS[sbs]
            width = rng.choice([100, 120, 160, 200]) if sbs else rng.choice([60, 80, 200])
            args = list(base) + ([f"--width={width}", "-s", "--wrap-max-lines=" + rng.choice(["unlimited", "2", "4", "0"])] if sbs else ["-n", f"--width={width}"])
            if custom:
                args += ["--line-numbers-left-format=" + fl.text(), "--line-numbers-right-format=" + fr.text()]
            if rng.random() < 0.2 and not rawmode:
                args.append("--keep-plus-minus-markers")
            cases.append(dict(id=i, args=args, diff=diff, files=files, sbs=sbs, fl=fl, fr=fr, width=width, blank=blank, lbs=lbs, control=control,
                              rawmode=rawmode))
    return cases


def make_plain_cases(ctx, count):
    """plain `diff -u` / `diff -ru` streams in the unified and the side-by-side view"""
    rng = ctx.rng
    cases = []
    for i in range(count):
        diff, files, info = gen_plain(rng, wide=rng.random() < 0.4)
        base = ["--no-gitconfig", "--paging=never", "--hunk-header-style=file line-number", "--hunk-header-decoration-style=none",
                "--hunk-label=HUNK@"]
        lbs = rng.choice([32, 32, 32, 0, 1, 2, 3])
        if lbs != 32:
            base.append(f"--line-buffer-size={lbs}")
        for sbs in (False, True):
            custom = rng.random() < 0.4
            fl, fr = (gen_fmt(rng, "nm"), gen_fmt(rng, "np")) if custom else DEFAULT_FMTS[sbs]
            width = rng.choice([100, 120, 160, 200, 400]) if sbs else rng.choice([60, 80, 200])
            args = list(base) + ([f"--width={width}", "-s", "--wrap-max-lines=" + rng.choice(["unlimited", "2", "4", "0"])] if sbs else ["-n", f"--width={width}"])
            if custom:
                args += ["--line-numbers-left-format=" + fl.text(), "--line-numbers-right-format=" + fr.text()]
            if rng.random() < 0.2:
                args.append("--keep-plus-minus-markers")
            cases.append(dict(id=10 ** 6 + i, args=args, diff=diff, files=files, sbs=sbs, fl=fl, fr=fr, width=width, blank=False, lbs=lbs,
                              control=None, rawmode=None, plain=info))
    return cases


def case_replay(case):
    return dict(kind="binary", args=case["args"], diff=case["diff"], sbs=case["sbs"], width=case["width"],
                fl=case["fl"].parts, fr=case["fr"].parts, files=case["files"], blank=case["blank"], lbs=case["lbs"],
                control=case.get("control"), plain=case.get("plain"))


def whole_request(case):
    """`linenum.whole <line-buffer-size> <n> {N x<minus file> x<plus file> | H x<@@ line> | L <0 - | 1 + | 2 unchanged | 3 other>}*`"""
    items = []
    for f in case["files"]:
        items.append(f"N {hx(f['old'])} {hx(f['new'])}")
        for h in f["hunks"]:
            items.append("H " + hx(h["header"]))
            for i, t in enumerate(h["truth"]):
                items.append("L " + str({"-": 0, "+": 1, " ": 2}[t[0]]))
                if i in h["other_after"]:
                    items.append("L 3")
    return f"linenum.whole {case['lbs']} {len(items)} " + " ".join(items)


def whole_compare(case, decs, mm):
    """model rows of the whole input vs what the real binary showed: per hunk the header row (path, position), the
    width of the number fields (the oracle has checked every cell of the binary against it), and - unified view -
    the numbers of every row"""
    if not mm.startswith("ok "):
        return False, "model: " + mm[:80]
    fs = mm.split()
    n, pos, hunks = int(fs[1]), 2, []
    for _ in range(n):
        if fs[pos] == "H":
            hunks.append(dict(path=unhxs(fs[pos + 1]), number=int(fs[pos + 2]), rows=[], widths=set()))
            pos += 3
        elif fs[pos] == "R":
            if not hunks:
                return False, "model: row before the first header"
            hunks[-1]["widths"].add(int(fs[pos + 1]))
            pos += 3
        else:
            if not hunks:
                return False, "model: row before the first header"
            hunks[-1]["rows"].append((None if fs[pos + 1] == "-" else int(fs[pos + 1]), None if fs[pos + 2] == "-" else int(fs[pos + 2])))
            hunks[-1]["widths"].add(int(fs[pos + 3]))
            pos += 5
    truth = [(f, h) for f in case["files"] for h in f["hunks"]]
    if len(hunks) != len(truth) or len(decs) != len(truth):
        return False, f"{len(hunks)} header rows in the model, {len(decs)} shown, {len(truth)} hunks"
    has_nm = any(q[0] == "ph" and q[1] == "nm" for q in case["fl"].parts)
    has_np = any(q[0] == "ph" and q[1] == "np" for q in case["fr"].parts)
    for i, (mh, dec, (f, h)) in enumerate(zip(hunks, decs, truth)):
        if (mh["path"], mh["number"]) != (dec["path"], dec["number"]):
            return False, f"hunk {i}: model header {mh['path']!r}:{mh['number']}, shown {dec['path']!r}:{dec['number']}"
        if mh["widths"] != {digits_width([(h["a"], h["nb"]), (h["c"], h["nd"])])}:
            return False, f"hunk {i}: model field widths {sorted(mh['widths'])}, the cells shown have {digits_width([(h['a'], h['nb']), (h['c'], h['nd'])])}"
        if not case["sbs"]:
            nums = [(a if has_nm else None, b if has_np else None) for a, b in mh["rows"]]
            if nums != [tuple(x) for x in dec["numbers"]]:
                return False, f"hunk {i}: model numbers {nums[:6]}, shown {[tuple(x) for x in dec['numbers']][:6]}"
    return True, ""


def sbs_entries(shown):
    """display rows of one hunk -> [(old number | None, new number | None, rows)]: a row that shows a number starts an
    entry, the blank rows after it are its continuation rows"""
    ents = []
    for l, r in shown:
        if l is None and r is None:
            if not ents:
                return None
            ents[-1][2] += 1
        else:
            ents.append([l, r, 1])
    return ents


def whole_request_sbs(case, decs):
    """`linenum.whole_sbs <line-buffer-size> <n> {N x<minus file> x<plus file> | H x<@@ line> |
    L <kind> <display rows> <raw> <tag>}*` — the whole generated input; per line the number of display rows the binary
    used for it and, as tags, which removed line it paired with which added line (both read off the binary's rows:
    wrapping is C07's subject, the alignment C06's); everything else — where the flushes fall, which block a line is
    painted in, every number — is computed by `WholeSbs.runWholeSbs`. None: the rows cannot be read that way."""
    rm = case.get("rawmode") or ""
    raw = {"-": int(rm in ("colour", "all") or "minus" in rm), "+": int(rm in ("colour", "all") or "plus" in rm),
           " ": int(rm in ("colour", "all") or "zero" in rm)}
    items = []
    truth = [(f, h) for f in case["files"] for h in f["hunks"]]
    if len(decs) != len(truth):
        return None
    k = 0
    for f in case["files"]:
        items.append(f"N {hx(f['old'])} {hx(f['new'])}")
        for h in f["hunks"]:
            ents = sbs_entries(decs[k].get("shown", []))
            k += 1
            if ents is None:
                return None
            ctx_old = {t[1] for t in h["truth"] if t[0] == " "}
            rows_old, rows_new, tag_old = {}, {}, {}
            for l, r, n in ents:
                if l is not None:
                    rows_old[l] = n
                if r is not None:
                    rows_new[r] = n
                if l is not None and r is not None and l not in ctx_old:
                    tag_old[l] = r + 1
            items.append("H " + hx(h["header"]))
            for i, t in enumerate(h["truth"]):
                if t[0] == "-":
                    items.append(f"L 0 {rows_old.get(t[1], 1)} {raw['-']} {tag_old.get(t[1], 0)}")
                elif t[0] == "+":
                    items.append(f"L 1 {rows_new.get(t[2], 1)} {raw['+']} {t[2] + 1}")
                else:
                    items.append(f"L 2 {rows_old.get(t[1], 1)} {raw[' ']} 0")
                if i in h["other_after"]:
                    items.append("L 3 1 0 0")
    return f"linenum.whole_sbs {case['lbs']} {len(items)} " + " ".join(items)


def whole_compare_sbs(case, decs, mm):
    """model rows of a whole side-by-side run vs what the real binary showed: per hunk the header row (path, position),
    the width of the number fields, and for EVERY display row the number in the left panel's {nm} cell and in the
    right panel's {np} cell (wrapped continuation rows and empty halves included)"""
    if not mm.startswith("ok "):
        return False, "model: " + mm[:80]
    fs = mm.split()
    n, pos, hunks = int(fs[1]), 2, []
    for _ in range(n):
        if fs[pos] == "H":
            hunks.append(dict(path=unhxs(fs[pos + 1]), number=int(fs[pos + 2]), rows=[], widths=set()))
            pos += 3
            continue
        if not hunks:
            return False, "model: row before the first header"
        if fs[pos] == "P":
            hunks[-1]["widths"].add(int(fs[pos + 1]))
            pos += 3
        else:
            hunks[-1]["rows"].append((None if fs[pos + 1] == "-" else int(fs[pos + 1]), None if fs[pos + 2] == "-" else int(fs[pos + 2])))
            hunks[-1]["widths"].add(int(fs[pos + 3]))
            pos += 5
    truth = [(f, h) for f in case["files"] for h in f["hunks"]]
    if len(hunks) != len(truth) or len(decs) != len(truth):
        return False, f"{len(hunks)} header rows in the model, {len(decs)} shown, {len(truth)} hunks"
    for i, (mh, dec, (f, h)) in enumerate(zip(hunks, decs, truth)):
        if (mh["path"], mh["number"]) != (dec["path"], dec["number"]):
            return False, f"hunk {i}: model header {mh['path']!r}:{mh['number']}, shown {dec['path']!r}:{dec['number']}"
        if mh["widths"] != {digits_width([(h["a"], h["nb"]), (h["c"], h["nd"])])}:
            return False, f"hunk {i}: model field widths {sorted(mh['widths'])}, the cells shown have {digits_width([(h['a'], h['nb']), (h['c'], h['nd'])])}"
        shown = [tuple(x) for x in dec.get("shown", [])]
        if mh["rows"] != shown:
            j = next((j for j, (x, y) in enumerate(zip(mh["rows"], shown)) if x != y), min(len(mh["rows"]), len(shown)))
            return False, f"hunk {i}: {len(mh['rows'])} model rows, {len(shown)} shown; first difference at row {j}: model {mh['rows'][j:j + 3]}, shown {shown[j:j + 3]}"
    return True, ""


def eval_binary(ctx, rep, cases, mdl):
    results = parallel_map(lambda c: check_binary_case(ctx, c), cases)
    mreqs, mmeta = [], []
    for case, res in zip(cases, results):
        view = "sbs" if case["sbs"] else "unified"
        nh = sum(len(f["hunks"]) for f in case["files"])
        nl = sum(len(h["truth"]) for f in case["files"] for h in f["hunks"])
        rep.case(key=("binary", view, tuple(case["args"]), case["diff"]), nontrivial=(nh >= 2 and nl >= 4),
                 sample=dict(op="binary", args=case["args"], diff=case["diff"][:600]) if case["id"] % 97 == 3 and not case["sbs"] else None)
        rep.count(f"binary:{view}")
        if case.get("rawmode"):
            rep.count(f"binary:raw-lines:{case['rawmode']}:{view}")
        plain = case.get("plain")
        if plain:
            rep.count(f"binary:plain-diff:{plain['style']}:{view}")
            if plain["lookalike"]:
                rep.count(f"binary:plain-diff:marker-lookalike-body:{view}")
            if plain["after_adds"]:
                rep.count(f"binary:plain-diff:lookalike-after-added-lines:{view}")
        lk = [q[1] for q in case["fl"].parts if q[0] == "ph"]
        rk = [q[1] for q in case["fr"].parts if q[0] == "ph"]
        for cond, name in (("np" in lk, "np-in-left-format"), ("nm" in rk, "nm-in-right-format"),
                           (len(set(lk)) == 2 or len(set(rk)) == 2, "both-in-one-column"),
                           (len(lk) != len(set(lk)) or len(rk) != len(set(rk)), "repeated-placeholder"),
                           (not case["fl"].parts or not case["fr"].parts, "empty-format"),
                           (not lk or not rk, "format-without-placeholder")):
            if cond:
                rep.count(f"binary:fmt:{name}:{view}")
        rep.count(f"binary:hunks", nh)
        rep.count(f"binary:lines", nl)
        if case["blank"]:
            rep.count("binary:suppress-blank-empty-input")
        if res.get("skip"):
            rep.count("binary:skipped:" + res["skip"])
            continue
        if res["fail"]:
            sig, what = res["fail"]
            if plain and CROSS_SIG not in sig:
                # plain `diff -u` input; with bodies that look like `--- ` / `+++ ` header lines when it has them
                # (the cross-placeholder finding does not depend on the kind of input: its signature stays)
                sig = "plain-diff:" + ("marker-lookalike-body:" if plain["lookalike"] else "") + sig
                what = f"plain diff input (style {plain['style']}): " + what
            if case["blank"] and case.get("control"):
                # is the failure caused by the empty context lines alone? control run: the same diff
                # with those lines written the ordinary way
                cfiles = [dict(f, hunks=[dict(h, truth=[(t[0], t[1], t[2], t[4] if len(t) > 4 else t[3]) for t in h["truth"]])
                                         for h in f["hunks"]]) for f in case["files"]]
                r2 = check_binary_case(ctx, dict(case, diff=case["control"], files=cfiles, blank=False))
                if r2["fail"] is None:
                    sig = "empty-context-line-not-counted:" + view
            rep.violation(sig, what, case_replay(case))
            continue
        # correspondence with the model: header (both views) and the row numbers (unified view)
        for (f, h), dec in zip([(f, h) for f in case["files"] for h in f["hunks"]], res["hunks"]):
            mreqs.append(f"linenum.header {hx(f['old'])} {hx(f['new'])} {hx(h['header'])}")
            mmeta.append(("header", case, f, h, dec))
            if not case["sbs"] and not case["blank"]:
                kinds = [{"-": 0, "+": 1, " ": 2}[t[0]] for t in h["truth"]]
                mreqs.append(f"linenum.unified_hunk {case['lbs']} {h['a']} {h['c']} {len(kinds)} " + " ".join(map(str, kinds)))
                mreqs[-1] = mreqs[-1].strip()
                mmeta.append(("rows", case, f, h, dec))
        # the whole input through the model of the per-hunk re-initialisation (Whole.runWhole): file names, every
        # `@@` line as text, every hunk line by kind, `\ No newline` lines where they stand
        if not case["blank"] and all("other_after" in h for f in case["files"] for h in f["hunks"]):
            mreqs.append(whole_request(case))
            mmeta.append(("whole", case, None, None, res["hunks"]))
            # side-by-side view: the same input through `WholeSbs.runWholeSbs`, every display row compared
            if case["sbs"]:
                has_nm = any(q[0] == "ph" and q[1] == "nm" for q in case["fl"].parts)
                has_np = any(q[0] == "ph" and q[1] == "np" for q in case["fr"].parts)
                req = whole_request_sbs(case, res["hunks"]) if has_nm and has_np else None
                if req is None:
                    rep.count("binary.whole_sbs:skipped:" + ("rows-not-readable" if has_nm and has_np else "format-without-own-placeholder"))
                else:
                    mreqs.append(req)
                    mmeta.append(("whole_sbs", case, None, None, res["hunks"]))
    if mdl and mreqs:
        model = mdl.ask(mreqs)
        for (op, case, f, h, dec), mm in zip(mmeta, model):
            ok = False
            if op == "whole":
                ok, why = whole_compare(case, dec, mm)
                rep.count("binary.whole:" + ("sbs" if case["sbs"] else "unified"))
                rep.corr_case("binary.whole", ok, dict(kind="binary-whole", args=case["args"], diff=case["diff"][:1500], why=why, model=mm[:600]))
                continue
            if op == "whole_sbs":
                ok, why = whole_compare_sbs(case, dec, mm)
                shown = [x for d in dec for x in d.get("shown", [])]
                rep.count("binary.whole_sbs:runs")
                rep.count("binary.whole_sbs:rows", len(shown))
                rep.count("binary.whole_sbs:continuation-rows", sum(1 for x in shown if x == (None, None)))
                rep.count("binary.whole_sbs:paired-rows", sum(1 for x in shown if x[0] is not None and x[1] is not None))
                rep.count("binary.whole_sbs:half-empty-rows", sum(1 for x in shown if (x[0] is None) != (x[1] is None)))
                if case["lbs"] != 32:
                    rep.count("binary.whole_sbs:small-line-buffer")
                rep.corr_case("binary.whole_sbs", ok, dict(kind="binary-whole-sbs", args=case["args"], diff=case["diff"][:1500], why=why, model=mm[:600]))
                continue
            if op == "header":
                # git strips the a/ b/ prefixes before delta stores the paths
                if mm.startswith("ok ") and mm != "ok none":
                    fs = mm.split()
                    ok = int(fs[1]) == dec["number"] and unhxs(fs[2]) == dec["path"] and (int(fs[3]), int(fs[4])) == (h["a"], h["c"])
                rep.corr_case("binary.header", ok, dict(kind="binary-header", header=h["header"], old=f["old"], new=f["new"], shown=dec, model=mm))
            else:
                if mm.startswith("ok "):
                    fs = mm.split()
                    n = int(fs[1])
                    nums = [(None if fs[2 + 2 * t] == "-" else int(fs[2 + 2 * t]), None if fs[3 + 2 * t] == "-" else int(fs[3 + 2 * t])) for t in range(n)]
                    has_nm = any(q[0] == "ph" and q[1] == "nm" for q in case["fl"].parts)
                    has_np = any(q[0] == "ph" and q[1] == "np" for q in case["fr"].parts)
                    nums = [(a if has_nm else None, b if has_np else None) for a, b in nums]
                    ok = nums == [tuple(x) for x in dec["numbers"]]
                rep.corr_case("binary.unified_rows", ok, dict(kind="binary-rows", header=h["header"], args=case["args"], shown=dec["numbers"], model=mm[:400]))


def run_binary(ctx, rep, mdl):
    cases = make_binary_cases(ctx, ctx.n(300, 6000))
    eval_binary(ctx, rep, cases, mdl)
    eval_binary(ctx, rep, make_plain_cases(ctx, ctx.n(120, 2500)), mdl)
    # panics in the numbering code (reported here, owned by C03): overflow of the counters
    probes = [("@@ -18446744073709551615,1 +1 @@", "-a\n+b\n"), ("@@ -18446744073709551615,0 +18446744073709551614,1 @@", "+a\n+b\n")]
    for hd, body in probes:
        diff = f"diff --git a/f b/f\n--- a/f\n+++ b/f\n{hd}\n{body}"
        rc, out, err = ctx.run_delta(["--no-gitconfig", "--paging=never", "-n"], diff.encode())
        rep.count("binary:overflow-probe:" + ("panic" if rc != 0 else "ok"))
        msg = [l for l in err.decode("utf-8", "replace").split("\n") if "panicked" in l or "overflow" in l][:2]
        rep.notes.setdefault("overflow_probes", []).append(dict(header=hd, rc=rc, stderr=" | ".join(msg)[:200]))


# ------------------------------------------------------------------ combined diffs: each hunk numbered from its own header

COMBINED_PATH = "zz/merged_file.rs"


def combined_case(rng):
    from .. import machine as M
    lines, files = M.gen_combined_diff(rng, conflict=True if rng.random() < 0.5 else None)
    if rng.random() < 0.4 and "++<<<<<<< HEAD" in lines:
        # conflict at the top of the file: the region is the first thing in its hunk
        lines = lines[:5] + lines[lines.index("++<<<<<<< HEAD"):]
    p = files[0]["new"]
    lines = [f"diff --cc {COMBINED_PATH}", lines[1], f"--- a/{COMBINED_PATH}", f"+++ b/{COMBINED_PATH}"] + lines[4:]
    if rng.random() < 0.6:
        pre, _ = M.gen_git_diff(rng, nfiles=1, with_commit=False, kinds=["modified"])
        lines = pre + lines
    args = ["--no-gitconfig", "--paging=never", "--line-numbers"] + rng.choice([[], [], ["--side-by-side", "--width", "120"]])
    return dict(kind="combined-first-number", args=args, input="\n".join(lines) + "\n", start=files[0]["combined_hunk"]["start"])


def combined_first_numbers(out):
    """numbers in the gutter of the first numbered row after the (last) file header naming COMBINED_PATH"""
    import re
    rows = [strip_ansi(l) for l in out.split(b"\n")]
    at = max((i for i, l in enumerate(rows) if COMBINED_PATH in l), default=None)
    if at is None:
        return None
    for l in rows[at + 1:]:
        m = re.match(r"^ *(\d*) *⋮ *(\d*) *│", l)
        if m and any(g for g in m.groups()):
            return [int(g) for g in m.groups() if g]
        if l.startswith("│"):      # side-by-side: `│ nm │ left panel │ np │ right panel`, an empty cell on an unpaired row
            cells = re.findall(r"│ *(\d+) *│", l[:8]) + re.findall(r"│ *(\d+) *│", l[40:])
            if cells:
                return [int(g) for g in cells]
    return []


def eval_combined(ctx, rep, cases):
    from ..core import parallel_map
    outs = parallel_map(lambda c: ctx.run_delta(c["args"], c["input"].encode()), cases)
    for c, (rc, out, err) in zip(cases, outs):
        rep.case(key=("combined", tuple(c["args"]), c["input"]), nontrivial=True, sample=dict(level="combined", start=c["start"]))
        if rc != 0:
            continue
        nums = combined_first_numbers(out)
        first_is_conflict = any(l.startswith("@@@") and c["input"].split("\n")[i + 1].startswith("++<<<<<<<")
                                for i, l in enumerate(c["input"].split("\n")[:-1]))
        rep.count("combined:" + ("conflict-first" if first_is_conflict else "line-first"))
        content = [l for l in c["input"].split("\n")[c["input"].split("\n").index(f"+++ b/{COMBINED_PATH}") + 2:]
                   if l and not l.startswith(("++<<<<<<<", "++|||||||", "++=======", "++>>>>>>>"))]
        if not content:
            rep.count("combined:no-content-line")     # only markers: nothing to number
            continue
        if nums is None or nums == []:
            rep.violation("combined:no-numbered-row", f"no numbered row after the file header of {COMBINED_PATH}", c)
        elif any(n != c["start"] for n in nums):
            rep.violation("combined:first-number" + (":conflict-first" if first_is_conflict else ""),
                          f"the first row of the hunk `@@@ -{c['start']},… @@@` is numbered {nums}", c)


def run_combined(ctx, rep):
    eval_combined(ctx, rep, [combined_case(ctx.rng) for _ in range(ctx.n(60, 1500))])


# ------------------------------------------------------------------ plain diffs through the state machine (hook level)

def run_plain_machine(ctx, rep):
    """The code the minus-line counter lives in (`handle_hunk_line`, `handle_hunk_header_line`,
    `handle_diff_header_minus_line`) against the machine model (`DeltaModel/Machine.lean`: `hunkLinePush`,
    `m.counter`, `minusLineTest`), on plain-diff streams with marker look-alike bodies: the same lines to the
    real state machine (existing hook op `machine.run`) and to the model driver `drv_machine`; states,
    buffered lines and rows are compared line by line (vlib/machine.py)."""
    from .. import machine as M
    rng = ctx.rng
    cases, meta = [], []
    for _ in range(ctx.n(40, 600)):
        diff, files, info = gen_plain(rng, wide=rng.random() < 0.3)
        cfg = M.gen_cfg(rng, color_only=False)
        cases.append((cfg, [l.encode("utf-8") for l in diff.split("\n")[:-1]]))
        meta.append((cfg, diff, info))
    res = M.observe(ctx, cases, model=(ctx.model("drv_machine") if ctx.drivers_ok else None))
    for (cfg, diff, info), (impl, model) in zip(meta, res):
        case = dict(kind="plain-machine", args=cfg.args(), model_cfg=cfg.d, input=diff, plain=info)
        rep.case(key=("plain-machine", cfg.key(), diff), nontrivial=info["lookalike"], sample=None)
        rep.count("plain-machine:" + info["style"])
        if not impl.ok:
            rep.count("plain-machine:impl-" + ("panic" if impl.panic else "error"))
            continue
        dis = M.compare(cfg, impl, model)
        rep.corr_case("machine.run:plain-diff", not dis, dict(case, disagreement=dis[:2]))


# ------------------------------------------------------------------ entry points

def run(ctx, rep):
    rep.rule = ("primitives: exhaustive small (n,width,align) + random; format strings from a grammar + damaged ones; hunk-header lines valid/damaged; "
                "machine: random state/panel sequences per random format config; sbs_block: every alignment of every shape <=4x<=4 with wrap counts "
                "<=3 (exhaustive for small shapes, sampled above) under several format/width configs; blocks: random hunks through a real Painter in "
                "both views; binary: random multi-file multi-hunk git diffs (starts 0..10^13, omitted counts, zero-length sides, add/delete/rename, "
                "wide characters, line-buffer-size 0..3/32) in both views with random number formats; plain `diff -u` / `diff -ru` / concatenated "
                "plain diffs (no `diff --git` line; time stamps, `Only in` lines, -N added/deleted files) whose hunks contain marker look-alike "
                "bodies (removed `-- x` = input `--- x`, added `++ x` = input `+++ x`, near misses), most of them after several added lines, "
                "in both views. Non-trivial = at least two rows/lines/hunks; "
                "distinct by full input.")
    rep.extra_trusted += ["Python gutter decoder and true-number generator in vlib/props/c05.py (direct oracle)",
                          "f64 log10 in initialize_hunk modelled as digit count (exact below 10^15)",
                          "grapheme count of format literals modelled as char count (harness sends only such literals)",
                          "wrap row counts and the line alignment are parameters taken from the implementation (wrap_line: C07, edit inference: C06)"]
    rep.assumptions += ["two-way (unified) diffs (combined diffs: only the first number of the hunk is checked); hyperlinks off; stdout is not a terminal (line-fill-method spaces, no odd-width pad column)"]
    rep.exhaustive = dict(
        sbs_block="every valid line alignment (Delannoy paths) of every subhunk shape m x p, 0<=m,p<=4, m+p>0; rows per line in {1,2,3}: "
                  + ("every vector for m+p<=2, sampled above" if ctx.quick() else "every vector for m+p<=6, 60 sampled vectors per alignment above"),
        pad="n in {0..12, 99, 100, 101, 999, 1000, 9999, 10000, 99999, 123456, 10^6, 10^6+1} x width 0..8 x 3 alignments",
        numbers="7 states x increment x 5 counter pairs incl. usize::MAX")
    hook = ctx.hook()
    mdl = ctx.model("drv_linenum") if ctx.drivers_ok else None
    run_primitives(ctx, rep, hook, mdl)
    run_machine(ctx, rep, hook, mdl)
    run_sbs_blocks(ctx, rep, hook, mdl)
    run_blocks(ctx, rep, hook, mdl)
    run_binary(ctx, rep, mdl)
    run_plain_machine(ctx, rep)
    run_combined(ctx, rep)
    rep.notes["hook_restarts"] = hook.restarts


def replay(ctx, rep, obj):
    case = obj.get("case", obj)
    mdl = ctx.model("drv_linenum") if ctx.drivers_ok else None
    kind = case.get("kind")
    if kind == "binary":
        c = dict(id=0, args=case["args"], diff=case["diff"], files=case["files"], sbs=case["sbs"], width=case["width"],
                 fl=Fmt([tuple(p) for p in case["fl"]]), fr=Fmt([tuple(p) for p in case["fr"]]), blank=case.get("blank", False), lbs=case.get("lbs", 32),
                 control=case.get("control"), plain=case.get("plain"))
        for f in c["files"]:
            for h in f["hunks"]:
                h["truth"] = [tuple(t) for t in h["truth"]]
        eval_binary(ctx, rep, [c], mdl)
    elif kind == "combined-first-number":
        eval_combined(ctx, rep, [case])
    elif kind == "plain-machine":
        from .. import machine as M
        cfg = M.VCfg(**case["model_cfg"])
        impl, model = M.observe(ctx, [(cfg, [l.encode("utf-8") for l in case["input"].split("\n")[:-1]])],
                                model=(ctx.model("drv_machine") if ctx.drivers_ok else None))[0]
        dis = M.compare(cfg, impl, model) if impl.ok else ["implementation: " + impl.resp[:100]]
        rep.case(key=("replay", case["input"]), nontrivial=True, sample=dict(disagreement=dis[:2]))
        rep.corr_case("machine.run:plain-diff", not dis, dict(case, disagreement=dis[:2]))
    elif kind in ("hook-sbs", "hook-blocks", "hook", "hook-machine"):
        hook = ctx.hook()
        reqs = (["cfg " + " ".join(hx(x) for x in case["cfg"])] if "cfg" in case else []) + ([case["req"]] if "req" in case else case.get("reqs", []))
        ans = hook.ask(reqs, sticky=[0] if "cfg" in case else [])
        rep.case(key=("replay", repr(reqs)), nontrivial=True, sample=dict(reqs=reqs, impl=ans))
        rep.notes["replay_answers"] = ans
        if kind == "hook-machine":
            bad = machine_oracle(Fmt([tuple(q) for q in case["fl"]]), Fmt([tuple(q) for q in case["fr"]]),
                                 [tuple(x) for x in case["pairs"]], [tuple(x) for x in case["steps"]], ans[-1])
            if bad and bad != "n/a":
                rep.violation("machine:numbers-wrong", bad, case)
        if kind == "hook-sbs" and "fl" in case and ans and ans[-1].startswith("ok "):
            cc = case["case"]
            fl, fr = Fmt([tuple(q) for q in case["fl"]]), Fmt([tuple(q) for q in case["fr"]])
            rows, rwl, rwr, left, right, lw, rw, pl, pr = parse_sbs_answer(ans[-1])
            al = [tuple(x) for x in cc["al"]]
            bad = sbs_oracle(fl, fr, cc["a"], cc["c"], cc["m"], cc["p"], al, rwl, rwr, rows,
                             decode_sbs(rows, lw, rw, pl, fl, fr), left, right)
            if bad:
                rep.violation("sbs_block:" + bad[1], bad[0], case)
        # re-evaluate with the full machinery as well (the stored case is part of the generated space)
        run(ctx, rep)
    else:
        run(ctx, rep)
