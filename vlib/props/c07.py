"""C07 — side-by-side view: correct panels, fixed geometry, lossless wrapping.

Correspondence: the real `wrap_line` / `wrap_minusplus_block` / `truncate_str` /
`measure_text_width` / `pad_panel_line_to_width` / panel widths (hook ops `wrap.*`) against the
Lean model driver `drv_wrap`, on the same requests.
Direct oracle: (a) the property evaluated on the hook's `wrap_line` output by an independent
decoder, (b) the real binary run with `--side-by-side` on generated two-way diffs at many
widths, stdout decoded into panels.
"""
import itertools
import os
import re
import subprocess

from ..core import LineProc, hx, unhx, parallel_map, sha

DRIVERS = ["drv_wrap"]

ZW = "​"
WIDE = "日本語中文字漢字東京"
NARROW = "abcdefghijkl"
DEFAULT_SYMS = ("↵", "↴", "…")
MAXLINES = [0, 1, 2, 3, 6]          # WrapConfig.max_lines: 0 = unlimited, n + 1 otherwise
FILL, HINT = 7, 9                    # style tags of the fill / inline-hint style in wrap.line


# ------------------------------------------------------------------ helpers

def limited_hook(ctx):
    """The hooked binary under an address-space limit: a non-terminating wrap loop grows
    memory without bound."""
    env = dict(os.environ, DELTA_VERIF_HOOK="1")
    env.pop("GIT_CONFIG_PARAMETERS", None)
    return LineProc(["sh", "-c", 'ulimit -v 3000000; exec "$0"', ctx.delta], env=env)


class Seg:
    """Segmentation / widths from the implementation (text.graphemes), cached."""

    def __init__(self, hook):
        self.hook, self.cache = hook, {"": []}

    def many(self, texts):
        need = sorted({t for t in texts if t not in self.cache})
        if need:
            res = self.hook.ask(["text.graphemes " + hx(t) for t in need], timeout=120)
            for t, r in zip(need, res):
                assert r.startswith("ok"), (t, r)
                out = []
                for f in r.split()[1:]:
                    g, w, _ = f.split(":")
                    out.append((unhx(g).decode("utf-8"), int(w)))
                self.cache[t] = out
        return [self.cache[t] for t in texts]

    def one(self, t):
        return self.many([t])[0]

    def width(self, t):
        return sum(w for _, w in self.one(t))


def f_clusters(cl):
    return " ".join([str(len(cl))] + [f"{hx(g)} {w}" for g, w in cl])


def f_sections(secs):
    """secs: [(style, [(cluster, w)…])]"""
    return " ".join([str(len(secs))] + [f"{st} {f_clusters(cl)}" for st, cl in secs])


def f_cfg(seg, maxl, permille, syms):
    return " ".join([str(maxl), str(permille)] + [f"{hx(s)} {seg.width(s)}" for s in syms])


def parse_rows(fields):
    rows = []
    for f in fields:
        if f == "R":
            rows.append([])
        else:
            st, t = f.split(":")
            rows[-1].append((st, unhx(t).decode("utf-8")))
    return rows


def same(i, m):
    """Compare an implementation answer with a model answer (panics by prefix)."""
    if m is None:
        return True
    if i.startswith("PANIC") or m.startswith("PANIC"):
        return i.startswith("PANIC") and m.startswith("PANIC")
    return i == m


# ------------------------------------------------------------------ wrap.line

def mk_line_case(seg, secs_text, lw, maxl, permille, syms, fill=FILL, hint=HINT):
    """secs_text: [(style, text)] -> request line and the case record."""
    segd = seg.many([t for _, t in secs_text])
    secs = [(st, cl) for (st, _), cl in zip(secs_text, segd)]
    req = (f"wrap.line {lw} {f_cfg(seg, maxl, permille, syms)} {fill} "
           f"{'-' if hint is None else hint} {f_sections(secs)}")
    return req, dict(op="wrap.line", sections=secs_text, lw=lw, max_lines=maxl, permille=permille,
                     syms=list(syms), fill=fill, hint=hint)


def oracle_wrap_line(rep, seg, case, answer):
    """The property evaluated on the implementation's own output (independent of the model)."""
    if answer.startswith("PANIC"):
        rep.violation("panic:wrap_line", "wrap_line panicked", dict(case, got=answer))
        return
    if not answer.startswith("ok"):
        return
    rows = parse_rows(answer.split()[1:])
    lw, maxl = case["lw"], case["max_lines"]
    lsym, rsym, psym = case["syms"]
    symw = seg.width(lsym)
    eff_max = 1 if lw <= 1 else maxl
    text = "".join(t for _, t in case["sections"])
    clusters = [c for _, t in case["sections"] for c in seg.one(t)]
    sym_style = str(case["fill"] if case["hint"] is None else case["hint"])
    rw = [sum(seg.width(t) for _, t in r) for r in rows]
    limited = eff_max > 0 and len(rows) >= eff_max
    # --- row widths (stated for width-1 symbols, which is what delta documents)
    if symw == 1 and seg.width(rsym) == 1:
        for k, w in enumerate(rw):
            last = k == len(rows) - 1
            if w > lw and not (last and limited):
                rep.violation("wrap_line:row-too-wide", f"row {k} has width {w} > line width {lw}",
                              dict(case, got=answer))
                return
    if eff_max > 0 and len(rows) > eff_max:
        rep.violation("wrap_line:too-many-rows", f"{len(rows)} rows with max_lines {eff_max}",
                      dict(case, got=answer))
        return
    # --- lossless: strip the inserted sections, concatenate
    def strip_syms(rs, last_has_sym):
        out = []
        for k, r in enumerate(rs):
            is_last = k == len(rs) - 1
            if (not is_last) or last_has_sym:
                if not r or r[-1][0] != sym_style or r[-1][1] not in (lsym, rsym):
                    return None
                r = r[:-1]
            out.append(r)
        return out
    cands = []
    for last_has_sym in (False, True):
        s = strip_syms(rows, last_has_sym)
        if s is None:
            continue
        cands.append("".join(t for r in s for _, t in r))
        # right-aligned second row: blanks in fill style, then the prefix symbol
        if len(s) == 2 and rows[0] and rows[0][-1][1] == rsym:
            r = list(s[1])
            while r and r[0][0] == str(case["fill"]) and r[0][1] and set(r[0][1]) == {" "}:
                r = r[1:]
                if r and r[0] == (sym_style, psym):
                    cands.append("".join(t for _, t in s[0]) + "".join(t for _, t in r[1:]))
    ok = False
    for c in cands:
        if text.startswith(c) and seg.width(text[len(c):]) == 0:
            ok = True
    if not ok:
        rep.violation("wrap_line:not-lossless", "joining the row fragments does not give back the line",
                      dict(case, got=answer, candidates=cands))
        return
    # --- progress: a wrapped row that carries nothing but the wrap symbol
    junk = [k for k, r in enumerate(rows[:-1]) if all(t == "" for _, t in r[:-1])]
    if junk and text:
        wide = [w for _, w in clusters if w + symw > lw]
        sig = "wrap_line:no-progress:cluster-wider-than-line-width-minus-symbol" if wide else "wrap_line:empty-row"
        rep.violation(sig, f"row {junk[0]} holds only the wrap symbol (no cluster consumed)",
                      dict(case, got=answer))


def confirm_hang(ctx, rep, req, case):
    """Run one request the model says never terminates against the implementation, with a
    memory limit and a short timeout."""
    env = dict(os.environ, DELTA_VERIF_HOOK="1")
    try:
        p = subprocess.run(["sh", "-c", 'ulimit -v 1500000; exec "$0"', ctx.delta], input=(req + "\n").encode(),
                           stdout=subprocess.PIPE, stderr=subprocess.PIPE, env=env, timeout=ctx.n(2, 6))
        out = p.stdout.decode("utf-8", "replace").strip()
        if out.startswith("ok"):
            return out            # terminated normally
        return "DIED rc=%s %s" % (p.returncode, p.stderr.decode("utf-8", "replace")[-120:])
    except subprocess.TimeoutExpired:
        return "TIMEOUT"


def gen_small_lines(ctx):
    """Lines of <= N clusters over widths {0,1,2} x every section split x newline placement."""
    N = ctx.n(4, 6)
    for n in range(0, N + 1):
        for pat in itertools.product((0, 1, 2), repeat=n):
            cl = [ZW if w == 0 else (NARROW[i] if w == 1 else WIDE[i]) for i, w in enumerate(pat)]
            for cuts in itertools.product((0, 1), repeat=max(n - 1, 0)):
                parts, cur = [], ""
                for i, c in enumerate(cl):
                    cur += c
                    if i == n - 1 or cuts[i]:
                        parts.append(cur)
                        cur = ""
                for nl in (0, 1, 2):
                    p = list(parts)
                    if nl == 1:
                        p = p + ["\n"]
                    elif nl == 2:
                        if not p:
                            continue
                        p = p[:-1] + [p[-1] + "\n"]
                    yield pat, [(i % 4, t) for i, t in enumerate(p)]


def gen_random_line(rng):
    pool1 = list("abcxyz ") + ["é", "ñ", "\t"]
    pool2 = list("日本語中") + ["👨‍👩‍👧", "😀"]
    pool0 = [ZW, "⁠"]
    n = rng.choice([3, 8, 12, 20, 40, 90])
    secs, cur = [], ""
    for i in range(n):
        r = rng.random()
        c = rng.choice(pool2) if r < 0.2 else (rng.choice(pool0) if r < 0.27 else rng.choice(pool1))
        cur += c
        if rng.random() < 0.3:
            secs.append(cur)
            cur = ""
            if rng.random() < 0.15:
                secs.append("́" + rng.choice("ab"))   # section starting with a lone combining mark
            if rng.random() < 0.03:
                secs.append("")                            # empty section ("should not happen")
    if cur:
        secs.append(cur)
    r = rng.random()
    if r < 0.4:
        secs.append("\n")
    elif r < 0.7 and secs:
        secs[-1] += "\n"
    return [(rng.randrange(5), t) for t in secs]


def part_wrap_line(ctx, rep, hook, mdl, seg):
    rng = ctx.rng
    reqs, cases = [], []
    # (1) small lines, exhaustive in the line; widths/limits cycled deterministically
    k = 0
    for pat, secs in gen_small_lines(ctx):
        total = sum(pat)
        lws = sorted({0, 1, 2, 3, max(total - 1, 0), total, total + 1, (total + 1) // 2, 8} & set(range(0, 9)))
        if ctx.quick():
            lws = [lws[(k + j) % len(lws)] for j in range(2)]
        for lw in lws:
            k += 1
            maxl = MAXLINES[k % len(MAXLINES)] if ctx.quick() else None
            for m in ([maxl] if maxl is not None else MAXLINES):
                req, case = mk_line_case(seg, secs, lw, m, [370, 0, 1000, 600][k % 4], DEFAULT_SYMS,
                                         hint=HINT if k % 3 else None)
                case["gen"] = "small"
                reqs.append(req)
                cases.append(case)
    # (2) random longer lines: CJK, emoji sequences, combining marks, tabs, zero-width
    symsets = [DEFAULT_SYMS, ("+", "<", ">"), ("日", "↴", "…"), ("↵", "↴", "本"), ("​", "↴", "…")]
    for _ in range(ctx.n(1500, 60000)):
        secs = gen_random_line(rng)
        lw = rng.choice([0, 1, 2, 3, 4, 5, 6, 7, 8, 10, 13, 20, 33, 64, 70, 140])
        syms = DEFAULT_SYMS if rng.random() < 0.8 else rng.choice(symsets)
        req, case = mk_line_case(seg, secs, lw, rng.choice(MAXLINES), rng.choice([0, 1, 200, 370, 500, 999, 1000]),
                                 syms, hint=rng.choice([None, HINT]))
        case["gen"] = "random"
        reqs.append(req)
        cases.append(case)

    model = mdl.ask(reqs, timeout=600) if mdl else [None] * len(reqs)
    hang = [i for i, m in enumerate(model) if m == "HANG"]
    send = [i for i, m in enumerate(model) if m != "HANG"]
    impl = dict(zip(send, hook.ask([reqs[i] for i in send], timeout=ctx.n(60, 600))))
    rep.count("wrap.line:model-predicts-nontermination", len(hang))
    # confirm a few predicted hangs on the implementation
    for i in hang[:ctx.n(2, 6)]:
        got = confirm_hang(ctx, rep, reqs[i], cases[i])
        agree = not got.startswith("ok")
        rep.corr_case("wrap.line", agree, dict(cases[i], impl=got, model="HANG"))
        rep.case(key=("hang", reqs[i]), nontrivial=True)
        if agree:
            rep.violation("hang:wrap_line:no-progress", "wrap_line never terminates: " + got[:60],
                          dict(cases[i], got=got, request=reqs[i]))
    for i in send:
        a, m, case = impl[i], model[i], cases[i]
        if a.startswith("ERR"):
            rep.count("wrap.line:skipped-domain")
            continue
        rows = a.count(" R")
        rep.count("wrap.line:rows=%s" % (rows if rows < 4 else "4+"))
        rep.count("wrap.line:gen=" + case["gen"])
        rep.case(key=reqs[i], nontrivial=rows >= 2,
                 sample=dict(op="wrap.line", lw=case["lw"], max_lines=case["max_lines"],
                             sections=case["sections"], impl=a) if rows >= 3 else None)
        if m is not None:
            rep.corr_case("wrap.line", same(a, m), dict(case, impl=a, model=m, request=reqs[i]))
        if a.startswith("DIED"):
            rep.violation("hang-or-crash:wrap_line", "hook process died or hung in wrap_line: " + a[:80],
                          dict(case, got=a, request=reqs[i]))
            continue
        oracle_wrap_line(rep, seg, case, a)


# ------------------------------------------------------------------ entry points

def run(ctx, rep):
    rep.rule = ("wrap.line: every line of <=N clusters over widths {0,1,2} x every section split x newline "
                "placement, line widths 0..8, limits {unlimited,0,1,2,5}; random lines up to 90 clusters with "
                "CJK/emoji-ZWJ/combining/zero-width/tab clusters; non-trivial = at least 2 output rows; "
                "distinct by request text")
    hook = limited_hook(ctx)
    mdl = ctx.model("drv_wrap") if ctx.drivers_ok else None
    seg = Seg(hook)
    part_wrap_line(ctx, rep, hook, mdl, seg)


def replay(ctx, rep, obj):
    run(ctx, rep)
