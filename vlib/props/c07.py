"""C07 — side-by-side view: correct panels, fixed geometry, lossless wrapping.

Correspondence: the real `wrap_line` / `wrap_minusplus_block` / `truncate_str` /
`measure_text_width` / `pad_panel_line_to_width` / panel widths (hook ops `wrap.*`) against the
Lean model driver `drv_wrap`, on the same requests.
Direct oracle: (a) the property evaluated on the hook's `wrap_line` output by an independent
decoder, (b) the real binary run with `--side-by-side` on generated two-way diffs at many
widths, stdout decoded into panels.
"""
import itertools
import os
import re
import subprocess

from ..core import LineProc, hx, unhx, parallel_map, sha

DRIVERS = ["drv_wrap"]
GENERATED = ["WrapConsts", "WrapMaxLineLength", "Ingest", "SbsRow", "LineNum"]

ZW = "​"
WIDE = "日本語中文字漢字東京"
NARROW = "abcdefghijkl"
DEFAULT_SYMS = ("↵", "↴", "…")
MAXLINES = [0, 1, 2, 3, 6]          # WrapConfig.max_lines: 0 = unlimited, n + 1 otherwise
FILL, HINT = 7, 9                    # style tags of the fill / inline-hint style in wrap.line


# ------------------------------------------------------------------ helpers

_SEEN = {}


def viol(rep, signature, what, replay):
    """rep.violation, but at most two cases per signature (core keeps 50 violations in all);
    every occurrence is counted in the distribution."""
    rep.count("oracle-failure:" + signature)
    key = (id(rep), signature)
    _SEEN[key] = _SEEN.get(key, 0) + 1
    if _SEEN[key] <= 2:
        return rep.violation(signature, what, replay)
    return False


def symbols_validated():
    """Does the source refuse wrap symbols that are not one column wide? (regenerated flag)"""
    from ..core import LEAN
    try:
        t = open(os.path.join(LEAN, "DeltaModel", "Generated", "WrapConsts.lean")).read()
    except OSError:
        return False
    return "def wrapSymbolWidthChecked : Bool := true" in t


def limited_hook(ctx):
    """The hooked binary under an address-space limit: a non-terminating wrap loop grows
    memory without bound."""
    env = dict(os.environ, DELTA_VERIF_HOOK="1")
    env.pop("GIT_CONFIG_PARAMETERS", None)
    return LineProc(["sh", "-c", 'ulimit -v 3000000; exec "$0"', ctx.delta], env=env)


class Seg:
    """Segmentation / widths from the implementation (text.graphemes), cached."""

    def __init__(self, hook):
        self.hook, self.cache = hook, {"": []}

    def many(self, texts):
        need = sorted({t for t in texts if t not in self.cache})
        if need:
            res = self.hook.ask(["text.graphemes " + hx(t) for t in need], timeout=120)
            for t, r in zip(need, res):
                assert r.startswith("ok"), (t, r)
                out = []
                for f in r.split()[1:]:
                    g, w, _ = f.split(":")
                    out.append((unhx(g).decode("utf-8"), int(w)))
                self.cache[t] = out
        return [self.cache[t] for t in texts]

    def one(self, t):
        return self.many([t])[0]

    def width(self, t):
        return sum(w for _, w in self.one(t))


def f_clusters(cl):
    return " ".join([str(len(cl))] + [f"{hx(g)} {w}" for g, w in cl])


def f_sections(secs):
    """secs: [(style, [(cluster, w)…])]"""
    return " ".join([str(len(secs))] + [f"{st} {f_clusters(cl)}" for st, cl in secs])


def f_cfg(seg, maxl, permille, syms):
    return " ".join([str(maxl), str(permille)] + [f"{hx(s)} {seg.width(s)}" for s in syms])


def parse_rows(fields):
    rows = []
    for f in fields:
        if f == "R":
            rows.append([])
        else:
            st, t = f.split(":")
            rows[-1].append((st, unhx(t).decode("utf-8")))
    return rows


def same(i, m):
    """Compare an implementation answer with a model answer (panics by prefix)."""
    if m is None:
        return True
    if i.startswith("PANIC") or m.startswith("PANIC"):
        return i.startswith("PANIC") and m.startswith("PANIC")
    return i == m


# ------------------------------------------------------------------ wrap.line

def mk_line_case(seg, secs_text, lw, maxl, permille, syms, fill=FILL, hint=HINT):
    """secs_text: [(style, text)] -> request line and the case record."""
    segd = seg.many([t for _, t in secs_text])
    secs = [(st, cl) for (st, _), cl in zip(secs_text, segd)]
    req = (f"wrap.line {lw} {f_cfg(seg, maxl, permille, syms)} {fill} "
           f"{'-' if hint is None else hint} {f_sections(secs)}")
    return req, dict(op="wrap.line", sections=secs_text, lw=lw, max_lines=maxl, permille=permille,
                     syms=list(syms), fill=fill, hint=hint, request=req)


def oracle_wrap_line(rep, seg, case, answer):
    """The property evaluated on the implementation's own output (independent of the model)."""
    if answer.startswith("PANIC"):
        viol(rep, "panic:wrap_line", "wrap_line panicked", dict(case, got=answer))
        return
    if not answer.startswith("ok"):
        return
    rows = parse_rows(answer.split()[1:])
    lw, maxl = case["lw"], case["max_lines"]
    lsym, rsym, psym = case["syms"]
    symw = seg.width(lsym)
    eff_max = 1 if lw <= 1 else maxl
    text = "".join(t for _, t in case["sections"])
    clusters = [c for _, t in case["sections"] for c in seg.one(t)]
    sym_style = str(case["fill"] if case["hint"] is None else case["hint"])
    rw = [sum(seg.width(t) for _, t in r) for r in rows]
    limited = eff_max > 0 and len(rows) >= eff_max
    # --- row widths (stated for width-1 symbols, which is what delta documents)
    if symw == 1 and seg.width(rsym) == 1:
        # (repaired code) without a limit wrapping stops when a cluster cannot stand next to the
        # wrap symbol at all; the rest is then the last row, as at the limit
        unfit = any(cw + symw > lw for _, cw in clusters)
        for k, w in enumerate(rw):
            last = k == len(rows) - 1
            if w > lw and not (last and (limited or (eff_max == 0 and unfit))):
                viol(rep, "wrap_line:row-too-wide", f"row {k} has width {w} > line width {lw}",
                     dict(case, got=answer))
                return
    if eff_max > 0 and len(rows) > eff_max:
        viol(rep, "wrap_line:too-many-rows", f"{len(rows)} rows with max_lines {eff_max}",
                      dict(case, got=answer))
        return
    # --- lossless: strip the inserted sections, concatenate
    def strip_syms(rs, last_has_sym):
        out = []
        for k, r in enumerate(rs):
            is_last = k == len(rs) - 1
            if (not is_last) or last_has_sym:
                if not r or r[-1][0] != sym_style or r[-1][1] not in (lsym, rsym):
                    return None
                r = r[:-1]
            out.append(r)
        return out
    cands = []
    for last_has_sym in (False, True):
        s = strip_syms(rows, last_has_sym)
        if s is None:
            continue
        cands.append("".join(t for r in s for _, t in r))
        # right-aligned second row: blanks in fill style, then the prefix symbol
        if len(s) == 2 and rows[0] and rows[0][-1][1] == rsym:
            r = list(s[1])
            while r and r[0][0] == str(case["fill"]) and r[0][1] and set(r[0][1]) == {" "}:
                r = r[1:]
                if r and r[0] == (sym_style, psym):
                    cands.append("".join(t for _, t in s[0]) + "".join(t for _, t in r[1:]))
    ok = False
    for c in cands:
        if text.startswith(c) and seg.width(text[len(c):]) == 0:
            ok = True
    if not ok:
        viol(rep, "wrap_line:not-lossless", "joining the row fragments does not give back the line",
                      dict(case, got=answer, candidates=cands))
        return
    # --- progress: a wrapped row that carries nothing but the wrap symbol
    junk = [k for k, r in enumerate(rows[:-1]) if all(t == "" for _, t in r[:-1])]
    if junk and text:
        wide = [w for _, w in clusters if w + symw > lw]
        sig = "wrap_line:no-progress:cluster-wider-than-line-width-minus-symbol" if wide else "wrap_line:empty-row"
        viol(rep, sig, f"row {junk[0]} holds only the wrap symbol (no cluster consumed)",
                      dict(case, got=answer))


def confirm_hang(ctx, rep, req, case):
    """Run one request the model says never terminates against the implementation, with a
    memory limit and a short timeout."""
    env = dict(os.environ, DELTA_VERIF_HOOK="1")
    try:
        p = subprocess.run(["sh", "-c", 'ulimit -v 1500000; exec "$0"', ctx.delta], input=(req + "\n").encode(),
                           stdout=subprocess.PIPE, stderr=subprocess.PIPE, env=env, timeout=ctx.n(2, 6))
        out = p.stdout.decode("utf-8", "replace").strip()
        if out.startswith("ok"):
            return out            # terminated normally
        return "DIED rc=%s %s" % (p.returncode, p.stderr.decode("utf-8", "replace")[-120:])
    except subprocess.TimeoutExpired:
        return "TIMEOUT"


def gen_small_lines(ctx):
    """Lines of <= N clusters over widths {0,1,2} x every section split x newline placement."""
    N = ctx.n(4, 6)
    for n in range(0, N + 1):
        for pat in itertools.product((0, 1, 2), repeat=n):
            cl = [ZW if w == 0 else (NARROW[i] if w == 1 else WIDE[i]) for i, w in enumerate(pat)]
            for cuts in itertools.product((0, 1), repeat=max(n - 1, 0)):
                parts, cur = [], ""
                for i, c in enumerate(cl):
                    cur += c
                    if i == n - 1 or cuts[i]:
                        parts.append(cur)
                        cur = ""
                for nl in (0, 1, 2):
                    p = list(parts)
                    if nl == 1:
                        p = p + ["\n"]
                    elif nl == 2:
                        if not p:
                            continue
                        p = p[:-1] + [p[-1] + "\n"]
                    yield pat, [(i % 4, t) for i, t in enumerate(p)]


def gen_random_line(rng):
    pool1 = list("abcxyz ") + ["é", "ñ", "\t"]
    pool2 = list("日本語中") + ["👨‍👩‍👧", "😀"]
    pool0 = [ZW, "⁠"]
    n = rng.choice([3, 8, 12, 20, 40, 90])
    secs, cur = [], ""
    for i in range(n):
        r = rng.random()
        c = rng.choice(pool2) if r < 0.2 else (rng.choice(pool0) if r < 0.27 else rng.choice(pool1))
        cur += c
        if rng.random() < 0.3:
            secs.append(cur)
            cur = ""
            if rng.random() < 0.15:
                secs.append("́" + rng.choice("ab"))   # section starting with a lone combining mark
            if rng.random() < 0.03:
                secs.append("")                            # empty section ("should not happen")
    if cur:
        secs.append(cur)
    r = rng.random()
    if r < 0.4:
        secs.append("\n")
    elif r < 0.7 and secs:
        secs[-1] += "\n"
    return [(rng.randrange(5), t) for t in secs]


def part_wrap_line(ctx, rep, hook, mdl, seg):
    rng = ctx.rng
    reqs, cases = [], []
    # (1) small lines, exhaustive in the line; widths/limits cycled deterministically
    k = 0
    for pat, secs in gen_small_lines(ctx):
        total = sum(pat)
        lws = sorted({0, 1, 2, 3, max(total - 1, 0), total, total + 1, (total + 1) // 2, 8} & set(range(0, 9)))
        if ctx.quick():
            lws = [lws[(k + j) % len(lws)] for j in range(2)]
        for lw in lws:
            k += 1
            maxl = MAXLINES[k % len(MAXLINES)] if (ctx.quick() or len(pat) >= 5) else None
            for m in ([maxl] if maxl is not None else MAXLINES):
                req, case = mk_line_case(seg, secs, lw, m, [370, 0, 1000, 600][k % 4], DEFAULT_SYMS,
                                         hint=HINT if k % 3 else None)
                case["gen"] = "small"
                reqs.append(req)
                cases.append(case)
    # (2) random longer lines: CJK, emoji sequences, combining marks, tabs, zero-width
    # wrap symbols of exactly one column: what delta's option check lets through (the extractor reads that
    # check: Generated.wrapSymbolWidthChecked / Props.C07.wrap_symbols_validated); symbols of width 0/2
    # are tried on the real binary only, which must refuse them
    symsets = [DEFAULT_SYMS, ("+", "<", ">"), ("»", "«", "›")]
    for _ in range(ctx.n(1500, 60000)):
        secs = gen_random_line(rng)
        lw = rng.choice([0, 1, 2, 3, 4, 5, 6, 7, 8, 10, 13, 20, 33, 64, 70, 140])
        syms = DEFAULT_SYMS if rng.random() < 0.8 else rng.choice(symsets)
        req, case = mk_line_case(seg, secs, lw, rng.choice(MAXLINES), rng.choice([0, 1, 200, 370, 500, 999, 1000]),
                                 syms, hint=rng.choice([None, HINT]))
        case["gen"] = "random"
        reqs.append(req)
        cases.append(case)

    model = mdl.ask(reqs, timeout=600) if mdl else [None] * len(reqs)
    hang = [i for i, m in enumerate(model) if m == "HANG"]
    send = [i for i, m in enumerate(model) if m != "HANG"]
    impl = dict(zip(send, hook.ask([reqs[i] for i in send], timeout=ctx.n(60, 600))))
    rep.count("wrap.line:model-predicts-nontermination", len(hang))
    # confirm a few predicted hangs on the implementation
    for i in hang[:ctx.n(2, 6)]:
        got = confirm_hang(ctx, rep, reqs[i], cases[i])
        agree = not got.startswith("ok")
        rep.corr_case("wrap.line", agree, dict(cases[i], impl=got, model="HANG"))
        rep.case(key=("hang", reqs[i]), nontrivial=True)
        if agree:
            viol(rep, "hang:wrap_line:no-progress", "wrap_line never terminates: " + got[:60],
                          dict(cases[i], got=got, request=reqs[i]))
    for i in send:
        judge_line(rep, seg, cases[i], reqs[i], impl[i], model[i])


def judge_line(rep, seg, case, req, a, m):
    if a.startswith("ERR"):
        rep.count("wrap.line:skipped-domain")
        return
    rows = a.count(" R")
    rep.count("wrap.line:rows=%s" % (rows if rows < 4 else "4+"))
    rep.count("wrap.line:gen=" + case.get("gen", "replay"))
    rep.case(key=req, nontrivial=rows >= 2,
             sample=dict(op="wrap.line", lw=case["lw"], max_lines=case["max_lines"],
                         sections=case["sections"], impl=a) if rows >= 3 else None)
    if m is not None:
        rep.corr_case("wrap.line", same(a, m), dict(case, impl=a, model=m, request=req))
    if a.startswith("DIED"):
        viol(rep, "hang-or-crash:wrap_line", "hook process died or hung in wrap_line: " + a[:80],
             dict(case, got=a, request=req))
        return
    oracle_wrap_line(rep, seg, case, a)


# ------------------------------------------------------------------ wrap.block

def random_cuts(rng, clusters, p=0.3):
    """Split a cluster list into sections at random points -> list of cluster lists."""
    out, cur = [], []
    for i, c in enumerate(clusters):
        cur.append(c)
        if i < len(clusters) - 1 and rng.random() < p:
            out.append(cur)
            cur = []
    if cur:
        out.append(cur)
    return out


def gen_block_line(rng, zero_ok):
    pool1 = list("abcxyz =;(){}") + ["é"]
    pool2 = list("日本語")
    n = rng.choice([1, 3, 6, 9, 14, 25])
    cl = []
    for _ in range(n):
        r = rng.random()
        if r < 0.15:
            cl.append(rng.choice(pool2))
        elif r < 0.22 and zero_ok:
            cl.append(ZW)
        else:
            cl.append(rng.choice(pool1))
    return cl


def gen_alignment(rng, nm, np_, valid=True):
    al, m, p = [], 0, 0
    while m < nm or p < np_:
        r = rng.random()
        if m < nm and p < np_ and r < 0.4:
            al.append((m, p)); m += 1; p += 1
        elif m < nm and (p >= np_ or r < 0.7):
            al.append((m, None)); m += 1
        else:
            al.append((None, p)); p += 1
    if not valid and al:
        k = rng.randrange(len(al))
        mode = rng.randrange(4)
        if mode == 0:
            al[k] = (None, None)
        elif mode == 1:
            al.append(al[k])
        elif mode == 2:
            del al[k]
        else:
            al[k] = (al[k][0] if al[k][0] is None else al[k][0] + 1, al[k][1])
    return al


def part_block(ctx, rep, hook, mdl, seg):
    rng = ctx.rng
    reqs, cases = [], []
    for _ in range(ctx.n(700, 20000)):
        nm, np_ = rng.randrange(0, 4), rng.randrange(0, 4)
        zero_ok = rng.random() < 0.35
        valid = rng.random() < 0.92
        al = gen_alignment(rng, nm, np_, valid)
        lw = (rng.choice([2, 3, 4, 5, 6, 8, 11]), rng.choice([2, 3, 4, 5, 6, 8, 11]))
        maxl = rng.choice(MAXLINES[1:] + [3, 0] if rng.random() < 0.9 else [0])
        sides, texts = [], []
        for side, n in ((0, nm), (1, np_)):
            lines = []
            for _ in range(n):
                cl = gen_block_line(rng, zero_ok)
                text = "".join(cl) + "\n"
                syn = ["".join(x) for x in random_cuts(rng, cl, 0.35)]
                dif = ["".join(x) for x in random_cuts(rng, cl, 0.15)]
                # the newline: a section of its own, or glued to the last section
                if rng.random() < 0.5:
                    syn.append("\n")
                else:
                    syn[-1] += "\n"
                dif[-1] += "\n"
                lines.append((text, syn, dif))
            sides.append(lines)
        allsecs = [t for lines in sides for (_, syn, dif) in lines for t in syn + dif]
        seg.many(allsecs)
        bsyms = DEFAULT_SYMS if rng.random() < 0.9 else rng.choice([("+", "<", ">"), ("»", "«", "›")])
        fields = [f_cfg(seg, maxl, rng.choice([0, 370, 1000]), bsyms), str(lw[0]), str(lw[1]), str(len(al))]
        for m, p in al:
            fields += ["-" if m is None else str(m), "-" if p is None else str(p)]
        for side, lines in enumerate(sides):
            fields.append(str(len(lines)))
            for text, syn, dif in lines:
                width = sum(w for t in dif for _, w in seg.one(t))
                must = 1 if width > lw[side] else 0
                fields.append(str(must))
                fields.append(f_sections([(i + 1, seg.one(t)) for i, t in enumerate(syn)]))
                fields.append(f_sections([(i + 1, seg.one(t)) for i, t in enumerate(dif)]))
        reqs.append("wrap.block " + " ".join(fields))
        cases.append(dict(op="wrap.block", alignment=[list(x) for x in al], lw=lw, max_lines=maxl, valid_alignment=valid,
                          syms=list(bsyms), symbol_width_1=all(seg.width(x) == 1 for x in bsyms[:2]),
                          minus=[(s_, d_) for _, s_, d_ in sides[0]], plus=[(s_, d_) for _, s_, d_ in sides[1]]))
    model = mdl.ask(reqs, timeout=600) if mdl else [None] * len(reqs)
    send = [i for i, m in enumerate(model) if m != "HANG"]
    rep.count("wrap.block:model-predicts-nontermination", len(reqs) - len(send))
    impl = dict(zip(send, hook.ask([reqs[i] for i in send], timeout=ctx.n(60, 600))))
    for i in send:
        judge_block(rep, cases[i], reqs[i], impl[i], model[i])


def judge_block(rep, case, req, a, m):
    if a.startswith("ERR"):
        rep.count("wrap.block:skipped-domain")
        return
    rep.case(key=req, nontrivial=(" R" in a and a.count(" R") > 4 * 1) or a.startswith("PANIC"),
             sample=None)
    rep.count("wrap.block:" + ("panic" if a.startswith("PANIC") else "ok"))
    if m is not None:
        rep.corr_case("wrap.block", same(a, m), dict(case, impl=a, model=m, request=req))
    if a.startswith("DIED"):
        viol(rep, "hang-or-crash:wrap_block", "hook died or hung in wrap_minusplus_block",
             dict(case, got=a, request=req))
        return
    if a.startswith("PANIC"):
        msg = unhx(a.split()[1]).decode("utf-8", "replace")
        if case["valid_alignment"]:
            if "syntax and diff wrapping differs" in msg:
                viol(rep, "panic:wrap_block:syntax-and-diff-wrapping-differs:wrap-symbol-width-not-1"
                     if not case.get("symbol_width_1", True)
                     else "panic:wrap_block:syntax-and-diff-wrapping-differs:zero-width-cluster"
                     if any(ZW in t for l_ in case["minus"] + case["plus"] for t in l_[0])
                     else "panic:wrap_block:syntax-and-diff-wrapping-differs",
                     "wrap_minusplus_block panicked on a well-formed alignment: " + msg[:80],
                     dict(case, got=msg, request=req))
            else:
                viol(rep, "panic:wrap_block", "wrap_minusplus_block panicked on a well-formed alignment: " + msg[:80],
                     dict(case, got=msg, request=req))
        return
    oracle_block(rep, case, a, req)


def oracle_block(rep, case, answer, req):
    f = answer.split()
    n = int(f[2])
    al = [(None if f[3 + 2 * k] == "-" else int(f[3 + 2 * k]), None if f[4 + 2 * k] == "-" else int(f[4 + 2 * k]))
          for k in range(n)]
    rest = f[3 + 2 * n:]
    sl, sr = rest[1][1:], rest[3][1:]
    k = rest.index("SYNL")
    parts, cur = {}, None
    for tok in rest[k:]:
        if tok in ("SYNL", "DIFL", "SYNR", "DIFR"):
            cur = tok
            parts[cur] = []
        else:
            parts[cur].append(tok)
    rows = {kk: parse_rows(v) for kk, v in parts.items()}
    left = [m for m, _ in al if m is not None]
    right = [p for _, p in al if p is not None]
    bad = None
    if left != list(range(len(sl))) or right != list(range(len(sr))):
        bad = "row indices of a side are not 0..n-1 in order"
    elif len(rows["SYNL"]) != len(sl) or len(rows["SYNR"]) != len(sr):
        bad = "number of rows and number of states differ"
    elif case["valid_alignment"]:
        nm = len([1 for m, _ in case["alignment"] if m is not None])
        np_ = len([1 for _, p in case["alignment"] if p is not None])
        if sl.count("1") != nm or sr.count("1") != np_:
            bad = "a line does not appear exactly once as a real-line row"
        else:
            startl = [i for i, ch in enumerate(sl) if ch == "1"]
            startr = [i for i, ch in enumerate(sr) if ch == "1"]
            for m, p in case["alignment"]:
                if m is not None and p is not None and (startl[m], startr[p]) not in al:
                    bad = f"paired lines {m}/{p} do not start on the same row"
    if bad:
        viol(rep, "wrap_block:alignment", bad, dict(case, got=answer, request=req))
        return
    # the syntax rows and the diff rows must carry the same text (they are superimposed)
    for a_, b_ in (("SYNL", "DIFL"), ("SYNR", "DIFR")):
        for k, (r1, r2) in enumerate(zip(rows[a_], rows[b_])):
            t1, t2 = "".join(t for _, t in r1), "".join(t for _, t in r2)
            if t1 != t2:
                zwc = ZW in t1 or ZW in t2
                viol(rep, "wrap_block:syntax-and-diff-rows-differ" +
                     (":wrap-symbol-width-not-1" if not case.get("symbol_width_1", True) else ":zero-width-cluster" if zwc else ""),
                              f"row {k}: syntax sections read {t1!r}, diff sections read {t2!r} (superimposing panics)",
                              dict(case, got=answer, request=req))
                return


# ------------------------------------------------------------------ truncate / measure / panels

def items_of(hook, strings):
    res = hook.ask(["wrap.ansi_items " + hx(s_) for s_ in strings], timeout=120)
    out = []
    for r in res:
        assert r.startswith("ok"), r
        out.append(r[3:].strip())
    return out


def f_items(it):
    toks = it.split()
    n = sum(1 for t in toks if t in ("A", "T"))
    # a hex field never equals "A"/"T" (it starts with x), so counting is safe
    return f"{n} {it}".strip()


# candidates for ONE grapheme cluster wider than 2 columns (Hangul jamo sequences, emoji + modifiers / ZWJ sequences): what
# the implementation's tables make of them is read per case and counted (`wrap.truncate:cut-at-cluster-width=N`)
WIDE_CLUSTERS = ["\u1100\uac00", "\u1100\u1100\u1161", "\u1100\uac00\u11a8", "\U0001f44d\U0001f3fd",
                 "\U0001f468\u200d\U0001f469\u200d\U0001f467", "\U0001f926\U0001f3fc\u200d\u2642\ufe0f", "\u2764\u200d\U0001f525"]


def gen_painted(rng, wide=False):
    pool1 = list("abcxyz ") + ["é"]
    pool2 = list("日本語") + (WIDE_CLUSTERS * 2 if wide else [])
    sgr = ["\x1b[31m", "\x1b[0m", "\x1b[1;38;5;100m", "\x1b[7m", "\x1b]8;;http://x\x1b\\", "\x1b[0K"]
    s_ = ""
    for _ in range(rng.choice([1, 2, 3, 5, 8])):
        if rng.random() < 0.6:
            s_ += rng.choice(sgr)
        for _ in range(rng.choice([0, 1, 2, 4, 7])):
            r = rng.random()
            s_ += rng.choice(pool2) if r < 0.25 else (ZW if r < 0.3 else rng.choice(pool1))
    if rng.random() < 0.5:
        s_ += "\x1b[0m"
    return s_


def vis_width(seg, items_field):
    toks = items_field.split()
    w, i = 0, 0
    while i < len(toks):
        if toks[i] == "A":
            i += 2
        else:
            k = int(toks[i + 1])
            for j in range(k):
                w += int(toks[i + 3 + 2 * j])
            i += 2 + 2 * k
    return w


def cut_class(items_field, dw, tail_w):
    """Independent look at where the cut falls: 'wide-cluster-at-cut-followed-by-text' when a
    double-width cluster does not fit with one column left and a later text run exists."""
    toks = items_field.split()
    runs, i = [], 0
    while i < len(toks):
        if toks[i] == "A":
            i += 2
        else:
            k = int(toks[i + 1])
            runs.append([int(toks[i + 3 + 2 * j]) for j in range(k)])
            i += 2 + 2 * k
    used = min(tail_w, dw)
    for ri, run in enumerate(runs):
        for w in run:
            if used + w > dw:
                later = any(x > 0 for r2 in runs[ri + 1:] for x in r2)
                if w == 2 and used == dw - 1 and later:
                    return "wide-cluster-at-cut-followed-by-text"
                return "plain"
            used += w
    return "plain"


def cluster_widths(items_field):
    """[[widths of the clusters of a text run] …] of an items field."""
    toks = items_field.split()
    runs, i = [], 0
    while i < len(toks):
        if toks[i] == "A":
            i += 2
        else:
            k = int(toks[i + 1])
            runs.append([int(toks[i + 3 + 2 * j]) for j in range(k)])
            i += 2 + 2 * k
    return runs


def cut_width(items_field, dw, tail_w):
    """Width of the first cluster that does not fit (None: everything fits), as `truncate_str_impl` walks."""
    used = min(tail_w, dw)
    for run in cluster_widths(items_field):
        for w in run:
            if used + w > dw:
                return w
            used += w
    return None


def wide_offsets(items_field):
    """(columns in front, width) of every cluster wider than 2 columns."""
    out, off = [], 0
    for run in cluster_widths(items_field):
        for w in run:
            if w > 2:
                out.append((off, w))
            off += w
    return out


def part_truncate(ctx, rep, hook, mdl, seg):
    rng = ctx.rng
    tails = ["", "→", "\x1b[7m→\x1b[0m", "..", "日", "…"]
    n = ctx.n(600, 20000)
    # a quarter of the strings contain clusters wider than 2 columns; most of those are cut inside one of them (the
    # `width_of_grapheme > 2` arm of `truncate_str_impl`)
    strings = [gen_painted(rng, wide=(k % 4 == 0)) for k in range(n)]
    its = items_of(hook, strings + tails)
    tail_items = dict(zip(tails, its[len(strings):]))
    reqs, cases = [], []
    for s_, it in zip(strings, its):
        w = vis_width(seg, it)
        dw = rng.choice([0, 1, 2, max(w - 1, 0), max(w - 2, 0), w, w + 1, max(w // 2, 0), 3, 5])
        fill = 1 if rng.random() < 0.8 else 0
        tail = rng.choice(tails) if fill else ""
        wo = wide_offsets(it)
        if wo and rng.random() < 0.8:
            off, cw = rng.choice(wo)
            tw_ = vis_width(seg, tail_items[tail])
            dw = off + tw_ + rng.randrange(cw)
        cwid = cut_width(it, dw, vis_width(seg, tail_items[tail]))
        if w > dw and cwid is not None:
            rep.count("wrap.truncate:cut-at-cluster-width=%s" % (cwid if cwid < 5 else "5+"))
            if cwid > 2:
                rep.count("wrap.truncate:wide-cluster-at-cut:fill=%d" % fill)
        reqs.append(f"wrap.truncate {dw} {fill} {f_items(it)} {f_items(tail_items[tail])}")
        cases.append(dict(op="wrap.truncate", s=s_, dw=dw, fill=fill, tail=tail, width=w,
                          cls=cut_class(it, dw, vis_width(seg, tail_items[tail]))))
        reqs.append(f"wrap.measure {f_items(it)}")
        cases.append(dict(op="wrap.measure", s=s_, width=w))
        if rng.random() < 0.5:
            side = rng.choice("lr")
            tl = "\x1b[7m→\x1b[0m"
            cwid = cut_width(it, dw, 1)
            if w > dw and cwid is not None and cwid > 2:
                rep.count("wrap.pad_panel:wide-cluster-at-cut")
            reqs.append(f"wrap.pad_panel {side} {dw} {f_items(it)} {f_items(tail_items[tl])}")
            cases.append(dict(op="wrap.pad_panel", s=s_, dw=dw, side=side, tail=tl, width=w,
                              cls=cut_class(it, dw, 1)))
    impl = hook.ask(reqs, timeout=ctx.n(60, 600))
    model = mdl.ask(reqs, timeout=600) if mdl else [None] * len(reqs)
    outs = [unhx(a.split()[1]).decode("utf-8", "replace") for a in impl if a.startswith("ok x")]
    out_items = dict(zip(outs, items_of(hook, outs)))
    for req, case, a, m in zip(reqs, cases, impl, model):
        judge_trunc(rep, seg, case, req, a, m, out_items)


def judge_trunc(rep, seg, case, req, a, m, out_items):
    if a.startswith("ERR"):
        rep.count(case["op"] + ":skipped-domain")
        return
    rep.case(key=req, nontrivial=case["op"] != "wrap.measure" and case["width"] > case.get("dw", 0))
    rep.count(case["op"])
    case = dict(case, request=req)
    if m is not None:
        rep.corr_case(case["op"], same(a, m), dict(case, impl=a, model=m))
    if a.startswith("PANIC") or a.startswith("DIED"):
        viol(rep, "panic:" + case["op"], "panicked: " + a[:60], dict(case, got=a))
        return
    if case["op"] == "wrap.measure":
        if int(a.split()[1]) != case["width"]:
            viol(rep, "measure_text_width:not-sum-of-cluster-widths", "measure differs from the independent sum",
                 dict(case, got=a))
        return
    out = unhx(a.split()[1]).decode("utf-8", "replace")
    ow = vis_width(seg, out_items[out])
    dw = case["dw"]
    esc_in = re.findall(r"\x1b(?:\[[0-9;]*[A-Za-z]|\][^\x1b]*\x1b\\)", case["s"])
    esc_out = re.findall(r"\x1b(?:\[[0-9;]*[A-Za-z]|\][^\x1b]*\x1b\\)", out)
    if case["op"] == "wrap.truncate":
        cut = case["width"] > dw
        if not cut and out != case["s"]:
            viol(rep, "truncate_str:changes-fitting-string", "a string that fits was changed", dict(case, got=out))
        elif cut and (ow > dw or (case["fill"] and ow != dw and seg.width(re.sub(r"\x1b\[[0-9;]*m", "", case["tail"])) <= dw)):
            viol(rep, ("truncate_str:wider-than-requested:" + case["cls"]) if ow > dw else "truncate_str:narrower-than-requested",
                 f"result is {ow} columns wide, requested {dw}", dict(case, got=out))
        elif cut and esc_out[:len(esc_in)] != esc_in:
            viol(rep, "truncate_str:drops-escape-sequence", "an escape sequence of the input is missing",
                 dict(case, got=out))
    else:
        if case["side"] == "l" and ow != dw:
            viol(rep, "pad_panel:left-panel-not-exact:" + (("truncated:" + case["cls"]) if case["width"] > dw else "padded"),
                 f"left panel is {ow} columns wide, panel width {dw}", dict(case, got=out))
        elif case["side"] == "r" and ow > max(dw, 0) and case["width"] > dw:
            viol(rep, "pad_panel:right-panel-too-wide:" + case["cls"], f"right panel is {ow} columns wide, panel width {dw}",
                 dict(case, got=out))


def part_panels(ctx, rep, hook, mdl):
    reqs, cases = [], []
    for w in list(range(0, ctx.n(40, 200))) + [250, 251, 1000, 1001]:
        for meth in (None, "ansi", "spaces"):
            args = ["--side-by-side", "--width", str(w)] + (["--line-fill-method", meth] if meth else [])
            reqs.append("wrap.panels " + " ".join(hx(a) for a in args))
            cases.append(dict(op="wrap.panels", width=w, method=meth))
    impl = hook.ask(reqs, timeout=300)
    model = mdl.ask(reqs, timeout=120) if mdl else [None] * len(reqs)
    for req, case, a, m in zip(reqs, cases, impl, model):
        judge_panels(rep, dict(case, request=req), req, a, m)


def judge_panels(rep, case, req, a, m):
    rep.case(key=req, nontrivial=case["width"] % 2 == 1)
    if a.startswith("ok") and m is not None:
        rep.corr_case("wrap.panels", a.split()[:3] == m.split()[:3], dict(case, impl=a, model=m))
    if a.startswith("ok"):
        l_, r_ = int(a.split()[1]), int(a.split()[2])
        if l_ != case["width"] // 2 or l_ + r_ > case["width"] or r_ < l_:
            viol(rep, "panels:widths", f"panel widths {l_}+{r_} for --width {case['width']}", dict(case, got=a))


# ------------------------------------------------------------------ Config::max_line_length in side-by-side mode

WML_ARGS = ["unlimited", "∞", "inf", "infinity", "0", "1", "2", "3", "5", "9", "40"]
MLL_ARGS = [0, 1, 2, 19, 20, 40, 100, 299, 300, 301, 3000]


def wml_rows(arg):
    """`--wrap-max-lines` as documented: `unlimited`, `∞`, `inf…` = no limit (None), else the number of
    *additional* rows."""
    return None if (arg in ("∞", "unlimited") or arg.startswith("inf")) else int(arg)


def term_width(hook):
    """The terminal width the implementation sees (a fact of the environment: stdout is a pipe)."""
    a = hook.ask(["wrap.panels " + hx("--side-by-side")], timeout=120)[0]
    return int(a.split()[3]) if a.startswith("ok") and len(a.split()) > 3 else None


def opt_value(args, name):
    v = None
    for i, a in enumerate(args):
        if a == name and i + 1 < len(args):
            v = args[i + 1]
        elif a.startswith(name + "="):
            v = a[len(name) + 1:]
    return v


def long_line(rng, cols, kind):
    """A hunk line body of exactly `cols` display columns (ASCII = 1, CJK = 2), no blank at either end."""
    out, w = [], 0
    while w < cols:
        left = cols - w
        if kind != "ascii" and left >= 2 and rng.random() < (0.9 if kind == "cjk" else 0.25):
            out.append(rng.choice("日本語中文字漢東京"))
            w += 2
        else:
            mid = 0 < w < cols - 1
            out.append(" " if (mid and out[-1] != " " and rng.random() < 0.12) else rng.choice("abcdefghijklmnopqrstuvwxyz_0123456789(){};=."))
            w += 1
    return "".join(out)


def maxlen_args(case):
    return ((["--side-by-side"] if case["sbs"] else []) + ["--wrap-max-lines", case["wml"], "--max-line-length", str(case["mll"])]
            + (["--width", str(case["width"])] if case["width"] else []))


def maxlen_probes(rng, case, T):
    """Input lines that, by the statement of the property, must pass `ingest_line` unchanged under this
    configuration: [(line, class)]."""
    n, mll, W = wml_rows(case["wml"]), case["mll"], case["width"] or T
    probes = []
    if mll > 0:
        probes.append(("+" + long_line(rng, mll - 1, "ascii"), "within-max-line-length"))
    else:
        probes.append(("+" + long_line(rng, rng.choice([3001, 5000, 9000]), "mixed"), "max-line-length-0"))
    if not case["sbs"]:
        return probes
    if n is None:
        for cols in sorted({mll + 1, 2 * mll + 7, max(mll, T // 2) + rng.randrange(1, 50), 3001 + rng.randrange(0, 2000)}):
            probes.append(("+-"[rng.randrange(2)] + long_line(rng, cols, "ascii"), "unlimited-wrap"))
        probes.append((" " + long_line(rng, mll + 40, "cjk"), "unlimited-wrap"))
    elif n >= 1 and T // 2 >= 2:
        rows = n + 1
        if W <= T:
            # the widest text area a side can have: right panel of an odd width with the ANSI fill, no gutter
            lw, cls = W // 2 + W % 2, "fits-rows"
        else:
            # view wider than the terminal: a text area certainly available (panel minus a generous gutter)
            lw, cls = max(W // 2 - 10, 2), "fits-rows:view-wider-than-terminal"
        cap = rows * (lw - 1) + 1      # every row but the last ends with the one-column wrap symbol
        probes.append(("+" + long_line(rng, cap, "ascii"), cls))
        probes.append(("-" + long_line(rng, cap, "cjk"), cls))
        probes.append((" " + long_line(rng, rng.randrange(max(1, cap // 2), cap + 1), "mixed"), cls))
    return probes


MAXLEN_SIG = {"unlimited-wrap": "sbs:unlimited-wrap-truncated:ingest",
              "fits-rows": "sbs:line-that-fits-rows-truncated:ingest",
              "fits-rows:view-wider-than-terminal": "sbs:line-that-fits-rows-truncated:ingest:view-wider-than-terminal",
              "within-max-line-length": "ingest:line-within-max-line-length-truncated",
              "max-line-length-0": "ingest:truncated-with-max-line-length-0"}


def judge_maxlen(rep, case, answers, m):
    """answers: [cfg, machine.ingest_cfg, machine.ingest …] of the implementation; m: the model's value."""
    args = case["args"]
    rep.case(key=("maxlen", tuple(args)), nontrivial=case["sbs"] and wml_rows(case["wml"]) != 0,
             sample=dict(op="maxlen", args=args, impl=answers[1]) if case["sbs"] and case["mll"] in (20, 300) else None)
    rep.count("maxlen:" + ("not-side-by-side" if not case["sbs"] else "rows=" + {None: "unlimited", 0: "1"}.get(wml_rows(case["wml"]), "n")))
    if answers[0].startswith(("PANIC", "DIED")):
        viol(rep, "panic:config-from:wrap-options", "building the Config failed: " + answers[0][:120],
             dict(case, got=answers[0]))
        return
    if not answers[1].startswith("ok "):
        rep.count("maxlen:hook-op-missing-or-failed")
        return
    eff = int(answers[1].split()[1])
    if m is not None:
        rep.corr_case("wrap.maxlen", m == "ok %d" % eff, dict(case, impl=answers[1], model=m))
    for (line, cls), a in zip(case["probes"], answers[2:]):
        rep.count("maxlen:probe:" + cls)
        if not a.startswith("ok "):
            viol(rep, "panic:ingest_line", "ingest_line failed: " + a[:80], dict(case, line=line, got=a))
            continue
        raw = unhx(a.split(" ")[1]).decode("utf-8", "replace")
        if raw != line:
            k = next((j for j in range(min(len(raw), len(line))) if raw[j] != line[j]), min(len(raw), len(line)))
            viol(rep, MAXLEN_SIG[cls],
                 "delta %s: an input line of %d columns (%d bytes) is cut at column %d before anything is wrapped "
                 "(Config::max_line_length = %d)" % (" ".join(args), 1 + sum(2 if ord(ch) > 0x2e7f else 1 for ch in line[1:]),
                                                     len(line.encode()), k, eff),
                 dict(op="maxlen", args=args, sbs=case["sbs"], wml=case["wml"], mll=case["mll"], width=case["width"],
                      term_width=case["term_width"], probes=[[line, cls]], line=line, got=raw[-40:], max_line_length=eff))


def maxlen_requests(case):
    return (["cfg " + " ".join(hx(x) for x in case["args"]), "machine.ingest_cfg"]
            + ["machine.ingest " + hx(l) for l, _ in case["probes"]])


def maxlen_model_request(case):
    n = wml_rows(case["wml"])
    # decorations_width: Fixed(--width) / Fixed(terminal width) without --width
    return "wrap.maxlen %d %s %d %d %d" % (1 if case["sbs"] else 0, "-" if n is None else n, case["mll"], case["term_width"],
                                           case["width"] or case["term_width"])


def part_maxlen(ctx, rep, hook, mdl):
    """`Config::max_line_length` (what `ingest_line` truncates to) for --side-by-side x --wrap-max-lines x
    --max-line-length x --width: model vs implementation, and the property on probe lines."""
    rng = ctx.rng
    T = term_width(hook)
    if T is None:
        rep.count("maxlen:hook-op-missing-or-failed")
        return
    rep.notes["available_terminal_width"] = T
    combos = [(True, w, m, None) for w in WML_ARGS for m in MLL_ARGS]
    widths = [max(T // 2, 12), T - 1, T, T + 1, 2 * T, 5 * T + 1]
    for _ in range(ctx.n(130, 2500)):
        combos.append((rng.random() < 0.85, rng.choice(WML_ARGS + [str(rng.randrange(0, 30))]),
                       rng.choice(MLL_ARGS + [rng.randrange(0, 700)]), rng.choice([None] + widths + [rng.randrange(12, 3 * T)])))
    cases, reqs, sticky, spans = [], [], [], []
    for sbs, wml, mll, width in combos:
        case = dict(op="maxlen", sbs=sbs, wml=wml, mll=mll, width=width, term_width=T)
        case["args"] = maxlen_args(case)
        case["probes"] = maxlen_probes(rng, case, T)
        r = maxlen_requests(case)
        sticky.append(len(reqs))
        spans.append((len(reqs), len(reqs) + len(r)))
        reqs += r
        cases.append(case)
    impl = hook.ask(reqs, timeout=ctx.n(120, 900), sticky=sticky)
    model = mdl.ask([maxlen_model_request(c) for c in cases], timeout=300) if mdl else [None] * len(cases)
    for case, (a, b), m in zip(cases, spans, model):
        judge_maxlen(rep, case, impl[a:b], m)


# ------------------------------------------------------------------ the real binary, --side-by-side

DELIM = "⡇"
ANSI_RE = re.compile(r"\x1b(?:\[[0-9;:?]*[ -/]*[@-~]|\][^\x07\x1b]*(?:\x07|\x1b\\))")


def gen_text_line(rng, kind):
    words = ["let", "x", "=", "foo(bar)", "return", "value;", "if", "a<b", "{", "}", "日本語", "テキスト", "naïve",
             "é́", "1234567890", "the", "quick", "brown", "fox", "😀", "wide字", "ｆｕｌｌ"]
    n = rng.choice([0, 1, 2, 4, 7, 12, 20])
    parts = []
    for _ in range(n):
        w = rng.choice(words)
        if kind == "ascii":
            w = re.sub(r"[^\x00-\x7f]", "z", w)
        parts.append(w)
    line = " ".join(parts)
    if rng.random() < 0.25:
        line = rng.choice(["  ", "    ", "\t"]) + line
    if kind == "zw" and line and rng.random() < 0.7:
        k = rng.randrange(len(line))
        line = line[:k] + ZW + line[k:]
    if rng.random() < 0.1:
        line = line.replace(" ", "\t", 1)
    return line


def gen_diff(rng):
    """A two-way unified diff with one or two hunks. Returns (diff text, hunks) where a hunk is
    (old start, new start, [(' '|'-'|'+', text)])."""
    ext = rng.choice(["txt", "txt", "rs", "py", "md"])
    kind = rng.choice(["ascii", "mixed", "mixed", "zw"])
    hunks, out = [], [f"diff --git a/f.{ext} b/f.{ext}", "index 1111111..2222222 100644", f"--- a/f.{ext}", f"+++ b/f.{ext}"]
    if rng.random() < 0.7:
        o = rng.randrange(1, 40)
    else:
        o = rng.choice([97, 100, 996, 1003, 9993, 9998, 10001, 12345, 99996, 100002])
    r_ = rng.random()
    if r_ < 0.6:
        n = o + rng.randrange(0, 3)
    elif r_ < 0.8:
        n = max(1, o - rng.choice([60, 950, 2000, 9500, 95000]))     # old numbers have more digits
    else:
        n = o + rng.choice([60, 950, 9500, 95000])                   # new numbers have more digits
    for _ in range(rng.choice([1, 1, 2])):
        body = []
        for _ in range(rng.randrange(1, 5)):
            r = rng.random()
            if r < 0.3:
                body.append((" ", gen_text_line(rng, kind)))
            elif r < 0.65:
                base = gen_text_line(rng, kind)
                body.append(("-", base))
                if rng.random() < 0.7:
                    # a similar line, so that delta pairs the two
                    mod = base.replace("x", "y", 1) if "x" in base else base + " changed"
                    body.append(("+", mod))
            else:
                for _ in range(rng.randrange(1, 3)):
                    body.append((rng.choice("-+"), gen_text_line(rng, kind)))
        # a valid diff has its '-' run before the '+' run inside a change block; reorder blocks
        norm, blk = [], []
        for tag, text in body + [(" ", None)]:
            if tag == " ":
                norm += [x for x in blk if x[0] == "-"] + [x for x in blk if x[0] == "+"]
                blk = []
                if text is not None:
                    norm.append((tag, text))
            else:
                blk.append((tag, text))
        oc = sum(1 for t, _ in norm if t in " -")
        nc = sum(1 for t, _ in norm if t in " +")
        out.append(f"@@ -{o},{oc} +{n},{nc} @@")
        out += [t + x for t, x in norm]
        hunks.append((o, n, norm))
        o += oc + rng.randrange(3, 9)
        n += nc + rng.randrange(3, 9)
    return "\n".join(out) + "\n", hunks, ext, kind


def split_panels(seg, row, width):
    """Clusters of a stripped output row -> (left text, right text, total width, exact boundary?)."""
    cl = seg.one(row)
    half = width // 2
    col, left, right, exact = 0, [], [], False
    for g, w in cl:
        if col < half or (w == 0 and not right):
            # (zero-width clusters at the boundary end the left panel)
            left.append(g)
        else:
            if col == half and not right:
                exact = True
            right.append(g)
        col += w
    if col <= half:
        exact = col == half or not right
    return "".join(left), "".join(right), col, exact


def run_sbs_case(ctx, case):
    args = ["--no-gitconfig", "--side-by-side", "--width", str(case["width"]),
            "--line-numbers-left-format", "{nm:>4}" + DELIM, "--line-numbers-right-format", "{np:>4}" + DELIM,
            "--wrap-max-lines", case["wrap_max_lines"]] + case["extra"]
    env = {}
    try:
        rc, out, err = ctx.run_delta(args, case["diff"].encode("utf-8"), env=env, timeout=case.get("timeout", 10))
    except Exception as e:   # pragma: no cover
        return ("error", str(e), "")
    return rc, out.decode("utf-8", "replace"), err.decode("utf-8", "replace")


def limited_run_delta(ctx, args, stdin_bytes, timeout):
    """run_delta under an address-space limit (the non-terminating wrap loop eats memory)."""
    e = dict(os.environ)
    for k in ("GIT_CONFIG_PARAMETERS", "DELTA_FEATURES", "DELTA_PAGER", "PAGER", "BAT_PAGER", "BAT_THEME",
              "COLORTERM", "DELTA_VERIF_HOOK", "LESS", "GIT_PREFIX"):
        e.pop(k, None)
    home = os.path.join(os.path.dirname(os.path.dirname(ctx.delta.rstrip("/"))), "..", "home")
    from ..core import BUILD
    e["HOME"] = os.path.join(BUILD, "home")
    os.makedirs(e["HOME"], exist_ok=True)
    e["GIT_CONFIG_NOSYSTEM"] = "1"
    e["DELTA_VERIF_FORCE_GUESS"] = "none"
    try:
        p = subprocess.run(["sh", "-c", 'ulimit -v 2000000; exec "$0" "$@"', ctx.delta] + list(args), input=stdin_bytes,
                           stdout=subprocess.PIPE, stderr=subprocess.PIPE, env=e, timeout=timeout)
        return p.returncode, p.stdout, p.stderr
    except subprocess.TimeoutExpired as ex:
        return "timeout", ex.stdout or b"", ex.stderr or b""


WITNESS_HANG = ("diff --git a/f.txt b/f.txt\n--- a/f.txt\n+++ b/f.txt\n@@ -1 +1 @@\n-日本語\n+日本\n")
WITNESS_ZW = ("diff --git a/f.rs b/f.rs\n--- a/f.rs\n+++ b/f.rs\n@@ -1 +1 @@\n-fn main() ​x x } value;\n+fn main() ​x x } value; y\n")
WITNESS_WIDESYM = ("diff --git a/x.py b/x.py\n--- a/x.py\n+++ b/x.py\n@@ -1,3 +1,2 @@ class X:\n-baz) \"str\"\n")
WITNESS_TRUNC = ("diff --git a/f.txt b/f.txt\n--- a/f.txt\n+++ b/f.txt\n@@ -1,2 +1,2 @@\n-abcd日本語 x = 1\n+abcd日本語 x = 2\n ctx\n")


def hunks_of(diff):
    hunks, cur = [], None
    for ln in diff.split("\n"):
        m = re.match(r"^@@ -(\d+)(?:,\d+)? \+(\d+)(?:,\d+)? @@", ln)
        if m:
            cur = (int(m.group(1)), int(m.group(2)), [])
            hunks.append(cur)
        elif cur is not None and ln[:1] in (" ", "-", "+"):
            cur[2].append((ln[0], ln[1:]))
    return hunks


def part_binary(ctx, rep, seg):
    rng = ctx.rng
    cases = []

    def add(diff, ext, kind, width, wml, extra=(), syms=DEFAULT_SYMS, markers=False, gen="random"):
        cases.append(dict(op="delta --side-by-side", diff=diff, hunks=hunks_of(diff), ext=ext, kind=kind, width=width,
                          wrap_max_lines=wml, extra=list(extra), syms=syms, markers=markers, gen=gen))
    # fixed witnesses of the defects known on the pinned tree (each run confirms them on the real binary)
    add(WITNESS_HANG, "txt", "mixed", 14, "unlimited", gen="witness-hang")
    add(WITNESS_HANG, "txt", "mixed", 14, "3", gen="witness-junk-rows")
    for w in range(24, 44):
        add(WITNESS_ZW, "rs", "zw", w, "2", gen="witness-zero-width")
    for w in (24, 25, 26, 27, 28):
        add(WITNESS_TRUNC, "txt", "mixed", w, "0", gen="witness-truncate")
    for w in (20, 21, 22, 23):
        add(WITNESS_WIDESYM, "py", "mixed", w, "2", extra=["--wrap-left-symbol", "日"], syms=("日", "↴", "…"),
            gen="witness-wide-symbol")
    for _ in range(ctx.n(260, 10000)):
        diff, hunks, ext, kind = gen_diff(rng)
        markers = rng.random() < 0.2
        # the narrowest width that fits the gutters of this diff and leaves two text columns on both sides
        nfw_ = max(number_field_widths(dict(hunks=hunks_of(diff))))
        lo = 2 * (nfw_ + 1 + (1 if markers else 0) + 2)
        r = rng.random()
        width = rng.randrange(lo, lo + 10) if r < 0.3 else rng.randrange(lo + 10, 140)
        wml = rng.choice(["0", "1", "2", "2", "5", "unlimited", "unlimited"])
        extra = []
        if rng.random() < 0.4:
            extra += ["--line-fill-method", rng.choice(["spaces", "ansi"])]
        if rng.random() < 0.25:
            extra += ["--wrap-right-percent", rng.choice(["1", "20", "50", "99"])]
        syms = DEFAULT_SYMS
        if rng.random() < 0.15:
            syms = ("+", "<", ">")
            extra += ["--wrap-left-symbol", "+", "--wrap-right-symbol", "<", "--wrap-right-prefix-symbol", ">"]
        elif rng.random() < 0.04:
            ws = rng.choice(["日", "​"])
            syms = (ws, "↴", "…")
            extra += ["--wrap-left-symbol", ws]
        if markers:
            extra += ["--keep-plus-minus-markers"]
        if rng.random() < 0.15:
            extra += ["--tabs", rng.choice(["2", "4"])]
        add(diff, ext, kind, width, wml, extra, syms, markers)

    # long hunk lines x --max-line-length x wrap limits: the input is cut at Config::max_line_length *before* it is
    # wrapped, so with unlimited rows nothing may be cut and with N rows nothing the N rows can show
    T = term_width(seg.hook) or 80
    for _ in range(ctx.n(70, 2500)):
        wml = rng.choice(["unlimited", "unlimited", "∞", "inf", "1", "2", "4"])
        mll = rng.choice([None, 0, 20, 40, 100, 100, 250])
        markers = rng.random() < 0.2
        lo = 2 * (4 + 1 + (1 if markers else 0) + 8)
        r = rng.random()
        if wml_rows(wml) is None:
            width = rng.randrange(lo, 150)
        elif r < 0.85:
            width = rng.randrange(lo, T + 1)              # the view is not wider than the terminal
        else:
            width = rng.randrange(T + 1, 3 * T)           # wider than the terminal (a pipe counts as 80 columns)
        lw = width // 2 - 5 - (1 if markers else 0)
        base = mll if mll is not None else 3000
        kind = rng.choice(["ascii", "ascii", "mixed", "cjk"])
        if wml_rows(wml) is None:
            if mll is None and rng.random() < 0.7:
                base, extra_ml = 300, ["--max-line-length", "300"]    # (keeps most runs short; the default 3000 is tried too)
            else:
                extra_ml = [] if mll is None else ["--max-line-length", str(mll)]
            cols = [base + rng.randrange(0, 3), base + rng.randrange(3, 200), rng.randrange(max(base // 2, 1), 2 * base + 60)]
        else:
            extra_ml = [] if mll is None else ["--max-line-length", str(mll)]
            cap = (wml_rows(wml) + 1) * (lw - 1) + 1
            cols = [cap, cap - rng.randrange(0, 4), cap + rng.randrange(1, 80), rng.randrange(max(cap // 2, 1), cap + 40)]
        a_, b_ = long_line(rng, max(rng.choice(cols), 1), kind), long_line(rng, max(rng.choice(cols), 1), kind)
        shape = rng.randrange(4)
        body = [("-", a_), ("+", b_)] if shape == 0 else [(" ", a_), ("+", b_)] if shape == 1 else \
            [("-", a_), (" ", "short")] if shape == 2 else [(" ", "ctx"), ("-", a_), ("+", a_[:len(a_) // 2] + "X" + a_[len(a_) // 2:]), (" ", b_)]
        o = rng.randrange(1, 90)
        oc, nc = sum(1 for t, _ in body if t in " -"), sum(1 for t, _ in body if t in " +")
        diff = "\n".join(["diff --git a/f.txt b/f.txt", "index 1111111..2222222 100644", "--- a/f.txt", "+++ b/f.txt",
                          f"@@ -{o},{oc} +{o},{nc} @@"] + [t + x for t, x in body]) + "\n"
        extra = list(extra_ml)
        if rng.random() < 0.3:
            extra += ["--line-fill-method", rng.choice(["spaces", "ansi"])]
        if markers:
            extra += ["--keep-plus-minus-markers"]
        add(diff, "txt", kind, width, wml, extra, DEFAULT_SYMS, markers, gen="long-line-x-max-line-length")
    for c_ in cases:
        c_["term_width"] = T

    def one(case):
        args = ["--no-gitconfig", "--side-by-side", "--width", str(case["width"]),
                "--line-numbers-left-format", "{nm:>4}" + DELIM, "--line-numbers-right-format", "{np:>4}" + DELIM,
                "--wrap-max-lines", case["wrap_max_lines"]] + case["extra"]
        case["args"] = args
        return limited_run_delta(ctx, args, case["diff"].encode("utf-8"), ctx.n(6, 15))
    results = parallel_map(one, cases)
    # a timeout on a loaded machine is not yet a hang: retry those once, alone, with a long timeout
    # (a real non-terminating run ends by the address-space limit long before)
    for i, (rc, out, err) in enumerate(results):
        if rc == "timeout":
            rep.count("binary:timeout-retried")
            results[i] = limited_run_delta(ctx, cases[i]["args"], cases[i]["diff"].encode("utf-8"), 90)
    # segment every output row in one batch
    decoded = []
    for case, (rc, out, err) in zip(cases, results):
        rows = []
        if rc == 0:
            text = ANSI_RE.sub("", out.decode("utf-8", "replace"))
            rows = [r for r in text.split("\n") if DELIM in r]
            case["_out"] = text
        decoded.append(rows)
    seg.many([r for rows in decoded for r in rows])
    for case, (rc, out, err), rows in zip(cases, results, decoded):
        oracle_binary(ctx, rep, seg, case, rc, err.decode("utf-8", "replace"), rows)


def tab_width(case):
    if "--tabs" in case["extra"]:
        return int(case["extra"][case["extra"].index("--tabs") + 1])
    return 8


def number_field_widths(case):
    """Per hunk: width of the line-number field, max(4, digits of the largest line number of the hunk)."""
    out = []
    for o, n, body in case["hunks"]:
        oc = sum(1 for t, _ in body if t in " -")
        nc = sum(1 for t, _ in body if t in " +")
        out.append(max(4, len(str(max(o + oc, n + nc)))))
    return out


def panel_widths(case):
    width = case["width"]
    half = width // 2
    a = case["extra"]
    spaces = "--line-fill-method" in a and a[a.index("--line-fill-method") + 1] == "spaces"
    return half, half + (1 if (width % 2 == 1 and not spaces) else 0)


def side_text_widths(case):
    """Text columns of the left and the right panel (panel width minus gutter minus marker), for the
    narrowest number field of the diff."""
    pl, pr = panel_widths(case)
    gut = min(number_field_widths(case) or [4]) + 1 + (1 if case["markers"] else 0)
    return pl - gut, pr - gut


def oracle_binary(ctx, rep, seg, case, rc, err, rows):
    width = case["width"]
    half = width // 2
    lwl, lwr = side_text_widths(case)
    replay = dict(op=case["op"], args=case["args"], diff=case["diff"], width=width, term_width=case.get("term_width"))
    body_l = [x for _, _, body in case["hunks"] for t, x in body if t in " -"]
    body_r = [x for _, _, body in case["hunks"] for t, x in body if t in " +"]
    tw = tab_width(case)

    def too_wide(text, lw):
        return [w for _, w in seg.one(text.replace("\t", " " * tw)) if w + 1 > lw]
    # a cluster that does not fit next to the wrap symbol, on a side that wraps at all
    wide_cluster = (lwl >= 2 and any(too_wide(t, lwl) for t in body_l)) or (lwr >= 2 and any(too_wide(t, lwr) for t in body_r))
    has_wide = any(w >= 2 for t in body_l + body_r for _, w in seg.one(t))
    rep.count("binary:ext=" + case["ext"])
    lw = min(lwl, lwr)
    rep.count("binary:text-width=" + ("2" if lw <= 2 else "3-9" if lw < 10 else "10-29" if lw < 30 else "30+"))
    rep.count("binary:wrap-max-lines=" + case["wrap_max_lines"])
    key = (case["diff"], tuple(case["args"]))
    sym1 = all(seg.width(x) == 1 for x in case["syms"])
    if not sym1:
        # a wrap symbol that is not one column wide: delta's option check is meant to refuse it
        rep.count("binary:wrap-symbol-width-not-1")
        rep.case(key=key, nontrivial=True)
        if rc == 2 and "Invalid value for wrap-" in err:
            rep.count("binary:wrap-symbol-rejected")
        elif rc == "timeout":
            viol(rep, "hang:side-by-side:wrap-symbol-width-not-1", "delta --side-by-side did not terminate", replay)
        elif rc != 0:
            m = re.search(r"panicked at ([^\n]*)\n([^\n]*)", err)
            viol(rep, "panic:side-by-side:syntax-and-diff-wrapping-disagree:wrap-symbol-width-not-1"
                 if ("String mismatch encountered while superimposing" in err or "syntax and diff wrapping differs" in err)
                 else "crash:side-by-side:wrap-symbol-width-not-1:rc=%s" % rc,
                 "delta --side-by-side failed: " + ((m.group(1) + " " + m.group(2)) if m else err[-200:])[:160], replay)
        return
    if rc == "timeout":
        rep.case(key=key, nontrivial=True)
        sig = "hang:side-by-side:cluster-wider-than-text-width-minus-symbol" if wide_cluster else "hang:side-by-side"
        viol(rep, sig, "delta --side-by-side did not terminate", replay)
        return
    if rc != 0:
        rep.case(key=key, nontrivial=True)
        m = re.search(r"panicked at ([^\n]*)\n([^\n]*)", err)
        where = (m.group(1) + " " + m.group(2)) if m else err[-200:]
        zwc = ZW in case["diff"]
        if "String mismatch encountered while superimposing" in err or "syntax and diff wrapping differs" in err:
            sig = "panic:side-by-side:syntax-and-diff-wrapping-disagree" + (":zero-width-cluster" if zwc else "")
        elif "memory allocation" in err and wide_cluster:
            sig = "hang:side-by-side:cluster-wider-than-text-width-minus-symbol"
        else:
            sig = "crash:side-by-side:rc=%s" % rc
        viol(rep, sig, "delta --side-by-side failed: " + where[:160], replay)
        return
    lsym, rsym, psym = case["syms"]
    eff_max = 0 if wml_rows(case["wrap_max_lines"]) is None else wml_rows(case["wrap_max_lines"]) + 1
    # ---- geometry, row by row
    nfw = number_field_widths(case)
    pl_, pr_ = panel_widths(case)
    mk_ = 1 if case["markers"] else 0
    if min(pl_, pr_) - max(nfw) - 1 - mk_ < 1:
        # Below "the narrowest width that fits the number gutters": a gutter (number field, delimiter,
        # marker) fills a whole panel, no text column is left and delta cuts inside the gutter itself. The
        # statement is not made for such widths; what remains is: it terminates (checked above) and no
        # row of the output is wider than --width.
        rep.count("binary:gutter-leaves-no-text-column")
        rep.case(key=key, nontrivial=False)
        for r in case.get("_out", "\n".join(rows)).split("\n"):
            w_ = sum(w for _, w in seg.one(r))
            if w_ > width:
                viol(rep, "sbs:row-wider-than-width:gutter-leaves-no-text-column",
                     f"row is {w_} columns wide, --width {width}", dict(replay, row=r))
                return
        return
    rowinfo = []
    for r in rows:
        left, right, total, exact = split_panels(seg, r, width)
        ml = re.match(r"^([ 0-9]{4,})" + DELIM, left)
        mr = re.match(r"^([ 0-9]{4,})" + DELIM, right)
        cls = ":truncated-row-with-wide-cluster" if ("→" in r and has_wide) else ""
        if total > width:
            viol(rep, "sbs:row-wider-than-width" + cls, f"row is {total} columns wide, --width {width}", dict(replay, row=r))
            rep.case(key=key, nontrivial=True)
            return
        if not exact or not ml or not mr:
            viol(rep, "sbs:right-panel-column" + cls, f"right panel does not start at column {half}", dict(replay, row=r))
            rep.case(key=key, nontrivial=True)
            return
        fws = (len(ml.group(1)), len(mr.group(1)))
        if fws[0] != fws[1] or fws[0] not in nfw:
            viol(rep, "sbs:number-field-width", f"line-number fields are {fws} columns wide, expected one of {sorted(set(nfw))} on both sides",
                 dict(replay, row=r))
            rep.case(key=key, nontrivial=True)
            return
        rowinfo.append((ml.group(1).strip(), left[ml.end():], mr.group(1).strip(), right[mr.end():], fws[0]))
    # ---- content: lines per side, in order, fragments re-joined
    exp_left = [(t, x) for _, _, body in case["hunks"] for t, x in body if t in " -"]
    exp_right = [(t, x) for _, _, body in case["hunks"] for t, x in body if t in " +"]
    exp_nums_l = [o + k for o, _, body in case["hunks"] for k in range(sum(1 for t, _ in body if t in " -"))]
    exp_nums_r = [n + k for _, n, body in case["hunks"] for k in range(sum(1 for t, _ in body if t in " +"))]
    nontrivial = False
    for side, exp, nums in ((0, exp_left, exp_nums_l), (1, exp_right, exp_nums_r)):
        lines = []
        for info in rowinfo:
            num, text = (info[0], info[1]) if side == 0 else (info[2], info[3])
            if case["markers"]:
                text = text[1:] if text else text
            if num:
                lines.append([int(num), [text], info[4]])
            elif lines and lines[-1][1][-1].rstrip(" ").endswith((lsym, rsym)):
                # a row that follows a wrap symbol on this side continues that line
                lines[-1][1].append(text)
            # else: the empty half of a row whose other side holds a line
        if [x[0] for x in lines] != nums:
            viol(rep, "sbs:lines-per-side", "side %s shows lines %s, the hunks have %s" %
                 ("LR"[side], [x[0] for x in lines][:12], nums[:12]), replay)
            rep.case(key=key, nontrivial=True)
            return
        for (num, frags, fw), (tag, src) in zip(lines, exp):
            want = src.replace("\t", " " * tw)
            # text columns of this line: panel minus its number field, delimiter and marker column;
            # an unchanged line is wrapped to the narrower of the two text widths, on both sides
            tl, tr = pl_ - fw - 1 - mk_, pr_ - fw - 1 - mk_
            lw_line = min(tl, tr) if tag == " " else (tl, tr)[side]
            emax = 1 if lw_line <= 1 else eff_max
            nontrivial = nontrivial or len(frags) > 1
            truncated = frags[-1].rstrip(" ").endswith("→")
            pieces = []
            for k, fr in enumerate(frags):
                fr = fr.rstrip(" ")
                last = k == len(frags) - 1
                if k == 1 and len(frags) == 2 and frags[0].rstrip(" ").endswith(rsym):
                    fr = re.sub(r"^ *" + re.escape(psym), "", fr)
                if not last:
                    fr = fr[:-len(lsym)]
                pieces.append(fr)
            joined = "".join(pieces)
            unfit = lw_line >= 2 and too_wide(want, lw_line)
            # progress: a row that ends in a wrap symbol carries at least one cluster of the line
            empties = [k for k, fr in enumerate(pieces[:-1]) if fr == ""]
            if empties and want.strip(" "):
                viol(rep, "sbs:empty-wrapped-row" + (":cluster-wider-than-text-width-minus-symbol" if unfit else ""),
                     f"line {num}: row {empties[0]} holds only the wrap symbol", replay)
                rep.case(key=key, nontrivial=True)
                return
            vis = lambda t: "".join(g for g, w in seg.one(t) if w > 0)
            if truncated:
                limit_hit = emax > 0 and len(frags) >= emax
                if not limit_hit:
                    # Without a limit (or below it) a line may be cut in exactly one situation: at the
                    # start of a row the next cluster does not fit next to the one-column wrap symbol
                    # (no lossless wrapping exists then; delta stops and cuts with the visible mark).
                    before = vis("".join(pieces[:-1]))
                    wantv = vis(want)
                    rest = wantv[len(before):] if wantv.startswith(before) else None
                    nxt = seg.one(rest)[0] if rest else None
                    stuck = emax == 0 and lw_line >= 2 and nxt is not None and nxt[1] + 1 > lw_line
                    if not stuck:
                        # name the class: was the line longer than what the user allowed (--max-line-length)?
                        mll_opt = opt_value(case["args"], "--max-line-length")
                        mll_opt = 3000 if mll_opt is None else int(mll_opt)
                        shown = seg.width(before) + seg.width(vis(pieces[-1]))
                        tw_ = case.get("term_width")
                        if emax == 0 and lw_line >= 2:
                            sig = "sbs:unlimited-wrap-truncated"
                        elif emax >= 2 and tw_ and width > tw_ and mll_opt > 0 and shown + 1 >= mll_opt:
                            sig = "sbs:truncated-before-wrap-limit:view-wider-than-terminal"
                        else:
                            sig = "sbs:truncated-before-wrap-limit"
                        viol(rep, sig,
                             f"line {num} ({seg.width(want) + 1} columns with its prefix; --max-line-length {mll_opt}) is cut (→) "
                             f"after {shown} columns on row {len(frags)}, limit {emax or 'none'}, and the next "
                             f"cluster {nxt!r} would fit next to the wrap symbol (text width {lw_line})", replay)
                        rep.case(key=key, nontrivial=True)
                        return
                    rep.count("binary:cut-because-cluster-cannot-stand-next-to-symbol")
                # what precedes the mark is a prefix of the line; the cut may have replaced the
                # first half of a wide character by a blank
                got, wantv = vis(joined[:-1]), vis(want)
                g2 = got.rstrip(" ")
                ok = wantv.startswith(got) or wantv.startswith(g2) or (got.endswith(" ") and wantv.startswith(got[:-1]))
            else:
                j = joined.rstrip(" ")
                ok = j == want.rstrip(" ") or (want.startswith(j) and seg.width(want[len(j):].rstrip(" ")) == 0)
            if not ok:
                viol(rep, "sbs:line-not-reproduced",
                     f"line {num} side {'LR'[side]}: fragments {frags!r} do not give back {want!r}", replay)
                rep.case(key=key, nontrivial=True)
                return
    # ---- unchanged lines are on both sides of the same row
    ctx_nums = [(o + sum(1 for t, _ in body[:k] if t in " -"), n + sum(1 for t, _ in body[:k] if t in " +"))
                for o, n, body in case["hunks"] for k, (t, _) in enumerate(body) if t == " "]
    both = [(int(x[0]), int(x[2])) for x in rowinfo if x[0] and x[2]]
    for pair in ctx_nums:
        if pair not in both:
            viol(rep, "sbs:context-line-not-on-one-row", f"unchanged line {pair} is not on both sides of one row", replay)
            rep.case(key=key, nontrivial=True)
            return
    rep.case(key=key, nontrivial=nontrivial,
             sample=dict(op="delta -s", width=width, wrap_max_lines=case["wrap_max_lines"], rows=rows[:6]) if nontrivial else None)
    rep.count("binary:" + ("wrapped" if nontrivial else "unwrapped"))


# ------------------------------------------------------------------ entry points

# ------------------------------------------------------------------ composed side-by-side rows (session 4, T3)
# Model: DeltaModel/SbsRow.lean + SbsRowRun.lean (driver ops wrap.sbs_hunk / wrap.sbs_panel).
# Partner: hook ops that exist — `linenum.blocks` (a whole hunk through a real Painter: real alignment, real wrapping,
# real paint_zero_line / paint_buffered_minus_and_plus_lines) and `style.pad_panel` (get_right_fill_style_for_panel +
# pad_panel_line_to_width incl. the ANSI fill, which `linenum.blocks` cannot reach: stdout is not a terminal).

SBS_ALPHABET = ["a", "b", "c", "x", "y", " ", "  ", "_", "日", "本", "語", "é", "🙂", "ü", "Z", "0", "(", ")", ";"]
SBS_FORMATS = [(None, None), ("{nm:>3}┊", "{np:>3}┊"), ("{nm:^5}|", "|{np:<2}|"), ("", ""), ("{nm} {np}:", "{np}"),
               ("[{nm:>6}]", "[{np:>6}]"), ("#", "{nm:>2}/{np:>2}|")]


def sbs_line(rng, target):
    out = ""
    while len(out) < target:
        out += rng.choice(SBS_ALPHABET) if rng.random() < 0.6 else rng.choice("abcdefgh")
    return out.strip("\n")


def sbs_gen_config(rng, T):
    kind = rng.random()
    if kind < 0.12:
        width, fixed, w = "variable", 0, T
    else:
        w = rng.choice([rng.randint(8, 24), rng.randint(24, 64), rng.randint(24, 64), rng.randint(64, 130)])
        width, fixed = str(w), 1
    optfill = rng.choice([None, "ansi", "spaces"])
    keep = rng.random() < 0.35
    fl, fr = rng.choice(SBS_FORMATS)
    wml = rng.choice(["0", "1", "2", "3", "unlimited"])
    args = ["--side-by-side", "--width=" + width, "--wrap-max-lines=" + wml]
    if optfill:
        args.append("--line-fill-method=" + optfill)
    if keep:
        args.append("--keep-plus-minus-markers")
    if fl is not None:
        args += ["--line-numbers-left-format=" + fl, "--line-numbers-right-format=" + fr]
    bg = dict(m=True, p=True, z=False)
    if rng.random() < 0.3:
        args.append("--minus-style=normal"); bg["m"] = False
    if rng.random() < 0.3:
        args.append("--plus-style=normal"); bg["p"] = False
    if rng.random() < 0.4:
        args.append('--zero-style=normal "#222222"'); bg["z"] = True
    return dict(args=args, fixed=fixed, w=w, optfill=2 if optfill in (None, "ansi") else 1, keep=keep,
                fl=fl if fl is not None else "│{nm:^4}│", fr=fr if fr is not None else "│{np:^4}│", wml=wml, bg=bg)


def sbs_gen_blocks(rng, cfg):
    half = cfg["w"] // 2
    blocks = []
    for _ in range(rng.randint(1, 4)):
        def ln():
            return sbs_line(rng, rng.choice([0, 1, 3, max(half - 8, 1), half, half + 5, 2 * half + 3, rng.randint(0, 3 * half + 4)]))
        if rng.random() < 0.4:
            blocks.append(("z", ln()))
        else:
            m, p = rng.choice([(1, 0), (0, 1), (1, 1), (2, 1), (1, 2), (2, 2), (3, 0), (0, 2)])
            minus = [ln() for _ in range(m)]
            plus = [(minus[j] + rng.choice(["", "q", " tail"]) if (j < m and rng.random() < 0.6) else ln()) for j in range(p)]
            blocks.append(("s", minus, plus))
    return blocks


def sbs_hook_request(pairs, blocks):
    r = f"linenum.blocks {len(pairs)} " + " ".join(f"{a} {b}" for a, b in pairs) + f" {len(blocks)}"
    for b in blocks:
        if b[0] == "z":
            r += " 0 " + hx(b[1])
        else:
            r += f" 1 {len(b[1])} " + " ".join(hx(x) for x in b[1]) + f" {len(b[2])} " + " ".join(hx(x) for x in b[2])
    return " ".join(r.split())


def sbs_parse_blocks(ans, blocks):
    """-> ([(rows, alignment|None, wl, wr)], left, right, lw, rw, pl, pr)"""
    f = ans.split()
    pos, nb, out = 2, int(f[1]), []
    for _ in range(nb):
        kind = f[pos]; pos += 1
        n = int(f[pos]); pos += 1
        rows = [unhx(x).decode("utf-8", "replace") for x in f[pos:pos + n]]; pos += n
        if kind == "0":
            out.append((rows, None, [int(f[pos])], None)); pos += 1
        else:
            n = int(f[pos]); pos += 1
            al = []
            for k in range(n):
                a, b = f[pos + 2 * k], f[pos + 2 * k + 1]
                al.append((None if a == "-" else int(a), None if b == "-" else int(b)))
            pos += 2 * n
            n = int(f[pos]); pos += 1
            wl = [int(x) for x in f[pos:pos + n]]; pos += n
            n = int(f[pos]); pos += 1
            wr = [int(x) for x in f[pos:pos + n]]; pos += n
            out.append((rows, al, wl, wr))
    left, right, lw, rw, pl, pr = (int(x) for x in f[pos:pos + 6])
    return out, left, right, lw, rw, pl, pr


def sbs_model_request(seg, cfg, pairs, blocks, parsed):
    def cl(text):
        return f_clusters(seg.one(text + "\n"))
    chars = sorted({ch for ch in cfg["fl"] + cfg["fr"] + " -+" if seg.width(ch) != 1})
    r = [f"wrap.sbs_hunk {cfg['fixed']} {cfg['w']} {cfg['optfill']} 1 {1 if cfg['keep'] else 0} {cfg['fixed']}",
         hx(cfg["fl"]), hx(cfg["fr"]), str(len(chars))] + [f"{hx(ch)} {seg.width(ch)}" for ch in chars]
    r.append("1 T " + f_clusters(seg.one("→")))
    maxl = 0 if wml_rows(cfg["wml"]) is None else wml_rows(cfg["wml"]) + 1
    r.append(f_cfg(seg, maxl, 370, DEFAULT_SYMS))
    r.append(f"{len(pairs)} " + " ".join(f"{a} {b}" for a, b in pairs))
    r.append(str(len(blocks)))
    bg = cfg["bg"]
    for b, (rows, al, wl, wr) in zip(blocks, parsed):
        if b[0] == "z":
            r.append(f"0 {1 if bg['z'] else 0} " + cl(b[1]))
        else:
            r.append(f"1 {1 if bg['m'] else 0} {1 if bg['p'] else 0} {len(b[1])} " + " ".join(cl(x) for x in b[1]) +
                     f" {len(b[2])} " + " ".join(cl(x) for x in b[2]) +
                     f" {len(al)} " + " ".join(f"{'-' if a is None else a} {'-' if c is None else c}" for a, c in al))
    return " ".join(" ".join(r).split())


def sbs_boundary(seg, row, col):
    """Index into the cluster list of `row` at which exactly `col` columns have been used (zero-width clusters that
    follow belong to the left part), or None when a cluster straddles the column / the row is shorter."""
    used, cl = 0, seg.one(row)
    for i, (_, w) in enumerate(cl):
        if used == col and w > 0:
            return i
        used += w
        if used > col:
            return None
    return len(cl) if used == col else None


def judge_sbs_hunk(rep, seg, case, ans, m):
    cfg, blocks = case["cfg"], case["blocks"]
    key = ("sbs_hunk", " ".join(cfg["args"]), case["req"])
    replay = dict(op="wrap.sbs_hunk", cfg=cfg, blocks=blocks, pairs=case["pairs"], req=case["req"])
    if not ans.startswith("ok "):
        rep.case(key=key, nontrivial=True)
        rep.count("sbs_hunk:impl-failed")
        viol(rep, "panic:sbs-hunk:" + ("panic" if ans.startswith("PANIC") else "error"),
             "painting a hunk side by side failed: " + (unhx(ans.split()[1]).decode("utf-8", "replace")[:160] if ans.startswith("PANIC x") else ans[:160]),
             dict(case=replay, impl=ans))
        return None
    parsed, left, right, lw, rw, pl, pr = sbs_parse_blocks(ans, blocks)
    allrows = [r for (rows, _, _, _) in parsed for r in rows]
    seg.many(allrows)
    wrapped = any(x > 1 for (_, _, wl, wr) in parsed for x in (wl or []) + (wr or []))
    rep.case(key=key, nontrivial=len(allrows) >= 2, sample=dict(args=cfg["args"], rows=allrows[:6]) if rep.evaluations % 400 == 3 else None)
    rep.count("sbs_hunk:" + ("wrapped" if wrapped else "unwrapped"))
    rep.count("sbs_hunk:width-" + ("variable" if not cfg["fixed"] else ("odd" if cfg["w"] % 2 else "even")))
    rep.count("sbs_hunk:text-width-" + ("none" if min(pl - lw, pr - rw) <= 0 else ("tiny" if min(pl - lw, pr - rw) <= 2 else "normal")))
    # direct oracle (the property, on the implementation's rows): (i) right panel at the same column, (ii) row <= --width
    for r in allrows:
        if seg.width(r) > cfg["w"]:
            viol(rep, "sbs-hunk:row-wider-than-width", f"row of {seg.width(r)} columns with --width {cfg['w']}: {r!r}", dict(case=replay, row=r))
            break
        if sbs_boundary(seg, r, pl) is None:
            viol(rep, "sbs-hunk:right-panel-column", f"left panel is not exactly {pl} columns wide: {r!r}", dict(case=replay, row=r))
            break
    return parsed, left, right, lw, rw, pl, pr


def compare_sbs_hunk(rep, seg, case, got, m):
    parsed, left, right, lw, rw, pl, pr = got
    replay = dict(op="wrap.sbs_hunk", cfg=case["cfg"], blocks=case["blocks"], pairs=case["pairs"], req=case["req"])
    if m is None:
        return
    if m == "HANG":
        rep.count("sbs_hunk:model-hang-skipped")
        return
    ok = False
    detail = ""
    if m.startswith("ok "):
        f = m.split()
        mp = [int(x) for x in f[1:5]]
        pos, nb, mrows = 6, int(f[5]), []
        for _ in range(nb):
            n = int(f[pos]); pos += 1
            mrows.append([(unhx(f[pos + 2 * k]).decode("utf-8", "replace"), unhx(f[pos + 2 * k + 1]).decode("utf-8", "replace")) for k in range(n)])
            pos += 2 * n
        mc = [int(f[pos]), int(f[pos + 1])]
        irows = [rows for (rows, _, _, _) in parsed]
        ok = mp == [pl, pr, lw, rw] and mc == [left, right] and [[a + b for a, b in blk] for blk in mrows] == irows
        if ok:
            # the model's split point is the panel boundary of the real row
            for blk in mrows:
                for a, _ in blk:
                    if seg.width(a) != pl:
                        ok, detail = False, f"model left panel {a!r} is not {pl} columns"
        else:
            detail = f"panels/gutters impl {[pl, pr, lw, rw]} model {mp}; counters impl {[left, right]} model {mc}"
    rep.corr_case("wrap.sbs_hunk", ok, dict(case=replay, detail=detail, impl=[rows for (rows, _, _, _) in parsed], model=m[:2000]))


def part_sbs_rows(ctx, rep, hook, mdl, seg, only=None):
    rng = ctx.rng
    T = term_width(hook) or 80
    cases = []
    if only is not None:
        cases = [only]
    else:
        for _ in range(ctx.n(36, 1200)):
            cfg = sbs_gen_config(rng, T)
            for _ in range(ctx.n(4, 6)):
                a, c = rng.choice([1, 7, 95, 998, 99997]), rng.choice([1, 8, 99, 1000, 123456])
                blocks = sbs_gen_blocks(rng, cfg)
                nm = sum(len(b[1]) if b[0] == "s" else 1 for b in blocks)
                np_ = sum(len(b[2]) if b[0] == "s" else 1 for b in blocks)
                pairs = [(a, nm), (c, np_)]
                cases.append(dict(cfg=cfg, blocks=blocks, pairs=pairs, req=sbs_hook_request(pairs, blocks)))
    reqs, sticky, idx, cur = [], [], [], None
    for k, case in enumerate(cases):
        if case["cfg"]["args"] != cur:
            cur = case["cfg"]["args"]
            sticky.append(len(reqs)); reqs.append("cfg " + " ".join(hx(x) for x in cur)); idx.append(None)
        reqs.append(case["req"]); idx.append(k)
    impl = hook.ask(reqs, timeout=ctx.n(120, 900), sticky=sticky)
    texts = set()
    for case in cases:
        for b in case["blocks"]:
            for t in ([b[1]] if b[0] == "z" else b[1] + b[2]):
                texts.add(t + "\n")
        texts.update(case["cfg"]["fl"] + case["cfg"]["fr"])
    seg.many(sorted(texts))
    mreqs, back, gots = [], [], {}
    for k, ans in zip(idx, impl):
        if k is None:
            continue
        got = judge_sbs_hunk(rep, seg, cases[k], ans, None)
        if got is None:
            continue
        gots[k] = got
        mreqs.append(sbs_model_request(seg, cases[k]["cfg"], cases[k]["pairs"], cases[k]["blocks"], got[0])); back.append(k)
    model = mdl.ask(mreqs, timeout=ctx.n(120, 900)) if (mdl and mreqs) else [None] * len(mreqs)
    for k, m in zip(back, model):
        compare_sbs_hunk(rep, seg, cases[k], gots[k], m)


STATE_CODE = dict(m=0, z=2, p=4)


def part_sbs_panel(ctx, rep, hook, mdl, seg, only=None):
    """One panel: fill decision + empty-line marker + truncation + padding, all three should-fill values (incl. the
    ANSI fill) x both sides x is_empty x has_index x state x fill style with / without background x fixed / variable."""
    rng = ctx.rng
    tl = "\x1b[7m→\x1b[0m"
    tail_items = items_of(hook, [tl])[0]
    cases = []
    if only is not None:
        cases = [only]
    else:
        for _ in range(ctx.n(14, 200)):
            w = rng.choice([rng.randint(6, 40), rng.randint(6, 40), "variable"])
            bg = dict(m=rng.random() < 0.6, p=rng.random() < 0.6, z=rng.random() < 0.5)
            args = ["--side-by-side", f"--width={w}", "--line-fill-method=" + rng.choice(["ansi", "spaces"]),
                    "--minus-style=" + ('normal "#3f0001"' if bg["m"] else "normal"), "--plus-style=" + ('normal "#002800"' if bg["p"] else "normal"),
                    "--zero-style=" + ('normal "#222222"' if bg["z"] else "normal")]
            for _ in range(ctx.n(12, 24)):
                text = sbs_line(rng, rng.choice([0, 1, 2, 5, 9, 14, 21, 30, 45]))
                line = text if rng.random() < 0.5 else "\x1b[31m" + text + "\x1b[0m"
                cases.append(dict(args=args, bg=bg, variable=(w == "variable"), line=line, empty=int(rng.random() < 0.25),
                                  index=int(rng.random() < 0.7), state=rng.choice("mpz"), side=rng.choice("lr"),
                                  fill=rng.choice(["ansi", "spaces", "no"])))
    reqs, sticky, idx, cur = [], [], [], None
    for k, c in enumerate(cases):
        if c["args"] != cur:
            cur = c["args"]
            sticky.append(len(reqs)); reqs.append("cfg " + " ".join(hx(x) for x in cur)); idx.append(None)
        reqs.append(f"style.pad_panel {hx(c['line'])} {c['empty']} {c['index']} {c['state']} {c['side']} {c['fill']}"); idx.append(k)
    impl = hook.ask(reqs, timeout=ctx.n(120, 600), sticky=sticky)
    line_items = dict(zip([c["line"] for c in cases], items_of(hook, [c["line"] for c in cases])))
    mreqs, back, outs = [], [], {}
    for k, ans in zip(idx, impl):
        if k is None:
            continue
        c = cases[k]
        replay = dict(op="wrap.sbs_panel", **c)
        key = ("sbs_panel", " ".join(c["args"]), c["line"], c["empty"], c["index"], c["state"], c["side"], c["fill"])
        if ans.startswith("PANIC") and c["empty"] and c["index"] and False:
            continue
        if not ans.startswith("ok "):
            rep.case(key=key, nontrivial=True)
            viol(rep, "panic:sbs-panel", "pad_panel_line_to_width failed: " + ans[:160], dict(case=replay, impl=ans))
            continue
        f = ans.split()
        out, mode, pw = ANSI_RE.sub("", unhx(f[1]).decode("utf-8", "replace")), f[2], int(f[-1])
        rep.case(key=key, nontrivial=seg.width(ANSI_RE.sub("", c["line"])) > pw or mode != "none")
        rep.count(f"sbs_panel:side-{c['side']}:mode-{mode}")
        # direct oracle: left panel exactly the panel width, any panel at most
        ow = seg.width(out)
        if ow > pw or (c["side"] == "l" and ow != pw):
            viol(rep, "sbs-panel:" + ("left-panel-not-exact" if c["side"] == "l" else "panel-too-wide"),
                 f"panel of {ow} columns, panel width {pw}", dict(case=replay, impl=ans))
        outs[k] = (out, mode)
        mreqs.append(f"wrap.sbs_panel {1 if c['side'] == 'l' else 2} {pw} {c['empty']} {c['index']} {STATE_CODE[c['state']]} "
                     f"{1 if c['bg'][c['state']] else 0} {0 if c['variable'] else 1} {dict(no=0, spaces=1, ansi=2)[c['fill']]} "
                     f"{f_items(line_items[c['line']])} {f_items(tail_items)}")
        back.append(k)
    model = mdl.ask(mreqs, timeout=300) if (mdl and mreqs) else [None] * len(mreqs)
    for k, m in zip(back, model):
        if m is None:
            continue
        out, mode = outs[k]
        ok = False
        if m.startswith("ok "):
            f = m.split()
            ok = unhx(f[1]).decode("utf-8", "replace") == out and ["none", "spaces", "ansi"][int(f[2])] == mode
        rep.corr_case("wrap.sbs_panel", ok, dict(case=dict(op="wrap.sbs_panel", **cases[k]), impl=[out, mode], model=m[:600]))


def run(ctx, rep):
    rep.rule = ("wrap.line: every line of <=N clusters over widths {0,1,2} x every section split x newline "
                "placement, line widths 0..8, limits {unlimited,0,1,2,5}; random lines up to 90 clusters with "
                "CJK/emoji-ZWJ/combining/zero-width/tab clusters; wrap.block: random alignments (8% malformed) over "
                "0-3 lines per side with independent syntax/diff sectionings; truncate/pad_panel: random painted "
                "strings x widths around the cut; binary: generated two-way diffs x --width 12..140 (even/odd) x "
                "wrap limits x fill methods x symbols x markers x tab widths; long hunk lines (around --max-line-length / around "
                "what the permitted rows hold) x --max-line-length {default,0,20..300} x limits {unlimited,∞,inf,1,2,4} x widths "
                "below and above the terminal width; maxlen: --side-by-side x 11 --wrap-max-lines values x 11 --max-line-length "
                "values x widths: Config::max_line_length vs the translated function, probe lines through ingest_line. Non-trivial = at least 2 output rows "
                "(wrap), a cut (truncate), an odd width (panels), a wrapped line (binary); distinct by request text")
    hook = limited_hook(ctx)
    mdl = ctx.model("drv_wrap") if ctx.drivers_ok else None
    seg = Seg(hook)
    nl = seg.one("a\n")
    if nl[-1] != ("\n", 0):
        viol(rep, "domain:newline-width", "the newline cluster does not have display width 0 (NlZero)", dict(got=nl))
    part_wrap_line(ctx, rep, hook, mdl, seg)
    part_block(ctx, rep, hook, mdl, seg)
    part_truncate(ctx, rep, hook, mdl, seg)
    part_panels(ctx, rep, hook, mdl)
    part_maxlen(ctx, rep, hook, mdl)
    part_sbs_rows(ctx, rep, hook, mdl, seg)
    part_sbs_panel(ctx, rep, hook, mdl, seg)
    part_binary(ctx, rep, seg)
    rep.extra_trusted += ["unicode-segmentation / unicode-width (clusters and widths are taken from the implementation: text.graphemes)",
                          "ANSI element iterator (items of a painted line are taken from the implementation: wrap.ansi_items)",
                          "line-number gutters, superimposition and painting of sections (C05, C03, C09)"]
    rep.assumptions += ["a newline cluster has display width 0 (checked on every run)",
                        "display width is additive over clusters (requests where it is not are refused by the hook and counted as skipped-domain)",
                        "wrap symbols are one cluster of display width 1 (what delta's option check intends; width 0/2 symbols are exercised in the correspondence only)"]


def replay(ctx, rep, obj):
    """Re-run exactly the recorded case against the current tree."""
    case = obj.get("case", {})
    hook = limited_hook(ctx)
    mdl = ctx.model("drv_wrap") if ctx.drivers_ok else None
    seg = Seg(hook)
    op = case.get("op")
    rep.rule = "replay of one recorded case"
    if op == "wrap.sbs_hunk":
        case["pairs"] = [tuple(x) for x in case["pairs"]]
        case["blocks"] = [tuple(b) for b in case["blocks"]]
        part_sbs_rows(ctx, rep, hook, mdl, seg, only=case)
    elif op == "wrap.sbs_panel":
        part_sbs_panel(ctx, rep, hook, mdl, seg, only=case)
    elif op == "maxlen":
        case = dict(case, term_width=term_width(hook) or case.get("term_width") or 80,
                    probes=[tuple(x) for x in case["probes"]])
        ans = hook.ask(maxlen_requests(case), timeout=60, sticky=[0])
        m = mdl.ask([maxlen_model_request(case)])[0] if mdl else None
        judge_maxlen(rep, case, ans, m)
    elif op == "delta --side-by-side":
        rc, out, err = limited_run_delta(ctx, case["args"], case["diff"].encode("utf-8"), 15)
        rows = []
        text_out = ANSI_RE.sub("", out.decode("utf-8", "replace")) if rc == 0 else ""
        if rc == 0:
            rows = [r for r in text_out.split("\n") if DELIM in r]
        seg.many(rows)
        hunks = hunks_of(case["diff"])
        a = case["args"]
        syms = DEFAULT_SYMS
        if "--wrap-left-symbol" in a:
            syms = (a[a.index("--wrap-left-symbol") + 1], a[a.index("--wrap-right-symbol") + 1],
                    a[a.index("--wrap-right-prefix-symbol") + 1])
        c2 = dict(op=op, diff=case["diff"], hunks=hunks, ext="?", kind="zw" if ZW in case["diff"] else "mixed",
                  width=case["width"], wrap_max_lines=a[a.index("--wrap-max-lines") + 1], extra=a, syms=syms,
                  markers="--keep-plus-minus-markers" in a, args=a, _out=text_out, term_width=term_width(hook))
        oracle_binary(ctx, rep, seg, c2, rc, err.decode("utf-8", "replace"), rows)
    elif "request" in case:
        req = case["request"]
        if op in ("wrap.line", "wrap.block") and "syms" in case and symbols_validated() \
                and any(seg.width(x) != 1 for x in case["syms"]):
            # recorded before delta refused such symbols: wrap_line cannot be reached with them any more
            rep.count("replay:outside-validated-domain(wrap symbol not one column)")
            rep.notes["replay"] = "case lies outside the domain the source validates (wrap symbols of one column); not evaluated"
            return
        m = mdl.ask([req])[0] if mdl else None
        if m == "HANG":
            got = confirm_hang(ctx, rep, req, case)
            rep.corr_case(op, not got.startswith("ok"), dict(case, impl=got, model=m))
            rep.case(key=req, nontrivial=True)
            if not got.startswith("ok"):
                viol(rep, "hang:wrap_line:no-progress", "wrap_line never terminates: " + got[:60], dict(case, got=got))
            return
        a = hook.ask([req], timeout=30)[0]
        if op == "wrap.line":
            case["sections"] = [tuple(x) for x in case["sections"]]
            judge_line(rep, seg, case, req, a, m)
        elif op == "wrap.block":
            judge_block(rep, case, req, a, m)
        elif op in ("wrap.truncate", "wrap.measure", "wrap.pad_panel"):
            outs = [unhx(a.split()[1]).decode("utf-8", "replace")] if a.startswith("ok x") else []
            judge_trunc(rep, seg, case, req, a, m, dict(zip(outs, items_of(hook, outs))))
        elif op == "wrap.panels":
            judge_panels(rep, case, req, a, m)
        else:
            rep.case(key=req, nontrivial=True)
            if m is not None:
                rep.corr_case(str(op), same(a, m), dict(case, impl=a, model=m))
    else:
        run(ctx, rep)
