"""C16 — grep output keeps every hit's path, line number and code.

Correspondence (hook driver `grep.*` ops vs model driver `drv_grep`):
  grep.patterns        the regex texts the translator reconstructs == `Regex::as_str()` of the code
  grep.parse_regex     each of the five regexes vs its hand-written model parser, on valid,
                       near-valid, ambiguous and random lines
  grep.parse           `parse_grep_line` under a grep / a non-grep calling process
  grep.json            `ripgrep_json::parse_line` vs the post-JSON model (Python decodes the JSON)
  grep.sections / grep.expand_sections   `make_style_sections` / `GrepLine::expand_tabs`
  fragment             the Python reading of the theorems' side conditions == the Lean one
  emit                 rows decoded from the real binary == rows of the model's `emit`
Direct oracle (no model involved in the judgement):
  * text lines inside the proved fragments (A numbered+extension 1-10, B unnumbered+extension 1-6 without
    blanks, B2 unnumbered+extension 1-10 / blanks in the path, C extension-less) and every coloured line:
    the real parser returns the generator's record; the fragments are stated with the *documented*
    extension lengths (DOC_EXT_*), never with what the source currently says;
  * valid spans: `make_style_sections` sections concatenate to the code, match sections are the
    spans; leading-tab lines: shifted spans select the same text;
  * generated grep result streams through the real `delta` (both `--grep-output-type`s; plain /
    git-coloured / rg-coloured / rg --json; numbers, context, `--`, function headers):
    decoded rows == the generator's hit list (path, number, code with tabs expanded, order,
    grouping); for rg --json the cells in the reserved match-word style == the submatches.
"""
import json
import os
import re

from ..core import hx, unhx, unhxs, parallel_map, b64, REPO, ROOT

DRIVERS = ["drv_grep"]

KINDS = {"match": ":", "context": "-", "contextheader": "="}
KIND_OF_SEP = {v: k for k, v in KINDS.items()}
ESC = "\x1b"

# ---------------------------------------------------------------------------------------------
# the side conditions of the round-trip theorems, re-read in Python (cross-checked against
# Grep.fragNumbered / fragUnnumbered / fragNoExt through the `fragment` correspondence)

EXT = r"[^. :=\-]"
# The extension lengths the property documents for plain-text lines (Grep.docExtMin / docExtMax /
# docExtMaxNoSpaces; theorem C16.ext_bounds_documented ties the source to them). Fixed numbers on purpose:
# the oracle promises what the property says, not what make_grep_line_regex currently accepts.
DOC_EXT_MIN, DOC_EXT_MAX, DOC_EXT_MAX_NOSPACES = 1, 10, 6
NUM_LOOKALIKE = re.compile(r"\.%s{1,10}([:=\-])[0-9]+\1" % EXT, re.S)
SEP_LOOKALIKE = re.compile(r"\.%s{1,10}[:=\-]" % EXT, re.S)
SEP_LOOKALIKE_SHORT = re.compile(r"\.%s{1,6}[:=\-]" % EXT, re.S)


def _ext_run_ok(s, m):
    """The `{1,10}` run must be the maximal run (it is: the next char is a separator)."""
    return True


def ext_path_ok(p, hi=10):
    i = p.rfind(".")
    if i < 0:
        return False
    a, ext = p[:i], p[i + 1:]
    if not (1 <= len(ext) <= hi) or re.search(r"[. :=\-]", ext):
        return False
    if len(a) < 2 or a[0] in ":| " or a[-1] == " " or ":" in a[1:-1]:
        return False
    return True


def no_space_path_ok(p, hi=6):
    i = p.rfind(".")
    if i < 0:
        return False
    a, ext = p[:i], p[i + 1:]
    if not (1 <= len(ext) <= hi) or re.search(r"[. :=\-]", ext):
        return False
    if len(a) < 2 or a[-1] == " " or re.search(r"[:| ]", a[:-1]):
        return False
    return True


NO_SEP_LAST_EXCLUDED = [": "]   # set from the pattern text at run time (a repair adds `=` and `-`)


def no_sep_path_ok(p):
    return len(p) >= 2 and p[0] not in ":| =-" and p[-1] not in NO_SEP_LAST_EXCLUDED[0] and not re.search(r"[:=\-]", p[1:-1])


def starts_with_num(s, code):
    m = re.match(r"[0-9]+", code)
    return bool(m) and code[m.end():m.end() + 1] == s


def digits_ok(ds):
    return bool(re.fullmatch(r"[0-9]+", ds))


def fmt_plain(kind, path, digits, code):
    s = KINDS[kind]
    return path + s + ((digits + s) if digits is not None else "") + code


def ext_len(path):
    """Length of the extension of a path (0 = none)."""
    i = path.rfind(".")
    return len(path) - i - 1 if i >= 0 else 0


def fragment(kind, path, digits, code):
    """Which theorem covers the record: 'A', 'B', 'B2', 'C' or '-' (same order as the driver)."""
    if kind not in KINDS or "\n" in code:
        return "-"
    s = KINDS[kind]
    if digits is not None:
        if (digits_ok(digits) and ext_path_ok(path) and ":" not in path
                and (kind == "match" or not NUM_LOOKALIKE.search(code))):
            return "A"
    else:
        if (no_space_path_ok(path) and ":" not in path
                and not NUM_LOOKALIKE.search(fmt_plain(kind, path, digits, code))
                and not SEP_LOOKALIKE.search(code) and not starts_with_num(s, code)):
            return "B"
        # B2: extension of up to 10 characters, blanks allowed in the path (third regex)
        if (ext_path_ok(path) and ":" not in path
                and not NUM_LOOKALIKE.search(fmt_plain(kind, path, digits, code))
                and not SEP_LOOKALIKE.search(code) and not starts_with_num(s, code)
                and not SEP_LOOKALIKE_SHORT.search(path.split(" ")[0])):
            return "B2"
    if (no_sep_path_ok(path) and not re.search(r"[:=\-.]", path) and not SEP_LOOKALIKE.search(code)):
        if digits is not None:
            if digits_ok(digits):
                return "C"
        elif not starts_with_num(s, code) and (kind == "match" or code[:1] not in (":", "-", "=")):
            return "C"
    return "-"


# ---------------------------------------------------------------------------------------------
# generators

DIRS = ["src", "lib", "a-b", "co-7-fig", "v1.2", "x y", "etc/META-INF", "日本", "dé", "119-within", "t.d", "a=b", "p|q"]
STEMS = ["main", "co-7-fig", "de lta", "config", "a.b", "x-1-y", "release-1.2-3-notes", "é", "日本語", "v2", ".hidden", "a..b", "7", "foo.rs-12-bar", "t=1"]
EXTS = ["rs", "py", "c", "properties", "tar.gz", "h", "md", "x", "txt2", "longextension", "toolongextension", "j s"]
NOEXT = ["Makefile", "README", "LICENSE", "bin/run me", "src/Makefile", "Dockerfile", "a_b", "x/y/z", "日本", "M"]
WORDS = ["foo", "bar", "fn", "let", "x", "=", "==", "-", "--", "->", ":", "::", "a.rs:12:", "b.py-3-", "c.h=4=", ".x-", ".x-5-",
         "12:", "7-", "007", "(", ")", "{", "}", "é", "日本", "use", "crate::x", "foo.bar", "foo.bar-baz", "README.md:", "3", "|", ".", "\t", "  ", "#"]


# Paths over the whole fragment the property documents for plain-text lines: every extension length 1..10
# (11 = just outside), dashes / '=' / dots / blanks / digits in directories and file names.
DOC_DIRS = ["src", "config", "docs", "deploy/k8s-v2", "my dir", "a-b", "x=y", "v2", "etc/app.d", "co-7-fig", "日本",
            "web service", "a.b.c", "r-1", "release notes", "node_modules/@types", "1-2-3", "k=v/w", "t.d", "é-è"]
DOC_STEMS = ["main", "app-dev", "getting-started", "web service", "t=1", "a.b", "x-1-y", "index", "é", "release notes-2",
             "k8s-v2", ".env", "Cargo", "my-file", "a b-c", "x=y=z", "2024-01-02", "v1.2", "日本語", "q"]
REAL_EXTS = {1: ["c", "h", "d"], 2: ["rs", "py", "md"], 3: ["txt", "xml", "cpp"], 4: ["toml", "json", "yaml"],
             5: ["patch", "swift", "scala"], 6: ["config", "groovy", "svelte"], 7: ["graphql", "gemspec", "jsonnet"],
             8: ["markdown", "template", "manifest"], 9: ["gitignore", "xcprivacy", "tfbackend"],
             10: ["properties", "storyboard", "gitmodules"], 11: ["webmanifest", "xcworkspace", "entitlement"]}
EXT_ALPHA = "abcdefghijklmnopqrstuvwxyzABCXYZ0123456789_+~é"


def gen_ext(rng, n):
    """An extension of exactly n characters of the class [^. :=-]."""
    if rng.random() < 0.6:
        return rng.choice(REAL_EXTS[n])
    return "".join(rng.choice(EXT_ALPHA) for _ in range(n))


def gen_doc_path(rng, n=None):
    """Directory parts and a stem with dashes, '=', dots, blanks, and an extension of n (default 1..11) characters."""
    n = n or rng.randint(1, 11)
    parts = [rng.choice(DOC_DIRS) for _ in range(rng.choice([0, 1, 1, 1, 2]))]
    return "/".join(parts + [rng.choice(DOC_STEMS) + "." + gen_ext(rng, n)])


def doc_path_class(path):
    """Input class of a documented-fragment path, for signatures and counts."""
    n = ext_len(path)
    cls = ["ext-len-1-6" if n <= DOC_EXT_MAX_NOSPACES else ("ext-len-7-10" if n <= DOC_EXT_MAX else "ext-len-11+")]
    if " " in path:
        cls.append("blank-in-path")
    if re.search(r"[=\-]", path):
        cls.append("dash-in-path")
    return "+".join(cls)


def gen_path(rng):
    k = rng.random()
    if k < 0.3:
        return gen_doc_path(rng)
    k = rng.random()
    if k < 0.25:
        base = rng.choice(NOEXT)
    else:
        base = rng.choice(STEMS) + "." + rng.choice(EXTS)
    if rng.random() < 0.5:
        base = rng.choice(DIRS) + "/" + base
    return base


def gen_code(rng, nmax=6):
    parts = [rng.choice(WORDS) for _ in range(rng.randint(0, nmax))]
    out = ""
    for p in parts:
        out += p + (" " if rng.random() < 0.6 else "")
    if rng.random() < 0.3:
        out = rng.choice(["\t", "\t\t", "    ", "  \t"]) + out
    return out


def gen_digits(rng):
    k = rng.random()
    if k < 0.8:
        return str(rng.choice([1, 2, 7, 9, 10, 12, 57, 99, 100, 214, 1090, 99999]))
    return rng.choice(["0", "007", "00", "18446744073709551615", "18446744073709551616", "99999999999999999999999"])


def gen_record(rng):
    kind = rng.choice(["match", "match", "context", "contextheader"])
    return (kind, gen_path(rng), gen_digits(rng) if rng.random() < 0.6 else None, gen_code(rng))


def mutate(rng, s):
    alpha = [":", "-", "=", ".", " ", "|", "1", "a", ESC, "[", "m", "é", "\t", "/", "35", "\r"]
    s = list(s)
    for _ in range(rng.randint(1, 3)):
        k = rng.random()
        i = rng.randint(0, len(s))
        if k < 0.4 and s:
            del s[min(i, len(s) - 1)]
        elif k < 0.8:
            s.insert(i, rng.choice(alpha))
        elif s:
            s[min(i, len(s) - 1)] = rng.choice(alpha)
    return "".join(s)


def random_line(rng):
    alpha = list("a.:-=1 |") if rng.random() < 0.6 else list("a.:-=1 |b7/") + [ESC, "[", "m", "é", "\t"]
    return "".join(rng.choice(alpha) for _ in range(rng.randint(0, 12)))


def sgr(p):
    return ESC + "[" + p + "m"


def fmt_git_colour(kind, path, digits, code_marked):
    """`git grep --color=always`. code_marked: list of (is_match, text)."""
    s = KINDS[kind]
    out = sgr("35") + path + sgr("") + sgr("36") + s + sgr("")
    if digits is not None:
        out += sgr("32") + digits + sgr("") + sgr("36") + s + sgr("")
    for hit, t in code_marked:
        out += (sgr("1;31") + t + sgr("")) if hit else t
    return out


def fmt_rg_colour(kind, path, digits, code_marked):
    """`rg --color=always --no-heading`."""
    s = KINDS[kind]
    out = sgr("0") + sgr("35") + path + sgr("0") + s
    if digits is not None:
        out += sgr("0") + sgr("32") + digits + sgr("0") + s
    for hit, t in code_marked:
        out += (sgr("0") + sgr("1") + sgr("31") + t + sgr("0")) if hit else t
    return out


def mark_code(rng, code):
    """Split a code string into (is_match, text) pieces (match pieces non-empty)."""
    if not code or rng.random() < 0.2:
        return [(False, code)] if code else []
    i = rng.randint(0, len(code) - 1)
    j = rng.randint(i + 1, min(len(code), i + 6))
    out = []
    if i:
        out.append((False, code[:i]))
    out.append((True, code[i:j]))
    if j < len(code):
        out.append((False, code[j:]))
    return out


def strip_sgr(s):
    return re.sub(r"\x1b\[[0-9;]*m", "", s)


# ---------------------------------------------------------------------------------------------
# rg --json

SERDE_KINDS = ["contextheader", "context", "fileheader", "match", "ignore"]


def is_usize(v):
    return isinstance(v, int) and not isinstance(v, bool) and 0 <= v < 2 ** 64


def serde_view(obj):
    """What `serde_json::from_str::<RipGrepLine>` makes of a decoded JSON value:
    ('rec', kind, path, num, text, subs) | ('meta', type) | ('invalid',)."""
    def text_of(v):
        return v["text"] if isinstance(v, dict) and isinstance(v.get("text"), str) else None
    try:
        if isinstance(obj, dict) and obj.get("type") in SERDE_KINDS and isinstance(obj.get("data"), dict):
            d = obj["data"]
            path, text = text_of(d.get("path")), text_of(d.get("lines"))
            num = d.get("line_number", None)
            off = d.get("absolute_offset")
            subs = d.get("submatches")
            ok = (path is not None and text is not None and (num is None or is_usize(num)) and is_usize(off)
                  and isinstance(subs, list)
                  and all(isinstance(m, dict) and text_of(m.get("match")) is not None and is_usize(m.get("start"))
                          and is_usize(m.get("end")) for m in subs))
            if ok:
                return ("rec", obj["type"], path, num, text, [(m["start"], m["end"]) for m in subs])
    except Exception:
        pass
    if isinstance(obj, dict) and isinstance(obj.get("type"), str):
        return ("meta", obj["type"])
    if isinstance(obj, (dict, list)):
        # Value indexing by "type" on a non-object / missing key gives Null -> None
        return ("invalid",)
    return ("invalid",)


def rg_json(kind, path, num, text, subs, ascii_only=False):
    d = {"type": kind, "data": {"path": {"text": path}, "lines": {"text": text}, "line_number": num,
                                 "absolute_offset": 17,
                                 "submatches": [{"match": {"text": text.encode()[a:b].decode("utf-8", "replace")},
                                                 "start": a, "end": b} for a, b in subs]}}
    return json.dumps(d, ensure_ascii=ascii_only, separators=(",", ":"))


def model_json_req(line):
    try:
        obj = json.loads(line)
    except Exception:
        return "grep.json_invalid"
    v = serde_view(obj)
    if v[0] == "rec":
        _, kind, path, num, text, subs = v
        return "grep.json_rec %s %s %s %s %d%s" % (kind, hx(path), "-" if num is None else num, hx(text), len(subs),
                                                   "".join(" %d %d" % s for s in subs))
    if v[0] == "meta":
        return "grep.json_meta " + hx(v[1])
    return "grep.json_invalid"


# ---- the decoded JSON value for the model of the record structs (DeltaModel/RipGrepJson.lean) ----
# Python's json only turns the *text* into a value (objects as ordered pair lists, duplicates kept; integer
# literals kept as written); which values are records is decided by the model's reading of the structs.

class _JObj(list):
    pass


class _JInt(str):
    pass


class _JOther:
    pass


def _bad_const(s):
    raise ValueError("not JSON: " + s)


def jval_of_text(line):
    """JSON text -> value over None / bool / _JInt / _JOther / str / list / _JObj(pairs); None-raising on non-JSON."""
    return json.loads(line, object_pairs_hook=_JObj, parse_int=_JInt, parse_float=lambda s: _JOther(), parse_constant=_bad_const)


def jval_tokens(v, out=None, depth=0):
    """Prefix notation of `grep.json_value` (see lean/Driver/Grep.lean)."""
    out = [] if out is None else out
    if depth > 100:
        raise ValueError("too deep for serde_json's recursion limit")
    if v is None:
        out.append("N")
    elif v is True:
        out.append("T")
    elif v is False:
        out.append("F")
    elif isinstance(v, _JInt):
        # serde_json: an integer literal with a minus sign is not a u64 (`-0` is a float)
        out.append("R" if v.startswith("-") else "I%d" % int(v))
    elif isinstance(v, _JOther):
        out.append("R")
    elif isinstance(v, str):
        out.append("S" + hx(v))          # raises on lone surrogates: the text parsers differ there (not generated)
    elif isinstance(v, _JObj):
        out.append("O%d" % len(v))
        for k, x in v:
            out.append("K" + hx(k))
            jval_tokens(x, out, depth + 1)
    elif isinstance(v, list):
        out.append("A%d" % len(v))
        for x in v:
            jval_tokens(x, out, depth + 1)
    else:
        raise ValueError("not a JSON value: %r" % (v,))
    return out


def line_tokens(line):
    """Tokens of the line's JSON value, or None when the line is not JSON text (both parsers agree on that for
    everything this module generates)."""
    try:
        return jval_tokens(jval_of_text(line))
    except Exception:
        return None


def model_json_value_req(line):
    t = line_tokens(line)
    return "grep.json_invalid" if t is None else "grep.json_value " + " ".join(t)


def dumps_pairs(v, ascii_only=False):
    """JSON text of a value whose objects are lists of (key, value) pairs (class P): order and duplicates kept."""
    if isinstance(v, P):
        return "{" + ",".join(json.dumps(k, ensure_ascii=ascii_only) + ":" + dumps_pairs(x, ascii_only) for k, x in v) + "}"
    if isinstance(v, list):
        return "[" + ",".join(dumps_pairs(x, ascii_only) for x in v) + "]"
    if isinstance(v, RawNum):
        return str(v)
    return json.dumps(v, ensure_ascii=ascii_only)


class P(list):
    """an object as a list of (key, value) pairs"""


class RawNum(str):
    """a number literal written as given"""


# The members of an `rg --json` match / context record (the grep_printer JSON format): everything else in a record
# is a member a consumer must ignore. The oracle's extra members are drawn from names ripgrep releases have added or
# could add; none of them is a member of the format at that level.
EXTRA_NAMES = {
    "top": ["version", "seq", "elapsed", "search_id", "Type", "types", "typ", "datas"],
    "data": ["binary_offset", "stats", "column", "encoding", "replacement", "path_bytes", "line", "submatch", "text"],
    "text": ["lossy", "encoding", "len", "Text", "texts", "utf8"],
    "submatch": ["replacement", "captures", "column", "name", "Match", "starts", "ending", "line_number"],
}


def gen_json_junk(rng, depth=0):
    k = rng.random()
    if depth > 2 or k < 0.55:
        return rng.choice([None, True, False, 0, 7, -3, 1.5, RawNum("1e3"), RawNum("18446744073709551616"), "", "x", "VAR", "日本", "a\tb\n",
                           '{"type":"match"}', "text"])
    if k < 0.75:
        return [gen_json_junk(rng, depth + 1) for _ in range(rng.randint(0, 3))]
    # (objects that look like parts of a record, too)
    keys = ["text", "bytes", "start", "end", "match", "type", "data", "path", "lines", "human", "secs", "nanos"]
    return P((rng.choice(keys), gen_json_junk(rng, depth + 1)) for _ in range(rng.randint(0, 3)))


def with_extras(rng, pairs, level, p_extra, added):
    """`pairs` plus, with probability p_extra, 1-2 members of names the format does not have at this level."""
    pairs = list(pairs)
    if rng.random() < p_extra:
        for _ in range(rng.choice([1, 1, 2])):
            name = rng.choice(EXTRA_NAMES[level])
            val = P([("text", "VAR")]) if name == "replacement" and rng.random() < 0.7 else gen_json_junk(rng)
            pairs.insert(rng.randint(0, len(pairs)), (name, val))
            added.append(level)
    return pairs


def rg_json_family(rng, kind, path, num, text, subs, ascii_only=False, p_extra=0.5, reorder=None, drop_null_number=None):
    """One `rg --json` match / context record with this meaning, written the way a (newer, other) ripgrep may write
    it: members the format does not have today at any of the four levels (record, data, path/lines/match text
    object, submatch), members in another order, `line_number` absent instead of null. Returns (line, what) where
    `what` names the input class (`extra:top+submatch`, `reordered`, `number-absent`, `plain`)."""
    added = []
    # a quarter without new members, a third with new members at exactly one level, the rest at any
    r = rng.random()
    levels = [] if r < 0.25 else ([rng.choice(["top", "data", "text", "submatch", "submatch"])] if r < 0.6 else ["top", "data", "text", "submatch"])
    if len(levels) == 1:
        p_extra = 0.85
    reorder = rng.random() < 0.35 if reorder is None else reorder
    drop = (rng.random() < 0.5) if drop_null_number is None else drop_null_number

    def obj(pairs, level):
        pairs = with_extras(rng, pairs, level, p_extra if level in levels else 0.0, added)
        if reorder:
            rng.shuffle(pairs)
        return P(pairs)

    def text_obj(s):
        return obj([("text", s)], "text")
    data = text.encode()
    sm = [obj([("match", text_obj(data[a:b].decode("utf-8", "replace"))), ("start", a), ("end", b)], "submatch") for a, b in subs]
    d = [("path", text_obj(path)), ("lines", text_obj(text))]
    dropped = num is None and drop
    if not dropped:
        d.append(("line_number", num))
    d += [("absolute_offset", rng.choice([0, 17, 35837, 2 ** 40])), ("submatches", sm)]
    rec = obj([("type", kind), ("data", obj(d, "data"))], "top")
    what = []
    if added:
        what.append("extra:" + "+".join(sorted(set(added), key=["top", "data", "text", "submatch"].index)))
    if reorder:
        what.append("reordered")
    if dropped:
        what.append("number-absent")
    return dumps_pairs(rec, ascii_only), ",".join(what) or "plain"


def rg_json_meta(rng, typ, path, rich):
    """begin / end / summary records as ripgrep writes them (with their stats), members the structs of delta know
    nothing about anyway."""
    el = P([("secs", 0), ("nanos", rng.randint(1, 10 ** 6)), ("human", "0.000017s")])
    stats = P([("elapsed", el), ("searches", 1), ("searches_with_match", 1), ("bytes_searched", rng.randint(1, 10 ** 5)),
               ("bytes_printed", rng.randint(1, 10 ** 4)), ("matched_lines", rng.randint(1, 9)), ("matches", rng.randint(1, 9))])
    if typ == "begin":
        d = P([("path", P([("text", path)]))])
    elif typ == "end":
        d = P([("path", P([("text", path)])), ("binary_offset", None), ("stats", stats)]) if rich else P([("path", P([("text", path)])), ("stats", P())])
    else:
        d = P([("elapsed_total", el), ("stats", stats)]) if rich else P([("elapsed_total", P([("secs", 0)])), ("stats", P())])
    pairs = [("type", typ), ("data", d)]
    if rich and rng.random() < 0.5:
        pairs.reverse()
    return dumps_pairs(P(pairs))


STRUCT_ORDER = {"top": ["type", "data"], "data": ["path", "lines", "line_number", "absolute_offset", "submatches"],
                "text": ["text"], "submatch": ["match", "start", "end"]}


def _level_of(o):
    ks = [k for k, _ in o]
    if "data" in ks and "type" in ks:
        return "top"
    if "path" in ks and "lines" in ks:
        return "data"
    if "start" in ks and "end" in ks:
        return "submatch"
    if "text" in ks:
        return "text"
    return None


def _objects(v, acc):
    if isinstance(v, P):
        acc.append(v)
        for _, x in v:
            _objects(x, acc)
    elif isinstance(v, list):
        for x in v:
            _objects(x, acc)
    return acc


def _replace(v, target, new):
    """the tree with the node `target` (by identity) replaced"""
    if v is target:
        return new
    if isinstance(v, P):
        return P((k, _replace(x, target, new)) for k, x in v)
    if isinstance(v, list):
        return [_replace(x, target, new) for x in v]
    return v


def mutate_record(rng, line):
    """A JSON value near a record but (mostly) outside the format: what serde makes of it is compared with the model
    only (no promise of the property). Returns (text, name)."""
    v = json.loads(line, object_pairs_hook=P)
    objs = [o for o in _objects(v, []) if _level_of(o)]
    o = rng.choice(objs)
    lvl = _level_of(o)
    known = STRUCT_ORDER[lvl]
    k = rng.random()
    if k < 0.14:
        # a member of the format twice
        i = rng.randrange(len(o))
        new = P(o)
        new.insert(rng.randint(0, len(new)), (o[i][0], rng.choice([o[i][1], None, 0, "x"])))
        return dumps_pairs(_replace(v, o, new)), "duplicate-member:" + ("known" if o[i][0] in known else "unknown")
    if k < 0.28:
        cand = [i for i, (kk, _) in enumerate(o) if kk in known]
        i = rng.choice(cand)
        return dumps_pairs(_replace(v, o, P(o[:i] + o[i + 1:]))), "member-dropped:" + o[i][0]
    if k < 0.46:
        cand = [i for i, (kk, _) in enumerate(o) if kk in known]
        i = rng.choice(cand)
        old = o[i][1]
        if isinstance(old, (bool, float)):
            new = rng.choice([None, 1, "x"])
        elif isinstance(old, int):
            new = rng.choice([RawNum("-1"), RawNum("-0"), RawNum("1.0"), RawNum("1e2"), RawNum("18446744073709551615"), RawNum("18446744073709551616"),
                              "7", True, None, [old]])
        elif isinstance(old, str):
            new = rng.choice([7, None, [old], P([("text", old)]), "begin", "Match", "contextheader", "ignore", "fileheader", "context", old.upper()])
        elif old is None:
            new = rng.choice([False, "", RawNum("0"), [], P()])
        elif isinstance(old, P):
            new = rng.choice([None, [], "x", P([("bytes", "AAA=")]), P([("bytes", "AAA=")] + list(old))])
        else:
            new = rng.choice([None, P(), "x", old + [7], old + [P()]])
        return dumps_pairs(_replace(v, o, P(o[:i] + [(o[i][0], new)] + o[i + 1:]))), "member-of-another-type:" + o[i][0]
    if k < 0.62:
        # the struct written as an array of its fields (serde accepts that), exact / too short / too long
        d = dict(o)
        if all(sum(1 for kk, _ in o if kk == f) == 1 for f in known if f != "line_number"):
            arr = [d.get(f) for f in known]
            m = rng.random()
            name = "struct-as-array"
            if m < 0.25:
                arr = arr[:-1]; name += ":short"
            elif m < 0.5:
                arr = arr + [rng.choice([None, 0])]; name += ":long"
            return dumps_pairs(_replace(v, o, arr)), name
    if k < 0.74:
        top = [x for x in objs if _level_of(x) == "top"]
        if top:
            t = top[0]
            i = [kk for kk, _ in t].index("type")
            word = t[i][1]
            new = rng.choice([P([(word, None)]), P([(word, None)]), P([(word, 1)]), P([(word, None), ("x", 1)]), P(), [word]])
            return dumps_pairs(_replace(v, t, P(t[:i] + [("type", new)] + t[i + 1:]))), "type-as-object"
    if k < 0.9:
        top = [x for x in objs if _level_of(x) == "top"]
        if top:
            t = top[0]
            w = rng.choice(["begin", "end", "summary", "Begin", "other", "match", "context"])
            new = P(t)
            new.insert(rng.choice([0, len(new)]), ("type", w))
            if rng.random() < 0.5:
                new = P((kk, x) for kk, x in new if kk != "type" or x == w)
            return dumps_pairs(_replace(v, t, new)), "type-word"
    return dumps_pairs(rng.choice([[v], 7, "begin", None, [1, 2], P([("type", "begin")]), P([("x", 1)]), P()])), "not-a-record"


def gen_spans(rng, data, valid=True):
    """Sorted disjoint spans on char boundaries of the UTF-8 `data` (bytes)."""
    bounds = [i for i in range(len(data) + 1) if i == len(data) or (data[i] & 0xC0) != 0x80]
    k = rng.randint(0, 3)
    pts = sorted(rng.choice(bounds) for _ in range(2 * k))
    spans = [(pts[2 * i], pts[2 * i + 1]) for i in range(k)]
    if valid:
        return spans
    spans = list(spans) or [(0, 0)]
    m = rng.random()
    i = rng.randrange(len(spans))
    a, b = spans[i]
    if m < 0.35:
        spans[i] = (a, len(data) + rng.randint(1, 4))
    elif m < 0.55:
        spans[i] = (b + 1, a) if b + 1 > a else (a + 1, a)
    elif m < 0.8:
        spans = spans[::-1] if len(spans) > 1 else [(len(data) + 1, len(data) + 2)]
    else:
        nb = [j for j in range(len(data) + 1) if j not in bounds]
        spans[i] = (a, nb[0]) if nb and nb[0] >= a else (len(data) + 2, len(data) + 3)
    return spans


def spans_ok(data, spans):
    cur = 0
    for a, b in spans:
        if not (cur <= a <= b <= len(data)):
            return False
        for x in (a, b):
            if x < len(data) and x > 0 and (data[x] & 0xC0) == 0x80:
                return False
        cur = b
    return True


def expand(code, w):
    return code if w == 0 else code.replace("\t", " " * w)


# ---------------------------------------------------------------------------------------------
# decoding delta's output

PAL = {"file": "201", "num": "202", "word": "203", "line": "204", "ctx": "205", "hfile": "206", "hunk": "207",
       "deco": "208", "label": "209"}
BASE_OPTS = {"--no-gitconfig": None, "--syntax-theme": "none", "--paging": "never",
             "--grep-file-style": PAL["file"], "--grep-line-number-style": PAL["num"],
             "--grep-match-word-style": PAL["word"], "--grep-match-line-style": PAL["line"],
             "--grep-context-line-style": PAL["ctx"], "--grep-header-decoration-style": "none",
             "--grep-header-file-style": PAL["hfile"], "--hunk-header-style": "file line-number " + PAL["hunk"],
             "--hunk-header-file-style": PAL["label"],
             "--hunk-header-decoration-style": "none", "--grep-separator-symbol": "keep"}
# Options whose code the grep rows share (hunk-header helper, decorations, hyperlinks, ...): the hits must keep
# path, number and code under every one of them. `full_header`: a classic-style function-context header still
# shows path and number (it is rendered "as a hunk header", i.e. as --hunk-header-style says).
VARIANTS = [
    dict(name="base", opts={}, full_header=True),
    dict(name="hunk-header-style=raw", opts={"--hunk-header-style": "raw"}, full_header=False),
    dict(name="hunk-header-style=omit", opts={"--hunk-header-style": "omit"}, full_header=False),
    dict(name="hunk-header-style=file+line-number+syntax,box", full_header=True,
         opts={"--hunk-header-style": "file line-number syntax", "--hunk-header-decoration-style": PAL["deco"] + " box",
               "--grep-header-decoration-style": PAL["deco"] + " box"}),
    dict(name="hunk-header-style=syntax,ul/ol", full_header=False,
         opts={"--hunk-header-style": "syntax", "--hunk-header-decoration-style": PAL["deco"] + " ul",
               "--grep-header-decoration-style": PAL["deco"] + " ol"}),
    dict(name="navigate", opts={"--navigate": None}, full_header=True),
    dict(name="hyperlinks", opts={"--hyperlinks": None}, full_header=True),
    dict(name="side-by-side+line-numbers", opts={"--side-by-side": None, "--line-numbers": None, "--width": "100"}, full_header=True),
    dict(name="color-only", opts={"--color-only": None}, full_header=False, classic_only=True, tabw=0),
]
VARIANT_OF = {v["name"]: v for v in VARIANTS}
# --max-line-length: default (3000), off, small values; rg --json records are exempt, whatever their type
MLLS = [None, None, 0, 60, 200, None, 0]


def make_args(variant, style, tabw, mll):
    opts = dict(BASE_OPTS)
    opts.update(variant["opts"])
    if style != "default":
        opts["--grep-output-type"] = style
    if tabw != 8:
        opts["--tabs"] = str(tabw)
    if mll is not None:
        opts["--max-line-length"] = str(mll)
    args = []
    for k, v in opts.items():
        args.append(k)
        if v is not None:
            args.append(v)
    return args


OSC8 = re.compile(r"\x1b\]8;[^\x1b\x07]*(?:\x1b\\|\x07)")
BOX_CHARS = set("─━│┃┐┘┓┛┌└═║ ")
CSI = re.compile(r"\x1b\[([0-9;:<=>?]*)([ -/]*)([@-~])")


def segments(row):
    """A row of delta output as [(fg, text)], fg = the 256-colour foreground or None."""
    segs, fg, pos = [], None, 0
    for m in CSI.finditer(row):
        if m.start() > pos:
            segs.append((fg, row[pos:m.start()]))
        pos = m.end()
        if m.group(3) != "m":
            continue
        ps = m.group(1).split(";") if m.group(1) else ["0"]
        i = 0
        while i < len(ps):
            p = ps[i]
            if p in ("", "0"):
                fg = None
            elif p == "38" and i + 2 < len(ps) and ps[i + 1] == "5":
                fg = ps[i + 2]
                i += 2
            elif p == "38" and i + 4 < len(ps) and ps[i + 1] == "2":
                fg = "rgb" + ",".join(ps[i + 2:i + 5])
                i += 4
            elif p == "48" and i + 2 < len(ps) and ps[i + 1] == "5":
                i += 2
            elif p == "48" and i + 4 < len(ps) and ps[i + 1] == "2":
                i += 4
            elif p == "39":
                fg = None
            elif p.isdigit() and (30 <= int(p) <= 37 or 90 <= int(p) <= 97):
                fg = "ansi" + p
            i += 1
    if pos < len(row):
        segs.append((fg, row[pos:]))
    out = []
    for f, t in segs:
        if out and out[-1][0] == f:
            out[-1] = (f, out[-1][1] + t)
        elif t:
            out.append((f, t))
    return out


CODE_FG = (PAL["word"], PAL["line"], PAL["ctx"])


def decode_code(segs):
    """Code cells: (text, [(a, b) byte spans in match-word style]) or None if foreign cells occur."""
    text, spans = "", []
    for f, t in segs:
        if f not in CODE_FG:
            return None
        if f == PAL["word"]:
            a = len(text.encode())
            spans.append((a, a + len(t.encode())))
        text += t
    return text, spans


def pad_for(n):
    return "  " if n < 10 else (" " if n < 100 else "")


def decode_rows(out, style):
    """stdout of delta (str) -> canonical rows:
    ('B',) ('H', path) ('SEP',) ('RAW', text) ('C', path|None, num|None, sep, text, spans) ('F', path, num, text) ('?', row)."""
    rows = []
    lines = out.split("\n")
    if lines and lines[-1] == "":
        lines.pop()
    for row in lines:
        segs = segments(OSC8.sub("", row))
        if segs and any(f == PAL["deco"] for f, _ in segs):
            # decoration cells (box / underline rulers) are not part of what the row says
            if all(f == PAL["deco"] or not t.strip() for f, t in segs) and all(c in BOX_CHARS for _, t in segs for c in t):
                continue
            segs = [(f, t) for f, t in segs if f != PAL["deco"]]
        if segs and segs[0][0] == PAL["label"]:
            # hunk label (e.g. the navigate bullet) and the blank after it
            segs = segs[1:]
            if segs and segs[0][0] is None and segs[0][1].startswith(" "):
                segs = ([(None, segs[0][1][1:])] if segs[0][1][1:] else []) + segs[1:]
        if style == "classic" and len(segs) > 1 and segs[0][0] is None and segs[0][1] in ("  ", "\u2022 ") and segs[1][0] == PAL["file"]:
            segs = segs[1:]     # navigate marker of `git grep -W` output
        plain = "".join(t for _, t in segs)
        if plain == "":
            rows.append(("B",))
            continue
        if plain == "--" and all(f is None or f.startswith("ansi") for f, _ in segs):
            rows.append(("SEP",))
            continue
        f0 = segs[0][0]
        try:
            if f0 == PAL["hfile"]:
                # classic function-context header: path = num = code<space>
                path = segs[0][1]
                if len(segs) > 2 and segs[2][0] == PAL["num"]:
                    assert segs[1] == (None, "=")
                    num, rest = int(segs[2][1]), segs[3:]
                else:
                    num, rest = None, segs[1:]
                tail = "".join(t for f, t in rest)
                assert tail.startswith("=") and all(f in (None, PAL["hunk"]) for f, _ in rest)
                text = tail[1:]
                rows.append(("F", path, num, "" if text == " " else text))
            elif f0 == PAL["file"] and style == "ripgrep":
                assert segs[1:] == [(None, " ")]
                rows.append(("H", segs[0][1]))
            elif f0 == PAL["file"]:
                path = segs[0][1]
                rest = segs[1:]
                assert rest and rest[0][0] is None
                if len(rest) > 1 and rest[1][0] == PAL["num"]:
                    sep = rest[0][1]
                    n = int(rest[1][1])
                    assert rest[2][0] is None and rest[2][1] == sep + pad_for(n), "gutter"
                    code = decode_code(rest[3:])
                else:
                    sep, n = rest[0][1], None
                    code = decode_code(rest[1:])
                assert code is not None and len(sep) == 1
                rows.append(("C", path, n, sep, code[0], code[1]))
            elif f0 == PAL["num"] and style == "ripgrep":
                n = int(segs[0][1])
                assert len(segs) > 1 and segs[1][0] is None
                g = segs[1][1]
                code = decode_code(segs[2:])
                assert code is not None
                if not segs[2:] and g.endswith(" "):
                    g = g[:-1]
                assert len(g) <= 1
                rows.append(("C", None, n, g, code[0], code[1]))
            elif f0 in CODE_FG and style == "ripgrep":
                code = decode_code(segs)
                assert code is not None
                rows.append(("C", None, None, None, code[0], code[1]))
            elif all(f is None or f.startswith("ansi") for f, _ in segs):
                rows.append(("RAW", plain))
            else:
                rows.append(("?", row))
        except (AssertionError, IndexError, ValueError):
            rows.append(("?", row))
    if style == "ripgrep":
        # a blank row announces a new path group only when a path header follows; otherwise it is
        # an (unnumbered) hit whose code is empty
        for k, r in enumerate(rows):
            if r == ("B",) and not (k + 1 < len(rows) and rows[k + 1][0] == "H"):
                rows[k] = ("C", None, None, None, "", [])
    return rows


# ---------------------------------------------------------------------------------------------
# grep result streams

def long_filler(rng, n):
    """Filler text of about n bytes (what a minified / generated source line looks like)."""
    out = []
    k = 0
    while sum(len(x) + 2 for x in out) < n:
        out.append("0x%04x" % k if rng.random() < 0.9 else rng.choice(["日本", "é", "fn", "tbl[%d]" % k]))
        k += 1
    return ", ".join(out)


def gen_stream(rng, flavour=None, probe=None, allow_funchdr=True, long_len=0, path_gen=None, numbered=None, rich=None):
    """A grep result stream: dict(flavour, guess, numbered, lines=[str], hits=[dict|None per line]).
    long_len > 0: some records (match, context, and for rg --json also begin/end via a long path) exceed it.
    rich (rg --json only): the records are written as another ripgrep may write them (rg_json_family: members the
    format does not have today, at any level; members reordered; line_number absent) and begin / end / summary
    carry their statistics."""
    flavour = flavour or rng.choice(["plain", "plain", "gitcolour", "rgcolour", "json", "json"])
    if rich is None:
        rich = flavour == "json" and rng.random() < 0.45
    rich_what = []
    if numbered is None:
        numbered = rng.random() < 0.65 or flavour == "json" and rng.random() < 0.8
    context = rng.random() < 0.5 or (long_len > 0 and flavour == "json")
    funchdr = allow_funchdr and flavour in ("plain", "gitcolour") and rng.random() < 0.3 and numbered
    wflag = funchdr and rng.random() < 0.4
    if flavour == "json":
        guess = "none"
    elif flavour == "rgcolour":
        guess = "rg foo"
    else:
        guess = rng.choice(["git grep", "rg"]) if not funchdr else "git grep"
        guess += (" -n" if numbered else "") + (" -C1" if context else "") + ((" -W" if wflag else " -p") if funchdr else "") + " foo"
    lines, hits = [], []
    npaths = rng.randint(1, 4)
    paths = []
    for _ in range(npaths):
        for _try in range(30):
            p = (path_gen or gen_path)(rng)
            if flavour in ("plain", "rgcolour") and rng.random() < 0.9 and fragment("context", p, "5" if numbered else None, "x") == "-":
                continue
            if p not in paths[-1:]:
                break
        if long_len and flavour == "json" and rng.random() < 0.3:
            p = "/".join("dir%03d" % k for k in range(long_len // 7 + 2)) + "/" + p   # long begin/end/match records
        paths.append(p)
    if flavour == "json":
        lines.append(rg_json_meta(rng, "begin", paths[0], rich) if rich else json.dumps({"type": "begin", "data": {"path": {"text": paths[0]}}}))
        hits.append(None)
    n = 0
    for pi, path in enumerate(paths):
        # (sometimes the first hit of a file has the number the previous file ended with)
        n = n - 1 if (pi > 0 and n > 1 and rng.random() < 0.3) else rng.randint(1, 40)
        nh = rng.randint(1, 5)
        prev_kind = None
        for hi in range(nh):
            kind = "match"
            if context and rng.random() < 0.5:
                kind = "context"
            if funchdr and hi == 0:
                kind = "contextheader"
            gap = rng.random() < 0.3
            n += rng.randint(2, 30) if gap else 1
            if gap and hi > 0 and context and flavour != "json":
                lines.append(sgr("36") + "--" + sgr("") if flavour == "gitcolour" else "--")
                hits.append(None)
            code = gen_code(rng)
            num = n if numbered else None
            if flavour in ("plain", "rgcolour") and rng.random() < 0.9:
                # mostly stay inside what the theorems promise (ambiguous lines are exercised by the line-level ops)
                for _try in range(12):
                    if fragment(kind, path, None if num is None else str(num), code) != "-":
                        break
                    code = gen_code(rng, 4)
            if long_len and rng.random() < 0.4:
                code = code.rstrip("\t ") + " " + long_filler(rng, long_len + rng.randint(1, 120))
            h = dict(path=path, num=num, kind=kind, code=code, subs=None)
            if flavour == "json":
                data = code.encode()
                subs = gen_spans(rng, data) if kind == "match" else []
                subs = [s for s in subs if s[0] < s[1]] if rng.random() < 0.8 else subs
                h["subs"] = subs if kind == "match" else None
                eol = rng.choice(["\n", "\n", "\r\n", ""])
                if rich:
                    ln, what = rg_json_family(rng, kind, path, num, code + eol, subs, ascii_only=rng.random() < 0.3)
                    lines.append(ln)
                    rich_what.append(what)
                else:
                    lines.append(rg_json(kind, path, num, code + eol, subs, ascii_only=rng.random() < 0.3))
            else:
                digits = None if num is None else str(num)
                marked = mark_code(rng, code) if kind == "match" else ([(False, code)] if code else [])
                h["marked"] = marked
                if flavour == "plain":
                    lines.append(fmt_plain(kind, path, digits, code))
                elif flavour == "gitcolour":
                    lines.append(fmt_git_colour(kind, path, digits, marked))
                else:
                    lines.append(fmt_rg_colour(kind, path, digits, marked))
            hits.append(h)
            prev_kind = kind
        if flavour == "json" and pi + 1 < len(paths):
            lines.append(rg_json_meta(rng, "end", path, rich) if rich else json.dumps({"type": "end", "data": {"path": {"text": path}, "stats": {}}}))
            hits.append(None)
            lines.append(rg_json_meta(rng, "begin", paths[pi + 1], rich) if rich else json.dumps({"type": "begin", "data": {"path": {"text": paths[pi + 1]}}}))
            hits.append(None)
    if flavour == "json":
        lines.append(rg_json_meta(rng, "summary", "", rich) if rich else json.dumps({"data": {"elapsed_total": {"secs": 0}, "stats": {}}, "type": "summary"}))
        hits.append(None)
    st = dict(flavour=flavour, guess=guess, numbered=numbered, wflag=wflag, lines=lines, hits=hits)
    if rich:
        # the input class of the stream, for the signature of a failure: which kinds of variation its records carry
        kinds = sorted({w.split(":")[0] if w.startswith("extra:") else w for ws in rich_what for w in ws.split(",")} - {"plain"})
        st["json_class"] = "+".join(kinds).replace("extra", "extra-members") or "plain"
    return st


def in_domain(st, style, frags):
    """Is the stream inside what the property (as proved) promises? Returns (bool, reason)."""
    for ln, h, fr in zip(st["lines"], st["hits"], frags):
        if h is None:
            continue
        if "\n" in h["code"] or "\r" in h["code"]:
            return False, "code-has-eol"
        if h["num"] == 0:
            return False, "line-number-zero"
        if st["flavour"] in ("plain", "rgcolour") and fr == "-":
            return False, "ambiguous-text-line"
        if st["flavour"] == "gitcolour" and ESC in h["path"]:
            return False, "esc-in-path"
    return True, ""


def expected_rows(st, tabw):
    return [(h["path"], h["num"], expand(h["code"], tabw)) for h in st["hits"] if h is not None]


def shown_rows(rows):
    """(path shown under, number, code text) per code row; the oracle's reading of the output."""
    cur, out = None, []
    for r in rows:
        if r[0] == "H":
            cur = r[1]
        elif r[0] == "C":
            out.append((r[1] if r[1] is not None else cur, r[2], r[4]))
        elif r[0] == "F":
            out.append((r[1], r[2], r[3]))
    return out


def run_stream(ctx, st, style, tabw, variant=None, mll=None):
    args = make_args(variant or VARIANTS[0], style, tabw, mll)
    data = ("\n".join(st["lines"]) + "\n").encode("utf-8", "surrogateescape")
    rc, out, err = ctx.run_delta(args, data, env={"DELTA_VERIF_FORCE_GUESS": st["guess"]})
    return rc, out.decode("utf-8", "replace"), err.decode("utf-8", "replace"), args, data


def panic_site(err):
    m = re.search(r"panicked at ([^\s:]+):(\d+)", err)
    msg = ""
    m2 = re.search(r"panicked at [^\n]*\n([^\n]*)", err)
    if m2:
        msg = m2.group(1)
    return (m.group(1) if m else "?"), msg


def classify_panic(err):
    site, msg = panic_site(err)
    if site.endswith("grep.rs") and "out of bounds" in msg or "out of range" in msg:
        return "panic:grep.rs:make_style_sections:submatch-out-of-range"
    if site.endswith("grep.rs") and "char boundary" in msg:
        return "panic:grep.rs:make_style_sections:submatch-not-on-char-boundary"
    if site.endswith("grep.rs") and "subtract with overflow" in msg:
        return "panic:grep.rs:handle_grep_line:line-number-zero"
    if site.endswith("paint.rs") and "String mismatch" in msg:
        return "panic:paint.rs:superimpose:grep-sections-misaligned"
    return "panic:%s:%s" % (os.path.basename(site), re.sub(r"[^a-z]+", "-", msg.lower())[:40])


# ---------------------------------------------------------------------------------------------

def ask_both(ctx, rep, impl_reqs, model_reqs, caller="git grep -n foo"):
    impl = ctx.hook(extra_env={"DELTA_VERIF_HOOK_CALLER": caller}).ask(impl_reqs)
    mdl = ctx.model("drv_grep")
    model = mdl.ask(model_reqs) if (mdl and ctx.drivers_ok) else [None] * len(model_reqs)
    return impl, model


def same(i, m):
    if i is None or m is None:
        return True
    if i.startswith("PANIC") or m.startswith("PANIC"):
        return i.startswith("PANIC") and m.startswith("PANIC")
    return i == m


def parse_resp(r):
    """`ok some gt kind xpath num xcode subs...` -> dict or None."""
    f = r.split(" ")
    if f[:2] != ["ok", "some"]:
        return None
    subs = None
    if f[7] != "-":
        k = int(f[7])
        subs = [(int(f[8 + 2 * i]), int(f[9 + 2 * i])) for i in range(k)]
    return dict(gtype=f[2], kind=f[3], path=unhxs(f[4]), num=None if f[5] == "-" else int(f[5]), code=unhxs(f[6]), subs=subs)


def misparse_signature(fp, path):
    """`misparse:plain:fragment-<A|B|B2|C>`; for B2 the input class is named too (what keeps the line from
    the second regex: a long extension, a blank or a `|` in the path)."""
    sig = "misparse:plain:fragment-" + fp
    if fp == "B2":
        sig += ":unnumbered:" + ("ext-len-7-10" if ext_len(path) > DOC_EXT_MAX_NOSPACES else
                                 ("blank-in-path" if " " in path else "bar-in-path"))
    return sig


def num_of(digits):
    if digits is None:
        return None
    v = int(digits)
    return v if v < 2 ** 64 else None


def run(ctx, rep):
    rng = ctx.rng
    rep.rule = ("lines: generated grep records (paths with dashes, digits, dots, spaces, non-ASCII; codes with separator/"
                "number/extension look-alikes; 30% of the paths and a systematic family drawn over the documented plain-text "
                "fragment: extension lengths 1..10 and 11, with/without line number, all three separators, dashes/'='/dots/"
                "blanks in directories and names) formatted plain / git-coloured / rg --json, their 1-3 character mutations, and "
                "random strings over `a.:-=1 |`…; non-trivial = at least one regex matches (or the JSON deserialises); "
                "streams: 1-4 paths x 1-5 hits with numbers/context/`--`/function headers; non-trivial = >= 2 hits and a path "
                "change or a separator; distinct by input text + options")
    rep.extra_trusted += ["regex crate (pattern semantics; hand-written parsers tested differentially)", "serde_json (Python's json decodes the same line for the model)",
                          "strip_ansi_codes / parse_style_sections (ANSI model, other properties)"]

    # ---- 0. translator cross-check: reconstructed pattern text == Regex::as_str()
    import importlib.util
    spec = importlib.util.spec_from_file_location("extractor_grep", os.path.join(ROOT, "tools", "extractors", "grep.py"))
    xg = importlib.util.module_from_spec(spec)
    spec.loader.exec_module(xg)
    try:
        texts = xg.pattern_texts(REPO)
        NO_SEP_LAST_EXCLUDED[0] = xg.no_sep_last_excluded(REPO)
    except SystemExit as e:
        texts = None
        rep.corr_case("grep.patterns", False, dict(error=str(e)))
    order = ["WithColor", "WithFileExtensionAndLineNumber", "WithFileExtensionNoSpaces", "WithFileExtension", "WithoutSeparatorCharacters"]
    if texts is not None:
        got = ctx.hook().ask(["grep.patterns"])[0].split(" ")[1:]
        for v, g in zip(order, got):
            rep.corr_case("grep.patterns", unhxs(g) == texts[v], dict(variant=v, impl=unhxs(g)[:200], extracted=texts[v][:200]))

    # ---- 1. parsers: model vs regexes, plus the round-trip oracle
    recs = [gen_record(rng) for _ in range(ctx.n(600, 30000))]
    cases = []  # (line, record|None, flavour)
    for r in recs:
        kind, path, digits, code = r
        cases.append((fmt_plain(kind, path, digits, code), r, "plain"))
        marked = mark_code(rng, code) if kind == "match" else ([(False, code)] if code else [])
        cases.append((fmt_git_colour(kind, path, digits, marked), r, "gitcolour"))
        if rng.random() < 0.5:
            cases.append((mutate(rng, cases[-2][0]), None, "mutated"))
        if rng.random() < 0.3:
            cases.append((mutate(rng, cases[-2 if cases[-1][2] == "gitcolour" else -3][0] if False else fmt_git_colour(kind, path, digits, marked)), None, "mutated-colour"))
    for _ in range(ctx.n(800, 40000)):
        cases.append((random_line(rng), None, "random"))
    cases = [c for c in cases if "\n" not in c[0]]
    impl_reqs, model_reqs, owner = [], [], []
    for ci, (line, r, fl) in enumerate(cases):
        for i in range(5):
            q = f"grep.parse_regex {i} {hx(line)}"
            impl_reqs.append(q); model_reqs.append(q); owner.append((ci, "grep.parse_regex"))
        q = f"grep.parse {hx(line)}"
        impl_reqs.append(q); model_reqs.append(q); owner.append((ci, "grep.parse"))
        impl_reqs.append(f"grep.parse_raw {hx(line)}"); model_reqs.append(None); owner.append((ci, "grep.parse_raw"))
    # fragments (model reading vs Python reading of the theorems' side conditions)
    frag_reqs = [f"grep.fragment {r[0]} {hx(r[1])} {'-' if r[2] is None else hx(r[2])} {hx(r[3])}" for r in recs]
    mdl = ctx.model("drv_grep")
    have_model = bool(mdl and ctx.drivers_ok)
    impl = ctx.hook(extra_env={"DELTA_VERIF_HOOK_CALLER": "git grep -n foo"}).ask(impl_reqs)
    model = mdl.ask([q for q in model_reqs if q is not None] + frag_reqs) if have_model else []
    mit = iter(model)
    per_case = {}
    for (ci, op), q, i in zip(owner, model_reqs, impl):
        m = next(mit) if (q is not None and have_model) else None
        per_case.setdefault(ci, []).append((op, q, i, m))
        if m is not None:
            rep.corr_case(op, same(i, m), dict(line=cases[ci][0], req=q, impl=i, model=m))
    frag_model = [next(mit).split(" ") for _ in frag_reqs] if have_model else [None] * len(recs)
    frag_by_rec = {}
    for r, fm in zip(recs, frag_model):
        fp = fragment(*r)
        frag_by_rec[id(r)] = fp
        rep.count("fragment:" + fp)
        if fm is not None:
            rep.corr_case("fragment", fm[1] == fp and unhxs(fm[3]) == fmt_plain(*r), dict(record=r, model=fm, python=fp))
            if fm[1] != "-" and fm[2] != "1":
                rep.corr_case("fragment-model-round-trip", False, dict(record=r, model=fm))
    for ci, (line, r, fl) in enumerate(cases):
        res = per_case[ci]
        matched = any(i.startswith("ok some") for _, _, i, _ in res)
        rep.case(key=("line", line), nontrivial=matched,
                 sample=dict(op="grep.parse", line=line, impl=res[5][2], model=res[5][3]) if (matched and len(rep.samples) < 2) else None)
        rep.count("lines:" + fl)
        if r is None:
            continue
        kind, path, digits, code = r
        want = dict(gtype="classic", kind=kind, path=path, num=num_of(digits), code=code, subs=None)
        if fl == "plain":
            fp = frag_by_rec[id(r)]
            got = parse_resp(res[5][2])
            if fp != "-":
                rep.count("oracle:plain-round-trip:" + fp)
                if got != want:
                    sig = misparse_signature(fp, path)
                    rep.violation(sig, f"text grep line inside proved fragment {fp} is not read back: {line!r} -> {got}",
                                  dict(kind="line", op="grep.parse", caller="git grep -n foo", line=line, want=want, got=got))
            elif got != want:
                rep.count("outside-fragments-misparsed")
                # the one class the property's wording covers but the code gets wrong (D-E)
                if (digits is None and kind != "match" and no_sep_path_ok(path) and not re.search(r"[:=\-.]", path)
                        and code[:1] in ("-", "=") and not SEP_LOOKALIKE.search(code) and not starts_with_num(KINDS[kind], code)):
                    rep.violation("misparse:plain:extensionless-path:code-starts-with-separator",
                                  f"{line!r}: extension-less name free of separators, yet read as {got}",
                                  dict(kind="line", op="grep.parse", caller="git grep foo", line=line, want=want, got=got))
            else:
                rep.count("outside-fragments-ok")
        elif fl == "gitcolour":
            got = parse_resp(res[6][2])
            ok_dom = ESC not in path and "\n" not in code and (digits is None or digits_ok(digits))
            # unnumbered line whose code starts like a coloured line number: excluded by the theorem
            if ok_dom and digits is None and re.match(r"\x1b\[32m[0-9]+\x1b\[m\x1b\[36m", code):
                ok_dom = False
            if ok_dom:
                rep.count("oracle:coloured-round-trip")
                if got != want:
                    rep.violation("misparse:coloured", f"coloured grep line is not read back: {line!r} -> {got}",
                                  dict(kind="line", op="grep.parse_raw", caller="git grep -n foo", line=line, want=want, got=got))
    # ---- 1a. the parse dispatch of handle_grep_line on text lines without escape sequences (GrepInput.lineOfInput, T23):
    #          a line beginning with `{` goes to the JSON reader first and — when the source has the repair
    #          notes/fix-grep-brace-path.diff (the model follows the regenerated flag jsonFailureFallsBackToRegexes) — on its
    #          `None` to the plain regexes, like every other line. Oracle: a `{` line inside a proved fragment must be read
    #          back as the record it is (`misparse:plain:fragment-*:plain-path-begins-with-brace`).
    if have_model:
        dl = [c[0] for c in cases if ESC not in c[0] and c[2] in ("plain", "mutated", "random")][:ctx.n(250, 5000)]
        brace_rec, brace_reported = {}, set()
        for r in recs[:ctx.n(80, 2000)]:
            kind, path, digits, code = r
            if ESC not in path + code:
                for bp in ("{" + path, "{{cookiecutter.slug}}/" + path):
                    dl.append(fmt_plain(kind, bp, digits, code))
                    brace_rec[dl[-1]] = (kind, bp, digits, code)
        dl = [l for l in dl if "\n" not in l and not is_json_text(l)]
        di = ctx.hook(extra_env={"DELTA_VERIF_HOOK_CALLER": "git grep -n foo"}).ask([f"grep.parse {hx(l)}" for l in dl])
        dm = mdl.ask([f"grep.line_of_text 4 {hx(l)}" for l in dl])
        for l, i, m in zip(dl, di, dm):
            got = parse_resp(i)
            f = m.split(" ")
            if f[0] == "H" and len(f) == 5:
                want = dict(kind=f[1], path=unhxs(f[2]), num=None if f[3] == "-" else int(f[3]), code=unhxs(f[4]))
            elif f[0] == "O":
                want = None
            else:
                want = "?" + m
            g = None if got is None else dict(kind=got["kind"], path=got["path"], num=got["num"], code=got["code"])
            rep.count("dispatch:" + ("brace" if l.startswith("{") else "other") + (":hit" if g else ":not-grep"))
            rep.corr_case("line_of_text", g == want, dict(line=l, impl=i, model=m))
            if l in brace_rec:
                kind, bp, digits, code = brace_rec[l]
                fp = fragment(kind, bp, digits, code)
                if fp != "-":
                    rep.count("oracle:plain-round-trip:brace-path:" + fp)
                    rec = dict(gtype="classic", kind=kind, path=bp, num=num_of(digits), code=code, subs=None)
                    if got != rec:
                        rep.count("oracle:plain-round-trip:brace-path:not-read-back")
                    if got != rec and fp not in brace_reported:      # (one replay per fragment: 160 lines fail alike)
                        brace_reported.add(fp)
                        rep.violation("misparse:plain:fragment-" + fp + ":plain-path-begins-with-brace",
                                      f"text grep line inside proved fragment {fp} whose path begins with '{{' is not read back: {l!r} -> {got}",
                                      dict(kind="line", op="grep.parse", caller="git grep -n foo", line=l, want=rec, got=got))

    # ---- 1b. the documented fragment of plain-text lines, systematically: every extension length 1..10 (and 11,
    #          just outside) x with / without line number x match / context / function-header separator, over
    #          paths with dashes, '=', dots, digits and blanks in directories and names. Inside a fragment the
    #          real parse_grep_line must return the record (path, number, code); the model is asked too.
    fam = []
    for n in range(1, 12):
        for kind in ("match", "context", "contextheader"):
            for numbered in (False, True):
                for _ in range(ctx.n(3, 60)):
                    for _try in range(25):
                        path = gen_doc_path(rng, n)
                        code = gen_code(rng, 4)
                        digits = str(rng.choice([1, 2, 7, 10, 12, 57, 100, 214, 1090, 99999])) if numbered else None
                        if "\n" not in code and (n > DOC_EXT_MAX or fragment(kind, path, digits, code) != "-"):
                            break
                    if "\n" not in code:
                        fam.append((kind, path, digits, code))
    fam_lines = [fmt_plain(*r) for r in fam]
    fam_impl = ctx.hook(extra_env={"DELTA_VERIF_HOOK_CALLER": "git grep foo"}).ask([f"grep.parse {hx(l)}" for l in fam_lines])
    fam_model = (mdl.ask([f"grep.parse {hx(l)}" for l in fam_lines] +
                         [f"grep.fragment {r[0]} {hx(r[1])} {'-' if r[2] is None else hx(r[2])} {hx(r[3])}" for r in fam])
                 if have_model else [None] * (2 * len(fam)))
    for k, (r, line, i) in enumerate(zip(fam, fam_lines, fam_impl)):
        kind, path, digits, code = r
        m, fm = fam_model[k], fam_model[len(fam) + k]
        fp = fragment(*r)
        cls = doc_path_class(path)
        rep.case(key=("line", line), nontrivial=i.startswith("ok some"), sample=None)
        rep.count("doc-family:%s:%s:%s" % ("numbered" if digits is not None else "unnumbered", cls.split("+")[0], fp))
        if m is not None:
            rep.corr_case("grep.parse", same(i, m), dict(line=line, req="grep.parse", impl=i, model=m, family="documented-fragment"))
            fmf = fm.split(" ")
            rep.corr_case("fragment", fmf[1] == fp and unhxs(fmf[3]) == line, dict(record=r, model=fmf, python=fp))
            if fmf[1] != "-" and fmf[2] != "1":
                rep.corr_case("fragment-model-round-trip", False, dict(record=r, model=fmf))
        if fp == "-":
            continue
        want = dict(gtype="classic", kind=kind, path=path, num=num_of(digits), code=code, subs=None)
        got = parse_resp(i)
        rep.count("oracle:plain-round-trip:" + fp)
        if got != want:
            rep.violation(misparse_signature(fp, path),
                          f"text grep line inside proved fragment {fp} ({cls}) is not read back: {line!r} -> {got}",
                          dict(kind="line", op="grep.parse", caller="git grep foo", line=line, want=want, got=got))

    # non-grep caller: nothing is parsed as text grep output
    sample = [c[0] for c in cases if not c[0].startswith("{")][: ctx.n(200, 3000)]
    got = ctx.hook(extra_env={"DELTA_VERIF_HOOK_CALLER": "git diff"}).ask([f"grep.parse {hx(l)}" for l in sample] + [f"grep.parse_raw {hx(l)}" for l in sample])
    for l, g in zip(sample + sample, got):
        rep.corr_case("grep.parse(non-grep caller)", g == "ok none", dict(line=l, impl=g, model="ok none"))

    # ---- 2. rg --json records
    jl = []
    for _ in range(ctx.n(250, 10000)):
        kind = rng.choice(["match", "match", "context", "contextheader", "fileheader", "ignore"])
        code = gen_code(rng)
        data = code.encode()
        subs = gen_spans(rng, data, valid=rng.random() < 0.8)
        text = code + rng.choice(["\n", "\n", "\r\n", "", "\r", "\n\n", "\r\r\n"])
        line = rg_json(kind, gen_path(rng), rng.choice([None, 0, 1, 12, 2 ** 64 - 1]), text, [(a, min(b, len(data))) if a <= b else (a, a) for a, b in subs], ascii_only=rng.random() < 0.3)
        obj = json.loads(line)
        k = rng.random()
        if k < 0.12:
            del obj["data"][rng.choice(["path", "lines", "absolute_offset", "submatches", "line_number"])]
        elif k < 0.2:
            obj["type"] = rng.choice(["begin", "end", "summary", "Match", "other", 3, None])
        elif k < 0.25:
            obj["data"]["line_number"] = rng.choice([-1, 2 ** 64, "7", 1.5])
        elif k < 0.3:
            obj["data"]["path"] = {"bytes": "AAA="}
        elif k < 0.33:
            obj = rng.choice([[1, 2], {"type": "begin"}, {"x": 1}, 7])
        line = json.dumps(obj, ensure_ascii=rng.random() < 0.3)
        if k > 0.97:
            line = "{" + random_line(rng)
        jl.append(line)
    impl = ctx.hook().ask([f"grep.json {hx(l)}" for l in jl])
    model = mdl.ask([model_json_req(l) for l in jl]) if have_model else [None] * len(jl)
    for l, i, m in zip(jl, impl, model):
        rep.case(key=("json", l), nontrivial=i.startswith("ok some"),
                 sample=dict(op="grep.json", line=l, impl=i, model=m) if (i.startswith("ok some") and len(rep.samples) < 3) else None)
        rep.count("json:" + ("rec" if i.startswith("ok some ripgrep") and " ignore " not in i else "other"))
        rep.corr_case("grep.json", same(i, m), dict(line=l, impl=i, model=m))
        # direct: a record that deserialises keeps path / number / text minus line ending / spans
        try:
            v = serde_view(json.loads(l))
        except Exception:
            v = ("invalid",)
        if v[0] == "rec":
            got = parse_resp(i)
            text = v[4]
            if text.endswith("\n"):
                text = text[:-1]
                if text.endswith("\r"):
                    text = text[:-1]
            want = dict(gtype="ripgrep", kind=v[1], path=v[2], num=v[3], code=text, subs=v[5])
            if got != want:
                rep.violation("json:record-altered", f"rg --json record not kept: {l!r} -> {got}", dict(kind="hook", reqs=[f"grep.json {hx(l)}"], want=want, got=got))

    # ---- 2b. which JSON values are records: the record structs as the model reads them from the source
    #          (Generated/RipGrepJsonShape.lean, RipGrepJson.parseLine) vs serde, and the property's oracle on the
    #          family of ways a ripgrep may write a record (members the format does not have today at each of the
    #          four levels, members reordered, line_number absent)
    fam = []   # (line, meaning | None, class)
    for _ in range(ctx.n(450, 15000)):
        kind = rng.choice(["match", "match", "context"])
        code = gen_code(rng)
        data = code.encode()
        subs = gen_spans(rng, data) if kind == "match" else []
        eol = rng.choice(["\n", "\n", "\r\n", ""])
        num = rng.choice([None, None, 1, 12, 4096, 2 ** 64 - 1])
        path = gen_path(rng)
        line, what = rg_json_family(rng, kind, path, num, code + eol, subs, ascii_only=rng.random() < 0.3)
        if "\n" in code or "\r" in code:
            continue
        fam.append((line, dict(gtype="ripgrep", kind=kind, path=path, num=num, code=code, subs=subs), what))
        if rng.random() < 0.6:
            try:
                ml, name = mutate_record(rng, line)
                fam.append((ml, None, "mutated:" + name))
            except (ValueError, IndexError):
                pass
    # the existing mutated lines of section 2 go through the model of the structs as well
    fam += [(l, None, "section-2") for l in jl]
    impl = ctx.hook().ask([f"grep.json {hx(l)}" for l, _, _ in fam])
    mreq = [model_json_value_req(l) for l, _, _ in fam]
    model = mdl.ask(mreq) if have_model else [None] * len(fam)
    shown_sigs = {}     # (a few failing inputs per input class are enough; the report keeps 50 in all)
    for (l, want, what), i, m in zip(fam, impl, model):
        rep.case(key=("json", l), nontrivial=i.startswith("ok some"),
                 sample=dict(op="grep.json_value", line=l, impl=i, model=m, input_class=what) if (what.startswith("extra:") and len([s_ for s_ in rep.samples if s_.get("op") == "grep.json_value"]) < 2) else None)
        rep.count("json-shape:" + what.split(",")[0].split(":")[0] + ":" + ("record" if i.startswith("ok some ripgrep") and " ignore " not in i else ("swallowed" if i.startswith("ok some") else "not-a-record")))
        for w in what.split(","):
            rep.count("json-family:" + w)
        if m is not None:
            rep.corr_case("grep.json_value", same(i, m), dict(line=l, impl=i, model=m, input_class=what))
        if want is not None:
            got = parse_resp(i)
            if got != want and shown_sigs.get(what.split(",")[0].split(":")[0], 0) < 3:
                shown_sigs[what.split(",")[0].split(":")[0]] = shown_sigs.get(what.split(",")[0].split(":")[0], 0) + 1
                w0 = what.split(",")[0]
                sig = "json:record-not-read:" + ("record-with-extra-members" if w0.startswith("extra:") else "record-" + w0)
                rep.violation(sig, f"rg --json record ({what}) is not read as path / number / code / submatches: {l!r} -> {got}",
                              dict(kind="line", op="grep.json", caller="none", line=l, want=want, got=got))

    # ---- 3. make_style_sections / expand_tabs
    sreqs, scases = [], []
    for _ in range(ctx.n(400, 20000)):
        code = gen_code(rng, 5)
        data = code.encode()
        valid = rng.random() < 0.75
        spans = gen_spans(rng, data, valid)
        w = rng.choice([8, 8, 4, 2, 1, 0, 3])
        sp = " ".join(f"{a} {b}" for a, b in spans)
        sreqs.append(f"grep.sections {hx(code)} {len(spans)} {sp}".rstrip())
        scases.append(("sections", code, spans, None))
        sreqs.append(f"grep.expand_sections {w} {hx(code)} {len(spans)} {sp}".rstrip())
        scases.append(("expand_sections", code, spans, w))
    impl = ctx.hook().ask(sreqs)
    model = mdl.ask(sreqs) if have_model else [None] * len(sreqs)
    for q, (op, code, spans, w), i, m in zip(sreqs, scases, impl, model):
        data = code.encode()
        ok = spans_ok(data, spans)
        rep.case(key=(op, code, tuple(spans), w), nontrivial=len(spans) > 0, sample=dict(op="grep." + op, code=code, spans=spans, impl=i, model=m) if (spans and len(rep.samples) < 4) else None)
        rep.count(f"sections:{'valid' if ok else 'invalid'}:{'panic' if i.startswith('PANIC') else 'ok'}")
        rep.corr_case("grep." + op, same(i, m), dict(req=q, code=code, spans=spans, impl=i, model=m))
        if op == "sections" and ok:
            if i.startswith("PANIC"):
                rep.violation("panic:grep.rs:make_style_sections:valid-spans", "make_style_sections panics on valid spans", dict(kind="hook", reqs=[q], got=i))
            else:
                f = i.split(" ")[2:]
                secs = [(t[0] == "m", unhx(t[1:])) for t in f]
                cat = b"".join(t for _, t in secs)
                pos, ms = 0, []
                for mflag, t in secs:
                    if mflag:
                        ms.append((pos, pos + len(t)))
                    pos += len(t)
                if cat != data or ms != spans:
                    rep.violation("sections:not-the-submatches", f"sections of {code!r} {spans}: {secs}", dict(kind="hook", reqs=[q], got=i))
        if op == "expand_sections" and ok:
            lead = len(code) - len(code.lstrip("\t "))
            tabs_leading = "\t" not in code[lead:] and all(a >= lead for a, _ in spans)
            if tabs_leading:
                if i.startswith("PANIC"):
                    rep.violation("panic:grep.rs:expand_tabs:leading-tabs", "panic although tabs are only in the indentation", dict(kind="hook", reqs=[q], got=i))
                else:
                    head, tail = i[3:].split(" | ")
                    hf = head.split(" ")
                    code2 = unhx(hf[0])
                    k = int(hf[1])
                    sp2 = [(int(hf[2 + 2 * j]), int(hf[3 + 2 * j])) for j in range(k)]
                    if code2 != expand(code, w).encode() or [code2[a:b] for a, b in sp2] != [data[a:b] for a, b in spans]:
                        rep.violation("expand_tabs:leading-tabs-shift-inexact", f"{code!r} {spans} w={w}: {i}", dict(kind="hook", reqs=[q], got=i))
        if not ok and i.startswith("PANIC") and op == "sections":
            # defect #7 and relatives, reported through the binary probes below (with a replayable stream)
            rep.count("sections:invalid-span-panics")

    # ---- 4. streams through the real binary
    streams = []
    for si in range(ctx.n(180, 5000)):
        variant = VARIANTS[(si // 2) % len(VARIANTS)] if si % 2 else VARIANTS[0]
        mll = MLLS[si % len(MLLS)]
        flavour = rng.choice(["plain", "plain", "gitcolour", "rgcolour", "json", "json"])
        if flavour != "json" and mll == 60:
            mll = 200       # a text line must at least keep its `path:number:` prefix
        limit = 3000 if mll is None else mll
        long_len = (limit if limit else 300) if si % 3 == 0 else 0
        st = gen_stream(rng, flavour=flavour, allow_funchdr=variant["full_header"], long_len=long_len)
        st["variant"], st["mll"] = variant["name"], mll
        streams.append(st)
    # plain-text streams over the documented path fragment (long extensions, blanks, dashes), mostly without
    # line numbers: the rows must show path / number / code of every hit
    for si in range(ctx.n(16, 400)):
        n = rng.choice([7, 8, 9, 10, 10, rng.randint(1, 10)])
        st = gen_stream(rng, flavour="plain", allow_funchdr=False, path_gen=lambda r, n=n: gen_doc_path(r, n),
                        numbered=rng.random() < 0.3)
        st["variant"], st["mll"] = "base", None
        streams.append(st)
    run_streams(ctx, rep, streams, mdl if have_model else None)

    # ---- 5. probes for the defect classes found while building this check (each is outside what
    #         the main generator produces, so that a listed finding is matched narrowly)
    run_probes(ctx, rep)


def model_hits_for(ctx, mdl, st):
    """Per line of the stream, what the *model's* parsers make of it: list of `H ...` / `O ...` field strings."""
    reqs = []
    for ln in st["lines"]:
        if ln.startswith("{"):
            reqs.append(model_json_value_req(ln))
        elif ln.startswith(ESC):
            reqs.append(f"grep.parse_regex 0 {hx(ln)}")
            reqs.append(f"grep.parse {hx(strip_sgr(ln))}")
        else:
            reqs.append(f"grep.parse {hx(ln)}")
    return reqs


TABW = [8, 8, 4, 1, 0, 2]


def stream_tabw(si, st):
    return VARIANT_OF[st.get("variant", "base")].get("tabw", TABW[si % len(TABW)])


def line_truncated(st, k):
    """Is line k of the stream cut by --max-line-length? (rg --json records never are.)"""
    if st["flavour"] == "json":
        return False
    mll = st.get("mll")
    limit = 3000 if mll is None else mll
    return limit > 0 and len(st["lines"][k].encode("utf-8", "surrogateescape")) > limit


def is_json_text(line):
    """the line is JSON text (the model takes such lines as values: `Input.json`)"""
    try:
        json.loads(line)
        return True
    except Exception:
        return False


def run_streams(ctx, rep, streams, mdl):
    # model-side parse of every line (full model pipeline: parse, then emit)
    fields_per_stream = []
    frag_per_stream = []
    emit_skipped = set()
    if mdl is not None:
        allreq, idx = [], []
        for si, st in enumerate(streams):
            rq = model_hits_for(ctx, mdl, st)
            idx.append((len(allreq), len(rq)))
            allreq += rq
        ans = mdl.ask(allreq)
    for si, st in enumerate(streams):
        frs = []
        for ln, h in zip(st["lines"], st["hits"]):
            if h is None or st["flavour"] in ("json", "gitcolour"):
                frs.append("n/a")
            else:
                frs.append(fragment(h["kind"], h["path"], None if h["num"] is None else str(h["num"]), h["code"]))
        frag_per_stream.append(frs)
        if mdl is None:
            fields_per_stream.append(None)
            continue
        a0, n = idx[si]
        a = ans[a0:a0 + n]
        ai = 0
        fields = []
        if any(line_truncated(st, k) for k in range(len(st["lines"]))):
            # delta works on the truncated line; the model has no truncation (also when no line of the
            # stream is read as grep output: the rows are then the truncated lines passed through)
            emit_skipped.add(si)
        for ln in st["lines"]:
            if ln.startswith(ESC) and not ln.startswith("{"):
                r0, r1 = parse_resp(a[ai]), parse_resp(a[ai + 1])
                ai += 2
                if r0 is not None:
                    r0["code"] = strip_sgr(r0["code"])
                r = r0 or r1
            else:
                r = parse_resp(a[ai]) if a[ai].startswith("ok") else None
                ai += 1
            if r is None:
                fields.append("O " + hx(ln))
                continue
            stripped = strip_sgr(ln)
            if r["subs"] is None and r["gtype"] == "classic":
                sep = KINDS.get(r["kind"], "")
                pre = r["path"] + sep + (str(r["num"]) + sep if r["num"] is not None else "")
                # get_code_style_sections recomputes the prefix length from path and number, on the tab-expanded raw line
                tabw_s = stream_tabw(si, st)
                pok = stripped.startswith(pre) and stripped[len(pre):] == r["code"] and ("\t" not in r["path"] or tabw_s in (0, 1))
            else:
                pok = True
            if r["kind"] == "contextheader" and not VARIANT_OF[st.get("variant", "base")]["full_header"]:
                # (an ambiguous line read as a `=` line:) its classic rendering follows --hunk-header-style,
                # which in this variant shows neither file nor number; the row decoder cannot tell it from raw text
                emit_skipped.add(si)
            if not pok and r["kind"] == "match":
                # what happens then depends on the text the mis-cut sections happen to contain (a panic when
                # they differ from the code, nothing when e.g. a TAB in the path left blanks there): the model's
                # `prefixOk` does not decide it; such streams are left to the probes
                emit_skipped.add(si)
            subs = "-" if r["subs"] is None else (str(len(r["subs"])) + "".join(" %d %d" % s for s in r["subs"]))
            fields.append("H %s %s %s %s %d %s %s" % (r["gtype"], r["kind"], hx(r["path"]), "-" if r["num"] is None else r["num"],
                                                       1 if pok else 0, hx(r["code"]), subs))
        fields_per_stream.append(fields)

    jobs = []
    for si, st in enumerate(streams):
        variant = VARIANT_OF[st.get("variant", "base")]
        styles = ["classic"] if variant.get("classic_only") else ["classic", "ripgrep"] + (["default"] if st["flavour"] == "json" and si % 3 == 0 else [])
        tabw = stream_tabw(si, st)
        for style in styles:
            jobs.append((si, style, tabw))
    results = parallel_map(lambda j: run_stream(ctx, streams[j[0]], j[1], j[2], VARIANT_OF[streams[j[0]].get("variant", "base")],
                                                streams[j[0]].get("mll")), jobs)
    emit_reqs, emit_idx = [], []
    for (si, style, tabw), (rc, out, err, args, data) in zip(jobs, results):
        st = streams[si]
        if si in emit_skipped:
            rep.count("streams:emit-correspondence-skipped:truncated/prefix-not-recomputable/undecodable-header")
            emit_idx.append(None)
        elif fields_per_stream[si] is not None:
            hdr = 0 if st["wflag"] else 1
            ot = "-" if style == "default" else style
            emit_reqs.append("grep.emit %s %d %d %d %s" % (ot, tabw, hdr, len(st["lines"]), " ".join(fields_per_stream[si])))
            emit_idx.append(len(emit_reqs) - 1)
        else:
            emit_idx.append(None)
    emit_ans = mdl.ask(emit_reqs) if (mdl is not None and emit_reqs) else []
    # rg --json streams once more, whole: JSON values -> RipGrepJson.lineOf (parse_line + the hit the emission logic
    # sees) -> Grep.emit, in one model call (the composition the theorem rendered_hit_independent_of_extra_members is about)
    jemit_reqs, jemit_idx = [], []
    for (si, style, tabw), ei in zip(jobs, emit_idx):
        st = streams[si]
        if ei is None or st["flavour"] != "json" or mdl is None:
            jemit_idx.append(None)
            continue
        parts = []
        for ln in st["lines"]:
            t = line_tokens(ln)
            parts.append(hx(ln) + " " + (" ".join(t) if t is not None else "-") + " ;")
        jemit_reqs.append("grep.json_emit %s %d %d %d %s" % ("-" if style == "default" else style, tabw, 0 if st["wflag"] else 1, len(st["lines"]), " ".join(parts)))
        jemit_idx.append(len(jemit_reqs) - 1)
    jemit_ans = mdl.ask(jemit_reqs) if (mdl is not None and jemit_reqs) else []
    for (si, style, tabw), (rc, out, err, args, data), ji in zip(jobs, results, jemit_idx):
        if ji is None:
            continue
        m = jemit_ans[ji]
        rows = decode_rows(out, style if style != "default" else "ripgrep") if rc == 0 else []
        if rc != 0:
            agree = m.startswith("PANIC") and rc == 101
        elif not m.startswith("ok"):
            agree = False
        else:
            agree = model_rows(m, "json") == canon_rows(rows, "json")
        rep.corr_case("json_emit", agree, dict(kind="stream", args=args, stdin_b64=b64(data), style=style, tabw=tabw, model=m[:1500],
                                               impl_rows=[list(r) for r in rows][:40], rc=rc, stderr=err[-300:], json_class=streams[si].get("json_class")))
    # the layout of the classic-style rows: cells (text + the style that paints it) of the model (GrepRow.classicRow,
    # make_output_config from the calling process) vs the cells of the binary's output rows
    lay_reqs, lay_idx = [], []
    for (si, style, tabw), ei in zip(jobs, emit_idx):
        st = streams[si]
        if (ei is None or mdl is None or style != "classic" or st["flavour"] not in ("plain", "json")
                or st.get("variant", "base") not in ("base", "navigate") or st.get("mll") not in (None, 0)):
            lay_idx.append(None)
            continue
        words = st["guess"].split(" ")
        caller = "GitGrep" if words[:2] == ["git", "grep"] else ("OtherGrep" if words[0] in ("rg", "grep", "ag", "ack") else "None")
        opts = [w for w in words if w.startswith("-")]
        lay_reqs.append("grep.row_cells %d %s %s %d %s%s %d %d %s" % (
            1 if st.get("variant") == "navigate" else 0, hx(BASE_OPTS["--grep-separator-symbol"]), caller, len(opts),
            "".join(hx(o) + " " for o in opts), style, tabw, len(st["lines"]), " ".join(fields_per_stream[si])))
        lay_idx.append(len(lay_reqs) - 1)
    lay_ans = mdl.ask(lay_reqs) if (mdl is not None and lay_reqs) else []
    letter = {PAL["file"]: "f", PAL["num"]: "n", PAL["word"]: "w", PAL["line"]: "l", PAL["ctx"]: "c", None: "p"}

    def merged(cells):
        o = []
        for pnt, t in cells:
            if not t:
                continue
            if o and o[-1][0] == pnt:
                o[-1] = (pnt, o[-1][1] + t)
            else:
                o.append((pnt, t))
        return o
    for (si, style, tabw), (rc, out, err, args, data), li in zip(jobs, results, lay_idx):
        if li is None or rc != 0:
            continue
        m = lay_ans[li]
        if not m.startswith("ok"):
            rep.corr_case("row_layout", False, dict(kind="stream", args=args, stdin_b64=b64(data), model=m[:600], why="model does not answer"))
            continue
        mrows = m.split(" | ")[1:]
        olines = out.split("\n")
        if olines and olines[-1] == "":
            olines.pop()
        if len(olines) != len(mrows):
            rep.count("row_layout:skipped:row-count-differs")
            continue
        for mr, ol in zip(mrows, olines):
            f = mr.split(" ")
            if f[0] == "X":
                continue
            want = merged([(t[0], unhx(t[1:]).decode("utf-8", "replace")) for t in f[1:]])
            got = merged([(letter.get(fg, "?" + str(fg)), t) for fg, t in segments(ol)])
            rep.corr_case("row_layout", want == got, dict(kind="stream", args=args, guess=streams[si]["guess"], stdin_b64=b64(data), row=ol, model=want, impl=got))
    # the visible text of every row (T23): ripgrep-style hit rows, path headers and the classic function-context header are
    # written by the hunk-header helper; the model interprets the arguments grep.rs passes at each call site
    # (Generated/GrepHelperCalls.lean -> GrepHelper.helperText), classic hit rows go through GrepRow.classicRow
    txt_reqs, txt_idx = [], []
    TEXT_VARIANTS_RG = ("base", "navigate", "hyperlinks", "hunk-header-style=raw", "hunk-header-style=omit",
                        "hunk-header-style=file+line-number+syntax,box", "hunk-header-style=syntax,ul/ol")
    for (si, style, tabw), ei in zip(jobs, emit_idx):
        st = streams[si]
        eff = style if style != "default" else ("ripgrep" if st["flavour"] == "json" else "classic")
        vname = st.get("variant", "base")
        if (ei is None or mdl is None or st.get("mll") not in (None, 0)
                or (eff == "ripgrep" and vname not in TEXT_VARIANTS_RG) or (eff == "classic" and vname not in ("base", "navigate"))):
            txt_idx.append(None)
            continue
        words = st["guess"].split(" ")
        caller = "GitGrep" if words[:2] == ["git", "grep"] else ("OtherGrep" if words[0] in ("rg", "grep", "ag", "ack") else "None")
        opts = [w for w in words if w.startswith("-")]
        label = "\u2022" if vname == "navigate" else ""
        txt_reqs.append("grep.rows_text %s 0 1 1 %d %s %s %d %s%s %d %d %s" % (
            hx(label), 1 if vname == "navigate" else 0, hx(BASE_OPTS["--grep-separator-symbol"]), caller, len(opts),
            "".join(hx(o) + " " for o in opts), "-" if style == "default" else style, tabw, len(st["lines"]), " ".join(fields_per_stream[si])))
        txt_idx.append(len(txt_reqs) - 1)
    txt_ans = mdl.ask(txt_reqs) if (mdl is not None and txt_reqs) else []
    for (si, style, tabw), (rc, out, err, args, data), ti in zip(jobs, results, txt_idx):
        if ti is None or rc != 0:
            continue
        m = txt_ans[ti]
        if not m.startswith("ok"):
            rep.corr_case("rows_text", False, dict(kind="stream", args=args, stdin_b64=b64(data), model=m[:600], why="model does not answer"))
            continue
        # (a line passed through keeps its escape sequences; the comparison is on the visible text)
        want = [CSI.sub("", OSC8.sub("", unhx(t).decode("utf-8", "replace"))) for t in m.split(" | ")[1:] if t != "-"]
        got = []
        olines = out.split("\n")
        if olines and olines[-1] == "":
            olines.pop()
        for ol in olines:
            segs = segments(OSC8.sub("", ol))
            if segs and any(f == PAL["deco"] for f, _ in segs):
                if all(f == PAL["deco"] or not t.strip() for f, t in segs) and all(c in BOX_CHARS for _, t in segs for c in t):
                    continue
                segs = [(f, t) for f, t in segs if f != PAL["deco"]]
            got.append("".join(t for _, t in segs))
        eff = style if style != "default" else ("ripgrep" if streams[si]["flavour"] == "json" else "classic")
        rep.count("rows_text:%s:%s" % (eff, streams[si].get("variant", "base")))
        rep.corr_case("rows_text", want == got, dict(kind="stream", args=args, guess=streams[si]["guess"], stdin_b64=b64(data), style=eff,
                                                     model=want[:40], impl=got[:40]))
    for (si, style, tabw), (rc, out, err, args, data), ei in zip(jobs, results, emit_idx):
        st = streams[si]
        eff_style = style if style != "default" else ("ripgrep" if st["flavour"] == "json" else "classic")
        nhits = sum(1 for h in st["hits"] if h is not None)
        npaths = len({h["path"] for h in st["hits"] if h is not None})
        rows = decode_rows(out, eff_style) if rc == 0 else []
        rep.case(key=("stream", data, style, tabw, st["guess"], st.get("variant"), st.get("mll")), nontrivial=nhits >= 2 and (npaths > 1 or "--" in out),
                 sample=dict(op="stream", flavour=st["flavour"], style=style, guess=st["guess"], stdin=data.decode("utf-8", "replace")[:400], rows=[list(r) for r in rows[:6]]) if si < 3 else None)
        rep.count(f"streams:{st['flavour']}:{style}")
        rep.count("options:" + st.get("variant", "base"))
        rep.count("max-line-length:%s%s" % (st.get("mll"), ":long-records" if any(len(l) > (3000 if st.get("mll") is None else (st.get("mll") or 300)) for l in st["lines"]) else ""))
        replay = dict(kind="stream", args=args, guess=st["guess"], stdin_b64=b64(data), style=eff_style, tabw=tabw,
                      variant=st.get("variant", "base"), mll=st.get("mll"),
                      hits=[h and {k: v for k, v in h.items() if k != "marked"} for h in st["hits"]], flavour=st["flavour"], wflag=st["wflag"],
                      json_class=st.get("json_class"))
        if st["flavour"] == "json":
            rep.count("streams:json:records:" + (st.get("json_class") or "as-ripgrep-13-writes-them"))
        dom, why = in_domain(st, eff_style, frag_per_stream[si])
        rep.count("streams:in-domain" if dom else "streams:outside:" + why)
        # --- correspondence with the model's emit
        if ei is not None:
            m = emit_ans[ei]
            if rc != 0:
                agree = m.startswith("PANIC") and rc == 101
            elif m.startswith("PANIC"):
                agree = False
            else:
                agree = model_rows(m, st["flavour"]) == canon_rows(rows, st["flavour"])
            rep.corr_case("emit", agree, dict(replay, model=m[:1500], impl_rows=[list(r) for r in rows][:40], rc=rc, stderr=err[-300:]))
        # --- direct oracle
        if not dom:
            continue
        judge_stream(rep, st, eff_style, tabw, rc, out, err, rows, replay)


def merge_spans(sp):
    """What cells can show of a span list: empty spans vanish, adjacent spans fuse."""
    o = []
    for a, b in sp:
        if a == b:
            continue
        if o and o[-1][1] == a:
            o[-1] = (o[-1][0], b)
        else:
            o.append((a, b))
    return tuple(o)


def canon_rows(rows, flavour):
    out = []
    for r in rows:
        if r[0] == "C":
            spans = merge_spans(r[5]) if flavour == "json" else None
            out.append(("C", r[1], r[2], r[3], r[4], spans))
        else:
            out.append(tuple(r))
    return out


def model_rows(ans, flavour):
    """`ok n | row | row ...` of grep.emit -> same canonical rows as `canon_rows(decode_rows(..))`."""
    parts = ans.split(" | ")[1:]
    out = []
    for p in parts:
        f = p.split(" ")
        if f[0] == "B":
            out.append(("B",))
        elif f[0] == "H":
            out.append(("H", unhxs(f[1])))
        elif f[0] == "S":
            out.append(("SEP",))
        elif f[0] == "R":
            t = strip_sgr(unhxs(f[1]))
            out.append(("SEP",) if t == "--" else (("B",) if t == "" else ("RAW", t)))
        elif f[0] == "C":
            path = None if f[1] == "-" else unhxs(f[1])
            num = None if f[2] == "-" else int(f[2])
            sep = KINDS.get(f[3], "")
            trail = f[4] == "1"
            k = int(f[5])
            text, spans = b"", []
            for t in f[6:6 + k]:
                b = unhx(t[1:])
                if t[0] == "m":
                    spans.append((len(text), len(text) + len(b)))
                text += b
            text = text.decode("utf-8", "replace")
            if trail and k > 0:
                text += " "
            if path is None and num is None:
                sep = None
            out.append(("C", path, num, sep, text, merge_spans(spans) if flavour == "json" else None))
        elif f[0] == "F":
            t = unhxs(f[3])
            out.append(("F", unhxs(f[1]), None if f[2] == "-" else int(f[2]), (t + " ") if t else ""))
    return out


def judge_stream(rep, st, style, tabw, rc, out, err, rows, replay):
    """The property itself, on the real output."""
    if rc != 0:
        sig = classify_panic(err) if rc == 101 else f"exit:{rc}"
        site, msg = panic_site(err)
        rep.violation(sig, f"delta exits {rc} on a grep result stream: panicked at {site}: {msg}" if rc == 101 else f"delta exits {rc}: {err[-300:]}", replay)
        return
    want = expected_rows(st, tabw)
    got = shown_rows(rows)
    if st["flavour"] == "json":
        # no input record may show up as JSON text: every record is a hit (rendered) or metadata (swallowed)
        cls = ":record-with-" + st["json_class"] if st.get("json_class") else ""
        shown = ["".join(t for _, t in segments(OSC8.sub("", row))).strip() for row in out.split("\n")]
        leaked = [t for t in shown if len(t) >= 8 and t.startswith("{") and any(l.startswith(t[:60]) for l in st["lines"])]
        if leaked:
            rep.violation("rows:raw-json-leaked" + cls,
                          "%d rg --json record(s) are not recognised and appear as raw JSON text, e.g. %r" % (len(leaked), leaked[0][:160]),
                          dict(replay, want=want, got=got))
            return
    if any(r[0] == "?" for r in rows):
        rep.violation("rows:undecodable", "a row is not path/number/code in the reserved styles: %r" % [r for r in rows if r[0] == "?"][:2], replay)
        return

    hit_lines = [k for k, h in enumerate(st["hits"]) if h is not None]

    def norm(g, w, k):
        # ripgrep style appends one blank to unhighlighted code; function headers always do
        if g == w or g == w + " ":
            return True
        if line_truncated(st, hit_lines[k]):
            # --max-line-length cut the input line: a proper prefix of the code plus the truncation symbol
            for g2 in (g, g[:-1] if g.endswith(" ") else g):
                # (a wide character that does not fit any more is replaced by a blank)
                if g2 and len(g2) <= len(w) + 1 and (w.startswith(g2[:-1]) or w.startswith(g2[:-1].rstrip(" "))):
                    return True
        return False
    if len(got) != len(want):
        rep.violation("rows:count", f"{len(want)} hits but {len(got)} code rows", dict(replay, want=want, got=got))
        return
    for k, (g, w) in enumerate(zip(got, want)):
        if g[0] != w[0]:
            rep.violation("rows:path", f"hit {k}: shown under {g[0]!r}, expected {w[0]!r}", dict(replay, want=want, got=got))
            return
        if g[1] != w[1]:
            rep.violation("rows:number", f"hit {k}: number {g[1]!r}, expected {w[1]!r}", dict(replay, want=want, got=got))
            return
        if not norm(g[2], w[2], k):
            rep.violation("rows:code", f"hit {k}: code {g[2]!r}, expected {w[2]!r}", dict(replay, want=want, got=got))
            return
    # ripgrep style: one header per run of equal paths
    if style == "ripgrep":
        hdrs = [r[1] for r in rows if r[0] == "H"]
        runs = []
        for w in want:
            if not runs or runs[-1] != w[0]:
                runs.append(w[0])
        if hdrs != runs:
            rep.violation("rows:grouping", f"path headers {hdrs}, expected {runs}", dict(replay, want=want))
            return
    # rg --json: highlighted cells == submatches (exact when tabs are only in the indentation)
    if st["flavour"] == "json":
        crow = [r for r in rows if r[0] == "C"]
        hs = [h for h in st["hits"] if h is not None]
        for r, h in zip(crow, hs):
            if h["subs"] is None:
                continue
            code = h["code"]
            lead = len(code) - len(code.lstrip("\t "))
            if "\t" in code[lead:] or any(a < lead for a, _ in h["subs"]):
                continue
            shift = len(expand(code, tabw).encode()) - len(code.encode())
            exp = [(a + shift, b + shift) for a, b in h["subs"] if a < b]
            if merge_spans(r[5]) != merge_spans(exp):
                rep.violation("rows:highlight", f"{code!r}: highlighted {r[5]}, submatches (shifted) {exp}", dict(replay, hit=h))
                return


def probe_stream(lines, guess, hits, flavour="plain", wflag=False):
    return dict(flavour=flavour, guess=guess, numbered=True, wflag=wflag, lines=lines, hits=hits)


def run_probes(ctx, rep):
    rng = ctx.rng
    P = []
    # (a) DESIGN defect #7: submatch beyond the text
    for _ in range(ctx.n(3, 40)):
        code = rng.choice(["abc", "fn x", "é"])
        n = len(code.encode())
        sub = (rng.choice([0, n]), n + rng.randint(1, 5))
        P.append(("json-span-out-of-range", probe_stream([rg_json("match", "a.rs", 1, code + "\n", [(sub[0], n)]).replace('"end":%d' % n, '"end":%d' % sub[1])], "none",
                                                          [dict(path="a.rs", num=1, kind="match", code=code, subs=[sub])], "json"), ["ripgrep", "classic"]))
    # (b) valid rg output: non-ASCII text before a TAB, span before the TAB -> shifted offset inside a character
    for _ in range(ctx.n(3, 40)):
        k = rng.choice([1, 3])        # shift 7k is odd and < 8k: inside one of the 4k two-byte characters
        code = "é" * (4 * k) + "\t" * k + "foo"
        P.append(("json-tab-shift-char-boundary", probe_stream([rg_json("match", "a.rs", 3, code + "\n", [(0, 2)])], "none",
                                                                [dict(path="a.rs", num=3, kind="match", code=code, subs=[(0, 2)])], "json"), ["ripgrep", "classic"]))
    # (c) line number 0
    P.append(("line-number-zero", probe_stream(["a.rs:0:x"], "git grep -n x", [dict(path="a.rs", num=0, kind="match", code="x", subs=None)]), ["classic", "ripgrep"]))
    P.append(("line-number-zero", probe_stream([rg_json("match", "a.rs", 0, "x\n", [])], "none", [dict(path="a.rs", num=0, kind="match", code="x", subs=[])], "json"), ["ripgrep"]))
    # (d) zero-padded / overflowing line number on a match line
    for ds in ["007", "18446744073709551616"]:
        P.append(("line-number-not-canonical", probe_stream([f"a.rs:{ds}:xyz"], "git grep -n x", [dict(path="a.rs", num=num_of(ds), kind="match", code="xyz", subs=None)]), ["classic", "ripgrep"]))
    # (e) ripgrep style: empty unnumbered line vanishes
    P.append(("rg-style-empty-unnumbered", probe_stream(["a.rs:let x", "a.rs-", "a.rs:let y"], "git grep -C1 let",
                                                        [dict(path="a.rs", num=None, kind=k, code=c, subs=None) for k, c in (("match", "let x"), ("context", ""), ("match", "let y"))]), ["ripgrep"]))
    # (f) classic style: `git grep -p` without -n shows line number 0 in the function header
    P.append(("classic-header-number-zero", probe_stream(["src/a.rs=fn main() {", "src/a.rs:  foo();"], "git grep -p foo",
                                                         [dict(path="src/a.rs", num=None, kind=k, code=c, subs=None) for k, c in (("contextheader", "fn main() {"), ("match", "  foo();"))]), ["classic"]))
    # (g) extension-less name, context line whose code starts with a separator character
    for code in ["-x", "=y", "- item", "--flag"]:
        for sep, kind in (("-", "context"), ("=", "contextheader")):
            if kind == "contextheader" and code != "=y":
                continue
            P.append(("extensionless-code-starts-with-separator", probe_stream([f"Makefile{sep}{code}"], "git grep -C1 foo" if kind == "context" else "git grep -W foo",
                                                                              [dict(path="Makefile", num=None, kind=kind, code=code, subs=None)], wflag=kind == "contextheader"), ["classic", "ripgrep"]))
    # (h) --color-only with the ripgrep output style: the path header is followed by the whole input line and
    #     the hits lose their line numbers (the hunk-header helper keeps "the line as it is" in color-only mode)
    st = probe_stream(["src/a.rs:12:foo bar", "src/a.rs-13-ctx", "Makefile:3:all: x"], "git grep -n -C1 foo",
                      [dict(path=p_, num=n_, kind=k_, code=c_, subs=None) for p_, n_, k_, c_ in
                       (("src/a.rs", 12, "match", "foo bar"), ("src/a.rs", 13, "context", "ctx"), ("Makefile", 3, "match", "all: x"))])
    st["variant"] = "color-only"
    P.append(("color-only-ripgrep", st, ["ripgrep"]))
    st = probe_stream([rg_json("context", "src/a.rs", 3, "ctx\n", []), rg_json("match", "src/a.rs", 4, "fn x\n", [(0, 2)])], "none",
                      [dict(path="src/a.rs", num=3, kind="context", code="ctx", subs=None), dict(path="src/a.rs", num=4, kind="match", code="fn x", subs=[(0, 2)])], "json")
    st["variant"] = "color-only"
    P.append(("color-only-ripgrep", st, ["ripgrep"]))
    # (i) plain-text grep output whose path begins with `{` (`{{cookiecutter.slug}}/a.py`, `{arch}/lib/foo.c`): parse_grep_line
    #     hands a line beginning with `{` to the rg --json reader ONLY, so the hit is printed as it came instead of being
    #     rendered (repair: notes/fix-grep-brace-path.diff — the regexes are tried when the JSON reader answers None).
    #     Every line is inside a proved fragment (path with a file extension). The last stream has a hit longer than
    #     --max-line-length (3000): `{` lines are exempt from truncation (ingest_line_utf8), so it is shown in full.
    def brace_stream(recs_, guess):
        return probe_stream([fmt_plain(k_, p_, None if n_ is None else str(n_), c_) for k_, p_, n_, c_ in recs_], guess,
                            [dict(path=p_, num=n_, kind=k_, code=c_, subs=None) for k_, p_, n_, c_ in recs_])
    BR = "plain-path-begins-with-brace"
    P.append((BR, brace_stream([("match", "{{cookiecutter.slug}}/a.py", 1, "x")], "git grep -n x"), ["classic", "ripgrep"]))
    P.append((BR, brace_stream([("context", "{arch}/lib/foo.c", 12, "ctx"), ("match", "{arch}/lib/foo.c", 13, "\thit(foo);"),
                                ("match", "src/a.rs", 3, "foo")], "git grep -n -C1 foo"), ["classic", "ripgrep"]))
    P.append((BR, brace_stream([("match", "src/a.rs", None, "foo"), ("match", "{{cookiecutter.project_slug}}/setup.py", None, "import foo"),
                                ("match", "{{cookiecutter.project_slug}}/setup.py", None, "foo()")], "git grep foo"), ["classic", "ripgrep"]))
    for _ in range(ctx.n(6, 120)):
        rs_ = []
        numbered = rng.random() < 0.6
        for _p in range(rng.randint(1, 3)):
            for _try in range(40):
                bp = rng.choice(["{", "{{cookiecutter.slug}}/", "{arch}/"]) + gen_path(rng)
                if fragment("context", bp, "5" if numbered else None, "x") != "-":
                    break
            else:
                continue
            n_ = rng.randint(1, 400)
            for _h in range(rng.randint(1, 3)):
                kind = rng.choice(["match", "match", "context"])
                for _try in range(20):
                    code = gen_code(rng, 4)
                    if "\n" not in code and "\r" not in code and ESC not in code and fragment(kind, bp, str(n_) if numbered else None, code) != "-":
                        rs_.append((kind, bp, n_ if numbered else None, code))
                        n_ += 1
                        break
        rs_ = [r_ for r_ in rs_ if not is_json_text(fmt_plain(r_[0], r_[1], None if r_[2] is None else str(r_[2]), r_[3]))]
        if rs_:
            P.append((BR, brace_stream(rs_, "git grep" + (" -n" if numbered else "") + " -C1 foo"), ["classic", "ripgrep"]))
    P.append((BR, brace_stream([("match", "{{cookiecutter.slug}}/min.js", 1, "var t=[" + long_filler(rng, 3200) + "]"),
                                ("match", "{{cookiecutter.slug}}/min.js", 2, "foo")], "git grep -n foo"), ["classic", "ripgrep"]))
    jobs = [(name, st, style) for name, st, styles in P for style in styles]
    results = parallel_map(lambda j: run_stream(ctx, j[1], j[2], 8, VARIANT_OF[j[1].get("variant", "base")]), jobs)
    for (name, st, style), (rc, out, err, args, data) in zip(jobs, results):
        rows = decode_rows(out, style) if rc == 0 else []
        rep.case(key=("probe", name, data, style), nontrivial=True, sample=None)
        rep.count("probes:" + name)
        replay = dict(kind="stream", args=args, guess=st["guess"], stdin_b64=b64(data), style=style, tabw=8, probe=name,
                      variant=st.get("variant", "base"), hits=st["hits"], flavour=st["flavour"], wflag=st["wflag"])
        judge_probe(rep, name, st, style, rc, out, err, rows, replay)


def judge_probe(rep, name, st, style, rc, out, err, rows, replay):
    """Same oracle as judge_stream, with the failure named after the probed input class."""
    if rc != 0:
        sig = (classify_panic(err) if rc == 101 else f"exit:{rc}") + "@" + name
        site, msg = panic_site(err)
        rep.violation(sig, f"[{name}] delta exits {rc}: panicked at {site}: {msg}", replay)
        return
    if name in ("json-span-out-of-range", "line-number-zero", "line-number-not-canonical"):
        # no promise about what is shown for malformed input, only that it is shown at all
        if len(shown_rows(rows)) != len([h for h in st["hits"] if h]):
            rep.violation("rows:count:" + name, f"[{name}] hit not rendered", replay)
        return
    want = expected_rows(st, 8)
    got = shown_rows(rows)
    if len(got) != len(want):
        rep.violation("rows:count:" + name, f"[{name}] {len(want)} hits but {len(got)} code rows: {got}", dict(replay, want=want, got=got))
        return
    for g, w in zip(got, want):
        if g[0] != w[0]:
            rep.violation("rows:path:" + name, f"[{name}] shown under {g[0]!r}, expected {w[0]!r}", dict(replay, want=want, got=got))
            return
        if g[1] != w[1]:
            rep.violation("rows:number:" + name, f"[{name}] number {g[1]!r}, expected {w[1]!r}", dict(replay, want=want, got=got))
            return
        if not (g[2] == w[2] or g[2] == w[2] + " "):
            rep.violation("rows:code:" + name, f"[{name}] code {g[2]!r}, expected {w[2]!r}", dict(replay, want=want, got=got))
            return


def replay(ctx, rep, obj):
    case = obj.get("case", obj)
    kind = case.get("kind")
    if kind == "stream":
        import base64
        data = base64.b64decode(case["stdin_b64"])
        rc, out, err = ctx.run_delta(case["args"], data, env={"DELTA_VERIF_FORCE_GUESS": case["guess"]})
        out, err = out.decode("utf-8", "replace"), err.decode("utf-8", "replace")
        st = dict(flavour=case["flavour"], guess=case["guess"], wflag=case.get("wflag", False), variant=case.get("variant", "base"), mll=case.get("mll"), json_class=case.get("json_class"), lines=data.decode("utf-8", "replace").split("\n")[:-1],
                  hits=[h and dict(h, subs=None if h.get("subs") is None else [tuple(s) for s in h["subs"]]) for h in case["hits"]])
        rows = decode_rows(out, case["style"]) if rc == 0 else []
        rep.case(key=("replay", case["stdin_b64"]), nontrivial=True, sample=dict(op="replay", rc=rc, rows=[list(r) for r in rows[:8]], stderr=err[-300:]))
        if case.get("probe"):
            judge_probe(rep, case["probe"], st, case["style"], rc, out, err, rows, case)
        else:
            judge_stream(rep, st, case["style"], case["tabw"], rc, out, err, rows, case)
    elif kind == "line":
        got = ctx.hook(extra_env={"DELTA_VERIF_HOOK_CALLER": case["caller"]}).ask([f"{case['op']} {hx(case['line'])}"])[0]
        g = parse_resp(got)
        rep.case(key=("replay", case["line"]), nontrivial=True, sample=dict(op=case["op"], line=case["line"], impl=got))
        if case["want"].get("subs") is not None:
            case["want"]["subs"] = [tuple(x) for x in case["want"]["subs"]]
        if g != case["want"]:
            rep.violation(obj.get("signature", "misparse:replay"), f"{case['line']!r} -> {g}, expected {case['want']}", case)
    elif kind == "hook":
        got = ctx.hook().ask(case["reqs"])
        rep.case(key=("replay", tuple(case["reqs"])), nontrivial=True, sample=dict(reqs=case["reqs"], impl=got))
        if any(g.startswith("PANIC") or g.startswith("DIED") for g in got):
            rep.violation(obj.get("signature", "panic:replay"), f"{got}", case)
    else:
        run(ctx, rep)
