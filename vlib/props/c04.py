"""C04 — text that is not diff/blame/grep output passes through byte for byte."""
from .. import machine as M
from ..core import hx, unhx

DRIVERS = ["drv_machine", "drv_text", "drv_ansi"]
GENERATED = ["Handlers", "Markers", "Ingest", "VteTable", "AnsiSgr", "RawLine"]

WORDS = ["On", "branch", "main", "Your", "is", "up", "to", "date", "with", "origin/main.", "nothing", "commit,", "working",
         "tree", "clean", "Merge:", "Author:", "Date:", "Signed-off-by:", "日本語", "ünï", "émoji😀", "x=1;", "a\tb", "\ttabbed",
         "  indented", "--", "-", "+", "++", "@", "#", "/* c */", "100%", "|", "||", "1 file changed,", "insertion(+)",
         "\x1b[31mred\x1b[m", "\x1b[1;32mbold-green\x1b[0m", "\x1b[38;5;208mpal\x1b[39m", "\x1b[38;2;1;2;3mrgb\x1b[0m", "\x1b[7m", "\x1b[m"]

OPENER_PREFIXES = ["commit ", "diff ", "--- ", "+++ ", "@@", "rename from ", "rename to ", "copy from ", "copy to ", "old mode ",
                   "new mode ", "deleted file mode ", "new file mode ", "Binary files ", "Only in ", "Submodule ", "{"]


def gen_text_line(rng):
    n = rng.randint(0, 8)
    s = " ".join(rng.choice(WORDS) for _ in range(n))
    if rng.random() < 0.15:
        s = "    " + s          # commit message body
    if rng.random() < 0.05:
        s = s + "\r"
    while any(M.strip_ansi(s.encode()).decode("utf-8", "replace").startswith(p) for p in OPENER_PREFIXES):
        s = "." + s
    return s


def run(ctx, rep):
    rep.rule = ("text streams free of construct-opening markers (words incl. tabs, Unicode, SGR colour sequences, CR), alone and "
                "before / between / after git diff sections, x random configurations; non-trivial = >= 3 text lines of which one "
                "carries an escape sequence or a tab; distinct by (config, input)")
    rng = ctx.rng
    # 1. the tab primitive (model: Text.expand)
    reqs, tcases = [], []
    for _ in range(ctx.n(200, 3000)):
        w, s = rng.randint(0, 8), gen_text_line(rng)
        reqs.append(f"text.expand {w} {hx(s)}"); tcases.append((w, s))
    impl = ctx.hook().ask(reqs)
    mdl = ctx.model("drv_text")
    model = mdl.ask(reqs) if (mdl and ctx.drivers_ok) else [None] * len(reqs)
    for (w, s), i, m in zip(tcases, impl, model):
        if m is not None:
            rep.corr_case("text.expand", i == m, dict(width=w, line=s, impl=i, model=m))
        if i.startswith("ok ") and (w == 0 or "\t" not in s) and unhx(i[3:]) != s.encode():
            rep.violation("expand-changes-tabless-line", "tab expansion altered a line without tabs", dict(op="text.expand", width=w, line=s, got=i))
    # 2. streams through the state machine
    cases, meta = [], []
    for _ in range(ctx.n(250, 5000)):
        cfg = M.gen_cfg(rng)
        shape = rng.choice(["alone", "before", "around", "after-hunks", "after-hunkless", "log"])
        text = lambda k: [gen_text_line(rng) for _ in range(rng.randint(1, k))]
        lines, expect = [], []   # expect[i] = True if line i must pass through unchanged
        def add_text(ls, must=True):
            for l in ls:
                if must == "after-hunk" and M.strip_ansi(l.encode("utf-8", "surrogateescape"))[:1] in (b" ", b"+", b"-"):
                    l = "." + l      # otherwise it simply is another line of the hunk
                lines.append(l); expect.append(must)
        def add_diff(ls):
            for l in ls:
                lines.append(l); expect.append(False)
        if shape == "alone":
            add_text(text(12))
        elif shape == "before":
            add_text(text(6)); add_diff(M.gen_git_diff(rng, with_commit=False)[0])
        elif shape == "around":
            add_text(text(4)); add_diff(M.gen_file(rng, kind="modified")["lines"]); add_text(text(4), must="after-hunk")
        elif shape == "after-hunks":
            add_diff(M.gen_file(rng, kind=rng.choice(["modified", "added", "deleted"]))["lines"]); add_text(text(5), must="after-hunk")
        elif shape == "after-hunkless":
            add_diff(M.gen_file(rng, kind=rng.choice(["renamed", "copied", "mode_only", "binary", "empty_added"]))["lines"])
            add_text(text(5), must="after-hunkless")
        else:
            for _ in range(rng.randint(1, 3)):
                add_diff(M.gen_commit(rng)[:1]); add_text(["Author: A <a@b.c>", "Date:   Mon Jan 1 2024", ""]); add_text(["    " + gen_text_line(rng)]); add_text([""])
                add_diff(M.gen_file(rng, kind="modified")["lines"])
        cases.append((cfg, [l.encode("utf-8", "surrogateescape") for l in lines]))
        meta.append((cfg, lines, expect, shape))
    res = M.observe(ctx, cases)
    for (cfg, lines, expect, shape), (impl, model) in zip(meta, res):
        case = dict(args=cfg.args(), model_cfg=cfg.d, input="\n".join(lines), shape=shape)
        ntext = sum(1 for e in expect if e)
        rep.case(key=(cfg.key(), tuple(lines)), nontrivial=ntext >= 3 and any(("\x1b" in l or "\t" in l) for l, e in zip(lines, expect) if e),
                 sample=dict(shape=shape, n_lines=len(lines), head=lines[:4]))
        rep.count("shape:" + shape)
        if impl.panic:
            rep.violation("panic:" + impl.msg[:60], impl.msg[:200], case); continue
        if not impl.ok:
            continue
        dis = M.compare(cfg, impl, model)
        rep.corr_case("machine.run", not dis, dict(case, disagreement=dis[:2]))
        # direct oracle: the bytes written while line k was consumed are exactly the line (+ newline), for every text line
        prev = 0
        for k, (o, must) in enumerate(zip(impl.obs[:-1], expect)):
            chunk = impl.out[prev:o["written"]]
            prev = o["written"]
            if not must:
                continue
            want = lines[k].encode("utf-8", "surrogateescape")
            if want.endswith(b"\r"):
                want = want[:-1]                      # permitted: CRLF normalisation
            # what was written for this line = the tail of the chunk (buffered rows of earlier lines may precede it)
            if chunk.endswith(want + b"\n") and (len(chunk) == len(want) + 1 or chunk[-len(want) - 2:-len(want) - 1] == b"\n"):
                continue
            if must == "after-hunk":
                sig = "text-after-hunk-tabs-expanded" if b"\t" in want else "text-after-hunk-altered"
            elif must == "after-hunkless":
                sig = "text-after-hunkless-section-swallowed"
            else:
                sig = "passthrough-altered:" + shape
            rep.violation(sig, f"line {k} {lines[k]!r} was not passed through unchanged (written: {chunk[-120:]!r})", dict(case, line=k))
    # 2b. the real binary with --relative-paths (GIT_PREFIX set): the diff-stat handler, which the machine model leaves out
    #     (relative paths are off there), rewrites ` path | n ++--` lines; only lines that begin with a blank, met before the
    #     first diff, are diff-stat lines -- anything else that merely contains such text must pass through unchanged
    STAT_LIKE = ["Reviewed-by: tool src/main.rs | 14 checks", "see sub/a.txt | 3 +++ for details", "x | 1", "| 2 +-",
                 "Tested: lib/x.py | 200 ok", "notes.md | Bin 0 -> 12 bytes", "=> sub/dir/f.c | 7 ++++---"]
    jobs = []
    for _ in range(ctx.n(40, 600)):
        lines, must = [], []
        def put(l, m):
            lines.append(l); must.append(m)
        for _c in range(rng.randint(1, 2)):
            if _c or rng.random() < 0.8:             # text after a diff section only behind a commit line (known finding otherwise)
                put("commit " + M.HASH, False); put("Author: A U Thor <a@example.com>", True); put("Date:   Mon Jan 1 00:00:00 2024 +0000", True)
                put("", True)
            for _k in range(rng.randint(1, 5)):
                t = rng.choice(STAT_LIKE) if rng.random() < 0.6 else gen_text_line(rng)
                if rng.random() < 0.3:
                    t = "    " + t                      # a genuine candidate for a diff-stat line: not required to pass through
                put(t, not t.startswith(" "))
            if rng.random() < 0.5:
                for l in M.gen_file(rng, kind="modified")["lines"]:
                    put(l, False)
        jobs.append((lines, must, rng.choice(["sub/", "sub/dir/", "a b/"])))
    from ..core import parallel_map, b64
    def one(j):
        lines, must, prefix = j
        return ctx.run_delta(["--no-gitconfig", "--relative-paths"], ("\n".join(lines) + "\n").encode("utf-8", "surrogateescape"),
                             env={"GIT_PREFIX": prefix})
    for (lines, must, prefix), (rc, out, err) in zip(jobs, parallel_map(one, jobs)):
        data = ("\n".join(lines) + "\n").encode("utf-8", "surrogateescape")
        case = dict(kind="relative-paths", args=["--no-gitconfig", "--relative-paths"], env={"GIT_PREFIX": prefix}, input_b64=b64(data))
        rep.case(key=("relpaths", prefix, tuple(lines)), nontrivial=sum(must) >= 2, sample=dict(shape="relative-paths", head=lines[:4]))
        rep.count("shape:relative-paths")
        if rc != 0:
            rep.violation(f"exit:{rc}", f"delta --relative-paths exited {rc}: {err[-200:]!r}", case); continue
        olines = set(out.split(b"\n"))
        for l, m in zip(lines, must):
            want = l.encode("utf-8", "surrogateescape")
            if want.endswith(b"\r"):
                want = want[:-1]
            if m and want not in olines:
                rep.violation("passthrough-altered:relative-paths", f"line {l!r} was not passed through unchanged with --relative-paths", case)
                break
    # 2c. the real binary in every presentation mode on pure text streams (no construct at all): the output is the input,
    #     whatever the geometry; only lines beyond --max-line-length may be cut
    PMODES = [[], ["--side-by-side"], ["--side-by-side", "--wrap-max-lines", "0"], ["--side-by-side", "--wrap-max-lines", "unlimited"],
              ["--side-by-side", "--width", "40"], ["--side-by-side", "--wrap-max-lines", "0", "--width", "80", "--max-line-length", "3000"],
              ["--line-numbers"], ["--navigate"], ["--hyperlinks"], ["--width", "20"], ["--max-line-length", "0"],
              ["--side-by-side", "--max-line-length", "0"], ["--diff-so-fancy"], ["--color-only"], ["--raw"], ["--width", "variable"],
              ["--side-by-side", "--line-fill-method", "spaces"], ["--tabs", "4"], ["--keep-plus-minus-markers"],
              # a commit link target configured: hash-like words of a passed-through line are linked only on a terminal
              ["--hyperlinks", "--hyperlinks-commit-link-format", "https://example.com/c/{commit}"],
              ["--hyperlinks", "--hyperlinks-commit-link-format", "https://example.com/c/{commit}", "--side-by-side"]]
    HASHY = ["Merge: 1a2b3c4 5d6e7f8", "Revert \"x\" (deadbeef12)", "see 0123456789abcdef0123456789abcdef01234567 for details",
             "\x1b[33mcherry picked from commit abcdef1234567\x1b[m", "    fixup! 9fceb02 typo"]
    pjobs = []
    for _ in range(ctx.n(25, 400)):
        tl = []
        for _k in range(rng.randint(3, 10)):
            t = gen_text_line(rng)
            if rng.random() < 0.3:
                t = t + " " + " ".join(rng.choice(WORDS) for _ in range(rng.randint(15, 40)))     # 100-300 columns
            tl.append(t)
        if rng.random() < 0.5:
            tl.insert(rng.randrange(len(tl) + 1), rng.choice(HASHY))
        for mode in ([rng.choice(PMODES) for _ in range(4)] + [PMODES[-2]] if ctx.quick() else PMODES):
            pjobs.append((["--no-gitconfig"] + mode, tl))
    def pone(j):
        args, tl = j
        return ctx.run_delta(args, ("\n".join(tl) + "\n").encode("utf-8", "surrogateescape"))
    for (args, tl), (rc, out, err) in zip(pjobs, parallel_map(pone, pjobs)):
        data = ("\n".join(tl) + "\n").encode("utf-8", "surrogateescape")
        case = dict(kind="relative-paths", args=args, env={}, input_b64=b64(data))
        rep.case(key=("pmode", tuple(args), tuple(tl)), nontrivial=any(len(t) > 100 for t in tl), sample=dict(shape="text-in-mode", args=args))
        rep.count("shape:text-in-mode")
        if rc != 0:
            rep.violation(f"exit:{rc}", f"delta {' '.join(args)} exited {rc}: {err[-200:]!r}", case); continue
        want = [t.encode("utf-8", "surrogateescape") for t in tl]
        want = [w[:-1] if w.endswith(b"\r") else w for w in want]
        got = out.split(b"\n")[:-1]
        if got != want:
            k = next((k for k, (a, b) in enumerate(zip(got, want)) if a != b), min(len(got), len(want)))
            rep.violation("passthrough-altered:" + (args[1] if len(args) > 1 else "default"),
                          f"delta {' '.join(args)}: line {k} {want[k][:60] if k < len(want) else None!r} came out as {got[k][:80] if k < len(got) else None!r}", case)
    # 3. ingest_line: model DeltaModel/Ingest.lean, hook machine.ingest, binary pass-through (b-ansi, vlib/ingest.py)
    from .. import ingest
    ingest.ingest_check(ctx, rep)


def replay(ctx, rep, obj):
    c = obj["case"]
    if c.get("kind") == "relative-paths":
        import base64
        rc, out, err = ctx.run_delta(c["args"], base64.b64decode(c["input_b64"]), env=c["env"])
        print(out.decode("utf-8", "replace")); return
    if str(c.get("kind", "")).startswith("ingest-"):
        from .. import ingest
        return ingest.ingest_replay(ctx, rep, c)
    cfg = M.VCfg(**c["model_cfg"])
    lines = c["input"].split("\n")
    impl, model = M.observe(ctx, [(cfg, [l.encode("utf-8", "surrogateescape") for l in lines])])[0]
    print(impl.out.decode("utf-8", "replace"))
