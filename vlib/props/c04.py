"""C04 — pass-through. (first instalment: tabs primitive correspondence)"""
from ..core import hx, unhx

DRIVERS = ["drv_text"]

def gen_line(rng):
    alphabet = ["a", "b", " ", "\t", "é", "日", "+", "-", "\x1b[31m", "\x1b[m", "x"]
    return "".join(rng.choice(alphabet) for _ in range(rng.randint(0, 12)))

def run(ctx, rep):
    rep.rule = "random short lines over an alphabet with tabs, wide chars and SGR; non-trivial = contains a TAB; distinct by (width,line)"
    reqs, cases = [], []
    for _ in range(ctx.n(300, 5000)):
        w, s = ctx.rng.randint(0, 8), gen_line(ctx.rng)
        reqs.append(f"text.expand {w} {hx(s)}")
        cases.append((w, s))
    impl = ctx.hook().ask(reqs)
    mdl = ctx.model("drv_text")
    model = mdl.ask(reqs) if (mdl and ctx.drivers_ok) else [None] * len(reqs)
    for (w, s), i, m in zip(cases, impl, model):
        rep.case(key=(w, s), nontrivial="\t" in s, sample=dict(op="text.expand", width=w, line=s, impl=i))
        if m is not None:
            rep.corr_case("text.expand", i == m, dict(width=w, line=s, impl=i, model=m))
        # direct oracle: a line without TAB (or width 0) is unchanged
        if i.startswith("ok ") and (w == 0 or "\t" not in s) and unhx(i[3:]) != s.encode():
            rep.violation("expand-changes-tabless-line", "tab expansion altered a line without tabs",
                          dict(op="text.expand", width=w, line=s, got=i))

def replay(ctx, rep, obj):
    run(ctx, rep)
