"""C04 — text that is not diff/blame/grep output passes through byte for byte."""
from .. import machine as M
from ..core import hx, unhx

DRIVERS = ["drv_machine", "drv_text", "drv_ansi"]
GENERATED = ["Handlers", "Markers", "Ingest", "VteTable", "AnsiSgr", "RawLine", "ClaimGates"]

WORDS = ["On", "branch", "main", "Your", "is", "up", "to", "date", "with", "origin/main.", "nothing", "commit,", "working",
         "tree", "clean", "Merge:", "Author:", "Date:", "Signed-off-by:", "日本語", "ünï", "émoji😀", "x=1;", "a\tb", "\ttabbed",
         "  indented", "--", "-", "+", "++", "@", "#", "/* c */", "100%", "|", "||", "1 file changed,", "insertion(+)",
         "\x1b[31mred\x1b[m", "\x1b[1;32mbold-green\x1b[0m", "\x1b[38;5;208mpal\x1b[39m", "\x1b[38;2;1;2;3mrgb\x1b[0m", "\x1b[7m", "\x1b[m"]

OPENER_PREFIXES = ["commit ", "diff ", "--- ", "+++ ", "@@", "rename from ", "rename to ", "copy from ", "copy to ", "old mode ",
                   "new mode ", "deleted file mode ", "new file mode ", "Binary files ", "Only in ", "Submodule ", "{"]


# text that LOOKS like grep output (`path:line:code`, `path-line-context`, `path=line=header`, `key: value`, `a-b=c`, the
# coloured form git grep / rg print) or almost like a `git blame` line, but is neither: delta was not started by a grep tool
# and BLAME_RE (below, the pattern of src/handlers/blame.rs) does not match. Plain text as far as C04 is concerned.
GREPLIKE = ["src/main.rs:12:fn main() {", "path/file.rs:12:code", "a-b=c", "key: value", "src/x.py-34-context", "lib.c=77=int f(void)",
            "Makefile:all: build", "README.md-", "ratio=0.75 done", "step 3 - done", "warning: unused variable - `x`",
            "\x1b[35msrc/a.rs\x1b[m\x1b[36m:\x1b[m\x1b[32m3\x1b[m\x1b[36m:\x1b[mlet x = 1;",
            "\x1b[35msrc/a.rs\x1b[m\x1b[36m-\x1b[m\x1b[32m4\x1b[m\x1b[36m-\x1b[m    context",
            "Changes not staged for commit:", "\t\x1b[31mmodified:   src/delta.rs\x1b[m", "9a8b7c6 build: bump version=0.18.3",
            "\x1b[33m1a2b3c4\x1b[m fix: handle empty input", "Author: A U Thor <a@example.com>", "Date:   Mon Sep 28 10:00:00 2026 +0200",
            "https://example.com/x?y=1", "12:34:56 INFO started", "foo.txt", "x.rs:1:", "a b.txt:3:with space", "dir/f.tar.gz:10:x",
            "error[E0308]: mismatched types", "  --> src/lib.rs:4:5", "Compiling delta v0.18.2", "a=b", "n-1", ":", "-", "=",
            "1a2b3c4d (A U Thor 2021-06-09 23:33:59 +0900 13 no closing paren", "1a2b3c4d (A U Thor 2021-06-09 23:33 +0900 13) short time",
            "zzzz1234 (A U Thor 2021-06-09 23:33:59 +0900 13) not a hash", "1a2b3c4d A U Thor 2021-06-09 23:33:59 +0900 13) no open paren"]

import re as _re
BLAME_RE = _re.compile(r"^(\^?[0-9a-f]{4,40})(?: [^(]+)? \(([^ ](?:.*?[^ ])??) +([0-9]{4}-[0-9]{2}-[0-9]{2} [0-9]{2}:[0-9]{2}:[0-9]{2} [-+][0-9]{4}) +([0-9]+)\)(.*)$")


def gen_text_line(rng):
    n = rng.randint(0, 8)
    s = " ".join(rng.choice(WORDS) for _ in range(n))
    if rng.random() < 0.25:
        s = rng.choice(GREPLIKE) + (" " + s if s and rng.random() < 0.3 else "")
    if rng.random() < 0.15:
        s = "    " + s          # commit message body
    if rng.random() < 0.05:
        s = s + "\r"
    while any(M.strip_ansi(s.encode()).decode("utf-8", "replace").startswith(p) for p in OPENER_PREFIXES) \
            or BLAME_RE.match(M.strip_ansi(s.encode()).decode("utf-8", "replace")):
        s = "." + s
    return s


# options that only matter to the handlers which are not keyed on a literal marker (grep, blame, git show <rev>:<file>,
# diff-stat): whatever their values, text that is not grep / blame output must not be touched by them
HANDLER_OPTS = [["--grep-output-type", "classic"], ["--grep-output-type", "ripgrep"], ["--grep-file-style", "red"],
                ["--grep-line-number-style", "bold green"], ["--grep-match-line-style", "blue"], ["--grep-match-word-style", "bold yellow"],
                ["--grep-context-line-style", "raw"], ["--grep-header-decoration-style", "blue box"], ["--grep-header-file-style", "magenta"],
                ["--grep-separator-symbol", "keep"], ["--blame-format", "{commit:<8} {author:<12}"], ["--blame-palette", "#101010 #202020"],
                ["--blame-code-style", "syntax"], ["--blame-separator-format", "|{n:^5}|"], ["--blame-separator-style", "red"],
                ["--blame-timestamp-format", "%Y-%m-%d"], ["--blame-timestamp-output-format", "%Y"], ["--default-language", "rs"],
                ["--default-language", "no-such-language"], ["--diff-stat-align-width", "10"]]
# calling processes that are neither a grep tool nor `git show <rev>:<file>` (value of DELTA_VERIF_FORCE_GUESS / _HOOK_CALLER)
TEXT_CALLERS = ["none", "git diff", "git log -p", "git show HEAD", "git reflog", "git status", "git blame f.rs", "cargo build"]


def handler_opts(rng, k=None):
    """1-3 options of the family, no option twice; as `--opt=value` words"""
    chosen, seen = [], set()
    for o in rng.sample(HANDLER_OPTS, k or rng.choice([1, 1, 2, 3])):
        if o[0] not in seen:
            seen.add(o[0]); chosen.append(o)
    return chosen


class XCfg(M.VCfg):
    """a verification configuration plus extra command-line words (handler options)"""

    def __init__(self, extra=(), **kw):
        super().__init__(**kw)
        self.extra = list(extra)

    def key(self):
        return super().key() + (tuple(self.extra),)

    def args(self):
        return super().args() + self.extra


def run(ctx, rep):
    rep.rule = ("text streams free of construct-opening markers (words incl. tabs, Unicode, SGR colour sequences, CR), alone and "
                "before / between / after git diff sections, x random configurations; non-trivial = >= 3 text lines of which one "
                "carries an escape sequence or a tab; distinct by (config, input)")
    rng = ctx.rng
    # 1. the tab primitive (model: Text.expand)
    reqs, tcases = [], []
    for _ in range(ctx.n(200, 3000)):
        w, s = rng.randint(0, 8), gen_text_line(rng)
        reqs.append(f"text.expand {w} {hx(s)}"); tcases.append((w, s))
    impl = ctx.hook().ask(reqs)
    mdl = ctx.model("drv_text")
    model = mdl.ask(reqs) if (mdl and ctx.drivers_ok) else [None] * len(reqs)
    for (w, s), i, m in zip(tcases, impl, model):
        if m is not None:
            rep.corr_case("text.expand", i == m, dict(width=w, line=s, impl=i, model=m))
        if i.startswith("ok ") and (w == 0 or "\t" not in s) and unhx(i[3:]) != s.encode():
            rep.violation("expand-changes-tabless-line", "tab expansion altered a line without tabs", dict(op="text.expand", width=w, line=s, got=i))
    # 2. streams through the state machine
    cases, meta = [], []
    for _ in range(ctx.n(250, 5000)):
        cfg = M.gen_cfg(rng)
        if rng.random() < 0.4:
            cfg = XCfg([o[0] + "=" + o[1] for o in handler_opts(rng)], **cfg.d)
        shape = rng.choice(["alone", "before", "around", "after-hunks", "after-hunkless", "log"])
        text = lambda k: [gen_text_line(rng) for _ in range(rng.randint(1, k))]
        lines, expect = [], []   # expect[i] = True if line i must pass through unchanged
        def add_text(ls, must=True):
            for l in ls:
                if must == "after-hunk" and M.strip_ansi(l.encode("utf-8", "surrogateescape"))[:1] in (b" ", b"+", b"-"):
                    l = "." + l      # otherwise it simply is another line of the hunk
                lines.append(l); expect.append(must)
        def add_diff(ls):
            for l in ls:
                lines.append(l); expect.append(False)
        if shape == "alone":
            add_text(text(12))
        elif shape == "before":
            add_text(text(6)); add_diff(M.gen_git_diff(rng, with_commit=False)[0])
        elif shape == "around":
            add_text(text(4)); add_diff(M.gen_file(rng, kind="modified")["lines"]); add_text(text(4), must="after-hunk")
        elif shape == "after-hunks":
            add_diff(M.gen_file(rng, kind=rng.choice(["modified", "added", "deleted"]))["lines"]); add_text(text(5), must="after-hunk")
        elif shape == "after-hunkless":
            add_diff(M.gen_file(rng, kind=rng.choice(["renamed", "copied", "mode_only", "binary", "empty_added"]))["lines"])
            add_text(text(5), must="after-hunkless")
        else:
            for _ in range(rng.randint(1, 3)):
                add_diff(M.gen_commit(rng)[:1]); add_text(["Author: A <a@b.c>", "Date:   Mon Jan 1 2024", ""]); add_text(["    " + gen_text_line(rng)]); add_text([""])
                add_diff(M.gen_file(rng, kind="modified")["lines"])
        cases.append((cfg, [l.encode("utf-8", "surrogateescape") for l in lines]))
        meta.append((cfg, lines, expect, shape))
    res = M.observe(ctx, cases)
    for (cfg, lines, expect, shape), (impl, model) in zip(meta, res):
        extra = getattr(cfg, "extra", [])
        case = dict(args=cfg.args(), model_cfg=cfg.d, extra_args=extra, input="\n".join(lines), shape=shape)
        ntext = sum(1 for e in expect if e)
        rep.case(key=(cfg.key(), tuple(lines)), nontrivial=ntext >= 3 and any(("\x1b" in l or "\t" in l) for l, e in zip(lines, expect) if e),
                 sample=dict(shape=shape, n_lines=len(lines), head=lines[:4]))
        rep.count("shape:" + shape)
        if impl.panic:
            rep.violation("panic:" + impl.msg[:60], impl.msg[:200], case); continue
        if not impl.ok:
            continue
        dis = M.compare(cfg, impl, model)
        rep.corr_case("machine.run", not dis, dict(case, disagreement=dis[:2]))
        # direct oracle: the bytes written while line k was consumed are exactly the line (+ newline), for every text line
        prev = 0
        for k, (o, must) in enumerate(zip(impl.obs[:-1], expect)):
            chunk = impl.out[prev:o["written"]]
            prev = o["written"]
            if not must:
                continue
            want = lines[k].encode("utf-8", "surrogateescape")
            if want.endswith(b"\r"):
                want = want[:-1]                      # permitted: CRLF normalisation
            # what was written for this line = the tail of the chunk (buffered rows of earlier lines may precede it)
            if chunk.endswith(want + b"\n") and (len(chunk) == len(want) + 1 or chunk[-len(want) - 2:-len(want) - 1] == b"\n"):
                continue
            if must == "after-hunk":
                sig = "text-after-hunk-tabs-expanded" if b"\t" in want else "text-after-hunk-altered"
            elif must == "after-hunkless":
                sig = "text-after-hunkless-section-swallowed"
            else:
                sig = "passthrough-altered:" + shape
                if extra:
                    # which of the handler options does it? (re-run with each of them alone)
                    def still_fails(e):
                        im, _ = M.observe(ctx, [(XCfg([e], **cfg.d), [l.encode("utf-8", "surrogateescape") for l in lines])], model=False)[0]
                        if not im.ok or len(im.obs) <= k + 1:
                            return False
                        ch = im.out[(im.obs[k - 1]["written"] if k else 0):im.obs[k]["written"]]
                        return not ch.endswith(want + b"\n")
                    def without_fails():
                        im, _ = M.observe(ctx, [(M.VCfg(**cfg.d), [l.encode("utf-8", "surrogateescape") for l in lines])], model=False)[0]
                        if not im.ok or len(im.obs) <= k + 1:
                            return False
                        return not im.out[(im.obs[k - 1]["written"] if k else 0):im.obs[k]["written"]].endswith(want + b"\n")
                    if not without_fails():
                        bad = [e.split("=")[0] for e in extra if still_fails(e)]
                        sig += ":handler-option:" + (bad[0] if bad else "+".join(sorted(e.split("=")[0] for e in extra)))
            rep.violation(sig, f"line {k} {lines[k]!r} was not passed through unchanged (written: {chunk[-120:]!r})", dict(case, line=k))
    # 2b. the real binary with --relative-paths (GIT_PREFIX set): the diff-stat handler, which the machine model leaves out
    #     (relative paths are off there), rewrites ` path | n ++--` lines; only lines that begin with a blank, met before the
    #     first diff, are diff-stat lines -- anything else that merely contains such text must pass through unchanged
    STAT_LIKE = ["Reviewed-by: tool src/main.rs | 14 checks", "see sub/a.txt | 3 +++ for details", "x | 1", "| 2 +-",
                 "Tested: lib/x.py | 200 ok", "notes.md | Bin 0 -> 12 bytes", "=> sub/dir/f.c | 7 ++++---"]
    jobs = []
    for _ in range(ctx.n(40, 600)):
        lines, must = [], []
        def put(l, m):
            lines.append(l); must.append(m)
        for _c in range(rng.randint(1, 2)):
            if _c or rng.random() < 0.8:             # text after a diff section only behind a commit line (known finding otherwise)
                put("commit " + M.HASH, False); put("Author: A U Thor <a@example.com>", True); put("Date:   Mon Jan 1 00:00:00 2024 +0000", True)
                put("", True)
            for _k in range(rng.randint(1, 5)):
                t = rng.choice(STAT_LIKE) if rng.random() < 0.6 else gen_text_line(rng)
                if rng.random() < 0.3:
                    t = "    " + t                      # a genuine candidate for a diff-stat line: not required to pass through
                put(t, not t.startswith(" "))
            if rng.random() < 0.5:
                for l in M.gen_file(rng, kind="modified")["lines"]:
                    put(l, False)
        jobs.append((lines, must, rng.choice(["sub/", "sub/dir/", "a b/"])))
    from ..core import parallel_map, b64
    def one(j):
        lines, must, prefix = j
        return ctx.run_delta(["--no-gitconfig", "--relative-paths"], ("\n".join(lines) + "\n").encode("utf-8", "surrogateescape"),
                             env={"GIT_PREFIX": prefix})
    for (lines, must, prefix), (rc, out, err) in zip(jobs, parallel_map(one, jobs)):
        data = ("\n".join(lines) + "\n").encode("utf-8", "surrogateescape")
        case = dict(kind="relative-paths", args=["--no-gitconfig", "--relative-paths"], env={"GIT_PREFIX": prefix}, input_b64=b64(data))
        rep.case(key=("relpaths", prefix, tuple(lines)), nontrivial=sum(must) >= 2, sample=dict(shape="relative-paths", head=lines[:4]))
        rep.count("shape:relative-paths")
        if rc != 0:
            rep.violation(f"exit:{rc}", f"delta --relative-paths exited {rc}: {err[-200:]!r}", case); continue
        olines = set(out.split(b"\n"))
        for l, m in zip(lines, must):
            want = l.encode("utf-8", "surrogateescape")
            if want.endswith(b"\r"):
                want = want[:-1]
            if m and want not in olines:
                rep.violation("passthrough-altered:relative-paths", f"line {l!r} was not passed through unchanged with --relative-paths", case)
                break
    # 2c. the real binary in every presentation mode on pure text streams (no construct at all): the output is the input,
    #     whatever the geometry; only lines beyond --max-line-length may be cut
    PMODES = [[], ["--side-by-side"], ["--side-by-side", "--wrap-max-lines", "0"], ["--side-by-side", "--wrap-max-lines", "unlimited"],
              ["--side-by-side", "--width", "40"], ["--side-by-side", "--wrap-max-lines", "0", "--width", "80", "--max-line-length", "3000"],
              ["--line-numbers"], ["--navigate"], ["--hyperlinks"], ["--width", "20"], ["--max-line-length", "0"],
              ["--side-by-side", "--max-line-length", "0"], ["--diff-so-fancy"], ["--color-only"], ["--raw"], ["--width", "variable"],
              ["--side-by-side", "--line-fill-method", "spaces"], ["--tabs", "4"], ["--keep-plus-minus-markers"],
              # a commit link target configured: hash-like words of a passed-through line are linked only on a terminal
              ["--hyperlinks", "--hyperlinks-commit-link-format", "https://example.com/c/{commit}"],
              ["--hyperlinks", "--hyperlinks-commit-link-format", "https://example.com/c/{commit}", "--side-by-side"]]
    HASHY = ["Merge: 1a2b3c4 5d6e7f8", "Revert \"x\" (deadbeef12)", "see 0123456789abcdef0123456789abcdef01234567 for details",
             "\x1b[33mcherry picked from commit abcdef1234567\x1b[m", "    fixup! 9fceb02 typo"]
    pjobs = []
    for _ in range(ctx.n(25, 400)):
        tl = []
        for _k in range(rng.randint(3, 10)):
            t = gen_text_line(rng)
            if rng.random() < 0.3:
                t = t + " " + " ".join(rng.choice(WORDS) for _ in range(rng.randint(15, 40)))     # 100-300 columns
            tl.append(t)
        if rng.random() < 0.5:
            tl.insert(rng.randrange(len(tl) + 1), rng.choice(HASHY))
        for mode in ([rng.choice(PMODES) for _ in range(4)] + [PMODES[-2]] if ctx.quick() else PMODES):
            pjobs.append((["--no-gitconfig"] + mode, tl))
    def pone(j):
        args, tl = j
        return ctx.run_delta(args, ("\n".join(tl) + "\n").encode("utf-8", "surrogateescape"))
    for (args, tl), (rc, out, err) in zip(pjobs, parallel_map(pone, pjobs)):
        data = ("\n".join(tl) + "\n").encode("utf-8", "surrogateescape")
        case = dict(kind="relative-paths", args=args, env={}, input_b64=b64(data))
        rep.case(key=("pmode", tuple(args), tuple(tl)), nontrivial=any(len(t) > 100 for t in tl), sample=dict(shape="text-in-mode", args=args))
        rep.count("shape:text-in-mode")
        if rc != 0:
            rep.violation(f"exit:{rc}", f"delta {' '.join(args)} exited {rc}: {err[-200:]!r}", case); continue
        want = [t.encode("utf-8", "surrogateescape") for t in tl]
        want = [w[:-1] if w.endswith(b"\r") else w for w in want]
        got = out.split(b"\n")[:-1]
        if got != want:
            k = next((k for k, (a, b) in enumerate(zip(got, want)) if a != b), min(len(got), len(want)))
            rep.violation("passthrough-altered:" + (args[1] if len(args) > 1 else "default"),
                          f"delta {' '.join(args)}: line {k} {want[k][:60] if k < len(want) else None!r} came out as {got[k][:80] if k < len(got) else None!r}", case)
    # 2d. the real binary with options that only the grep / blame / git-show-file / diff-stat handlers read, given on the
    #     command line, in a config file, in ~/.gitconfig, as a custom feature, through GIT_CONFIG_PARAMETERS; delta started by
    #     something that is not a grep tool; text that looks like grep / blame output but is not
    handler_option_oracle(ctx, rep)
    # 2e. claim gates: model (Generated/ClaimGates.lean evaluated by DeltaModel/GatesRun.lean) vs which handler really took
    #     the line (hook machine.run, calling process pinned per hook process)
    gates_check(ctx, rep)
    # 3. ingest_line: model DeltaModel/Ingest.lean, hook machine.ingest, binary pass-through (b-ansi, vlib/ingest.py)
    from .. import ingest
    ingest.ingest_check(ctx, rep)


OPTION_SOURCES = ["cli", "config-file", "home-gitconfig", "feature-flag", "feature-env", "git-config-parameters"]


def materialize(source, opts, tmp, idx):
    """Deliver `opts` ([[--name, value], …]) to delta through one of its option sources. Returns (argv words, env)."""
    import os
    body = "".join(f"    {o[0][2:]} = \"{o[1]}\"\n" for o in opts)
    if source == "cli":
        return ["--no-gitconfig"] + [w for o in opts for w in o], {}
    if source == "config-file":
        path = os.path.join(tmp, f"c{idx}.gitconfig")
        open(path, "w").write("[delta]\n" + body)
        return ["--config", path], {}
    home = os.path.join(tmp, f"home{idx}")
    os.makedirs(home, exist_ok=True)
    if source == "home-gitconfig":
        open(os.path.join(home, ".gitconfig"), "w").write("[delta]\n" + body)
        return [], {"HOME": home}
    if source in ("feature-flag", "feature-env"):
        path = os.path.join(tmp, f"f{idx}.gitconfig")
        open(path, "w").write("[delta \"my-grep-look\"]\n" + body)
        if source == "feature-flag":
            return ["--config", path, "--features", "my-grep-look"], {}
        return ["--config", path], {"DELTA_FEATURES": "+my-grep-look"}
    # an empty home: only `git -c delta.x=y` style parameters
    return [], {"HOME": home, "GIT_CONFIG_PARAMETERS": " ".join("'delta.%s=%s'" % (o[0][2:], o[1]) for o in opts)}


def handler_option_oracle(ctx, rep):
    import os, tempfile
    from ..core import parallel_map, b64, BUILD
    rng = ctx.rng
    os.makedirs(BUILD, exist_ok=True)
    tmp = tempfile.mkdtemp(prefix="c04-opts-", dir=BUILD)
    jobs = []
    for idx in range(ctx.n(70, 900)):
        opts = handler_opts(rng)
        source = rng.choice(OPTION_SOURCES + ["cli"])
        args, env = materialize(source, opts, tmp, idx)
        caller = rng.choice(TEXT_CALLERS)
        env = dict(env, DELTA_VERIF_FORCE_GUESS=caller)
        shape = rng.choice(["text", "text", "log"])
        lines, must = [], []
        def put(l, m):
            lines.append(l); must.append(m)
        def text_block(k):
            for _ in range(rng.randint(2, k)):
                t = rng.choice(GREPLIKE) if rng.random() < 0.6 else gen_text_line(rng)
                while any(M.strip_ansi(t.encode()).decode("utf-8", "replace").startswith(p) for p in OPENER_PREFIXES):
                    t = "." + t
                put(t, True)
        text_block(9)
        if shape == "log":
            for _c in range(rng.randint(1, 2)):
                put("\x1b[33mcommit " + M.HASH + "\x1b[m" if rng.random() < 0.5 else "commit " + M.HASH, False)
                put("Author: A U Thor <a@example.com>", True); put("Date:   Mon Jan 1 00:00:00 2024 +0000", True); put("", True)
                for _k in range(rng.randint(1, 4)):
                    t = rng.choice(GREPLIKE)
                    put("    " + t, True)      # commit message body: begins with blanks (no diff-stat rewriting without --relative-paths)
                put("", True)
                if rng.random() < 0.6:
                    for l in M.gen_file(rng, kind="modified")["lines"]:
                        put(l, False)
        jobs.append((opts, source, args, env, caller, shape, lines, must))
    def problem_of(shape, lines, must, rc, out, err):
        """None if the text lines came through unchanged (pure text: the output IS the input; around rendered sections: every
        text line is found unchanged, in order)"""
        if rc != 0:
            return f"exited {rc}: {err[-200:]!r}"
        want = [l.encode("utf-8", "surrogateescape") for l in lines]
        want = [w[:-1] if w.endswith(b"\r") else w for w in want]
        got = out.split(b"\n")[:-1]
        if shape == "text":
            if got != want:
                k = next((k for k, (a, b) in enumerate(zip(got, want)) if a != b), min(len(got), len(want)))
                return f"line {k} {want[k][:70] if k < len(want) else None!r} came out as {got[k][:90] if k < len(got) else None!r}"
            return None
        pos = 0
        for w, m in zip(want, must):
            if not m:
                continue
            try:
                pos = got.index(w, pos) + 1
            except ValueError:
                return f"text line {w[:70]!r} is not in the output (in order)"
        return None
    def one(j):
        opts, source, args, env, caller, shape, lines, must = j
        return ctx.run_delta(args + ["--paging", "never"], ("\n".join(lines) + "\n").encode("utf-8", "surrogateescape"), env=env)
    for n, ((opts, source, args, env, caller, shape, lines, must), (rc, out, err)) in enumerate(zip(jobs, parallel_map(one, jobs, workers=8))):
        data = ("\n".join(lines) + "\n").encode("utf-8", "surrogateescape")
        case = dict(kind="handler-options", input_b64=b64(data), options=opts, source=source, caller=caller, shape=shape)
        rep.case(key=("hopt", tuple(map(tuple, opts)), source, caller, tuple(lines)), nontrivial=sum(must) >= 3,
                 sample=dict(shape="handler-options:" + shape, options=opts, source=source, caller=caller, head=lines[:3]))
        rep.count("shape:handler-options"); rep.count("handler-options:source:" + source); rep.count("handler-options:caller:" + caller)
        what = problem_of(shape, lines, must, rc, out, err)
        if what is None:
            continue
        # which option does it? (each one alone, same source, same caller)
        bad = []
        r0 = ctx.run_delta(["--no-gitconfig", "--paging", "never"], data, env=dict(DELTA_VERIF_FORCE_GUESS=caller))
        if problem_of(shape, lines, must, *r0) is not None:
            # not a matter of these options at all
            rep.violation("passthrough-altered:text:" + shape, f"delta --no-gitconfig, called by {caller!r}: {problem_of(shape, lines, must, *r0)}",
                          dict(case, options=[], source="cli"))
            continue
        for o in (opts if len(opts) > 1 else []):
            a1, e1 = materialize(source, [o], tmp, f"{n}-{o[0][2:]}")
            r1 = ctx.run_delta(a1 + ["--paging", "never"], data, env=dict(e1, DELTA_VERIF_FORCE_GUESS=caller))
            if problem_of(shape, lines, must, *r1) is not None:
                bad.append(o)
        if len(bad) >= 1:
            case = dict(case, options=[bad[0]])
        name = (bad[0][0] if bad else "+".join(sorted(o[0] for o in opts)))
        sig = ("exit:%s:handler-option:%s" % (rc, name)) if rc != 0 else "passthrough-altered:handler-option:%s:%s" % (name, source)
        rep.violation(sig, f"delta {' '.join(args)} (options {opts} from {source}, delta called by {caller!r}): {what}", case)
    import shutil
    shutil.rmtree(tmp, ignore_errors=True)


# ------------------------------------------------------------------ claim gates: model vs implementation

GATE_CALLERS = [("", "None"), ("git diff", "GitDiff"), ("git log -p", "GitLog"), ("git reflog", "GitReflog"), ("git blame f.rs", "GitBlame"),
                ("git show HEAD:src/x.rs", "GitShow"), ("git grep -n x", "GitGrep"), ("rg x", "OtherGrep")]
GATE_OPTION_FIELDS = {"--grep-output-type": "grep_output_type", "--relative-paths": "relative_paths"}
BLAME_LINES = ["1a2b3c4d (A U Thor 2021-06-09 23:33:59 +0900 13) let x = 1;", "^1a2b3c4 src/old.rs (B 2020-01-01 00:00:00 +0000 1) fn f()",
               "1a2b3c4d (A U Thor 2021-06-09 23:33:59 +0900 13)", "0123456789abcdef (x y 1999-12-31 23:59:59 -0800 99999)     code: a-b=c"]
JSON_LINES = ['{"type":"match","data":{"path":{"text":"src/a.rs"},"lines":{"text":"let x = 1;\\n"},"line_number":3,"absolute_offset":0,'
              '"submatches":[{"match":{"text":"x"},"start":4,"end":5}]}}', '{"type":"begin","data":{"path":{"text":"src/a.rs"}}}', '{"a": 1}', "{"]


def gates_check(ctx, rep, cases=None):
    """For single lines met in state Unknown: which handler took the line (state after the line: Grep / Blame / GitShowFile /
    Unknown) vs what the gate model allows (`may`) and demands (`must`) given the calling process, the options, the prefixes and
    the outcomes of the fixed regexes (asked from the implementation: grep.parse_regex, grep.json; BLAME_RE)."""
    import os, re, subprocess
    from ..core import LEAN, REPO, lake_build, hx as _hx
    rng = ctx.rng
    src = open(os.path.join(REPO, "src/handlers/grep.rs"), encoding="utf-8").read()
    m = re.search(r"pub fn verif_regex\(.*?\n}\n", src, re.S)
    names = re.findall(r"&(GREP_LINE_REGEX_\w+)", m.group(0)) if m else []
    if len(names) != 5:
        rep.corr_case("gates.claim", False, dict(error="verif_regex table of src/handlers/grep.rs not found")); return
    if cases is None:
        cases = []
        for _ in range(ctx.n(160, 2500)):
            r = rng.random()
            line = (rng.choice(GREPLIKE) if r < 0.55 else rng.choice(BLAME_LINES) if r < 0.7 else rng.choice(JSON_LINES) if r < 0.8
                    else gen_text_line(rng))
            opts = handler_opts(rng) if rng.random() < 0.7 else []
            cases.append(dict(caller=rng.randrange(len(GATE_CALLERS)), options=opts, line=line))
    ok, blog = lake_build(["DeltaModel.GatesRun"])
    if not ok:
        rep.corr_case("gates.claim", False, dict(error="DeltaModel.GatesRun does not build", log=blog[-600:])); return
    # implementation: one hook process per calling process
    by_caller = {}
    for i, c in enumerate(cases):
        by_caller.setdefault(c["caller"], []).append(i)
    impl, facts = {}, {}
    for ci, idxs in by_caller.items():
        hook = ctx.hook(extra_env={"DELTA_VERIF_HOOK_CALLER": GATE_CALLERS[ci][0]})
        reqs, sticky = [], []
        for i in idxs:
            c = cases[i]
            cfg = XCfg([o[0] + "=" + o[1] for o in c["options"]])
            sticky.append(len(reqs))
            reqs += M.hook_requests(cfg, [c["line"].encode("utf-8", "surrogateescape")])
        resp = hook.ask(reqs, sticky=sticky)
        q = []
        for k, i in enumerate(idxs):
            impl[i] = M.ImplRun(resp[2 * k + 1])
            if impl[i].ok and impl[i].obs:
                o = impl[i].obs[0]
                q += ["grep.parse_regex 0 " + hx(o["raw"])] + [f"grep.parse_regex {r} " + hx(o["text"]) for r in range(1, 5)] + ["grep.json " + hx(o["text"])]
        ans = hook.ask(q) if q else []
        k = 0
        for i in idxs:
            if impl[i].ok and impl[i].obs:
                facts[i] = [a.startswith("ok some") for a in ans[k:k + 6]]; k += 6
    # model
    HANDLERS = ["handle_git_show_file_line", "handle_blame_line", "handle_grep_line"]
    STATE_OF = {"handle_git_show_file_line": "GitShowFile", "handle_blame_line": "Blame", "handle_grep_line": "Grep"}
    reqs, ridx = [], []
    for i, c in enumerate(cases):
        if i not in facts:
            continue
        o = impl[i].obs[0]
        text = o["text"].decode("utf-8", "replace")
        opt_facts = {f: False for f in GATE_OPTION_FIELDS.values()}
        for op in c["options"]:
            if op[0] in GATE_OPTION_FIELDS:
                opt_facts[GATE_OPTION_FIELDS[op[0]]] = True
        rx = dict(zip(names, facts[i][:5]))
        rx["ripgrep_json::parse_line"] = facts[i][5]
        rx["BLAME_LINE_REGEX"] = bool(BLAME_RE.match(text))
        for h in HANDLERS:
            reqs.append(" ".join(["gates.eval", _hx(h), _hx("Unknown"), _hx(GATE_CALLERS[c["caller"]][1]), _hx(o["raw"]), _hx(o["text"]),
                                  str(len(opt_facts))] + [f"{_hx(k)} {int(v)}" for k, v in opt_facts.items()] +
                                 [str(len(rx))] + [f"{_hx(k)} {int(v)}" for k, v in rx.items()]))
            ridx.append((i, h))
    p = subprocess.run(["lake", "env", "lean", "--run", "DeltaModel/GatesRun.lean"], cwd=LEAN, input="\n".join(reqs) + "\n",
                       stdout=subprocess.PIPE, stderr=subprocess.STDOUT, text=True)
    answers = [l for l in p.stdout.split("\n") if l.strip()]
    if p.returncode != 0 or len(answers) != len(reqs):
        rep.corr_case("gates.claim", False, dict(error="gate model runner failed", log=p.stdout[-600:])); return
    verdict = {}
    for (i, h), a in zip(ridx, answers):
        f = a.split(" ")
        verdict.setdefault(i, {})[h] = (f[1] == "1", f[2] == "1") if f[0] == "ok" else None
    for i, c in enumerate(cases):
        if i not in verdict:
            if impl[i].panic:
                rep.violation("panic:" + impl[i].msg[:60], impl[i].msg[:200], dict(kind="gates", gate_case=c))
            continue
        o = impl[i].obs[0]
        v = verdict[i]
        state = o["state"]
        took = next((h for h in HANDLERS if STATE_OF[h] == state), None)
        if took is None and state == "Unknown" and impl[i].out == b"" :
            took = "handle_grep_line"         # LineType::Ignore: claimed, nothing written, state kept
        problems = []
        if None in v.values():
            problems.append("model runner rejected the request")
        else:
            if took is not None and not v[took][0]:
                problems.append(f"{took} took the line although its gate cannot claim it")
            for k, h in enumerate(HANDLERS):
                if v[h][1] and not any(v[e][0] for e in HANDLERS[:k]):
                    if took != h:
                        problems.append(f"the gate of {h} must claim the line but the line was taken by {took}")
                    break
            if took is None and state not in ("Unknown",):
                problems.append(f"state {state} after a single line met in state Unknown")
        case = dict(kind="gates", gate_case=c, caller=GATE_CALLERS[c["caller"]], state_after=state, verdicts={h: v[h] for h in v},
                    problems=problems)
        rep.corr_case("gates.claim", not problems, case)
        rep.count("gates:taken-by:" + str(took)); rep.count("gates:caller:" + GATE_CALLERS[c["caller"]][1])
        rep.case(key=("gate", c["caller"], tuple(map(tuple, c["options"])), c["line"]), nontrivial=took is not None or bool(c["options"]),
                 sample=dict(shape="gate", caller=GATE_CALLERS[c["caller"]][1], options=c["options"], line=c["line"][:60], taken_by=took))
        # direct oracle (the property): with a caller that is no grep tool / git show, a line that is neither blame-shaped nor
        # starts with `{` is taken by none of the three, whatever the options
        if GATE_CALLERS[c["caller"]][1] not in ("GitGrep", "OtherGrep", "GitShow") and took is not None \
                and not BLAME_RE.match(o["text"].decode("utf-8", "replace")) and not o["text"].startswith(b"{"):
            bad = []
            h0 = ctx.hook(extra_env={"DELTA_VERIF_HOOK_CALLER": GATE_CALLERS[c["caller"]][0]})
            i0 = M.ImplRun(h0.ask(M.hook_requests(XCfg([]), [c["line"].encode("utf-8", "surrogateescape")]), sticky=[0])[1])
            if i0.ok and i0.obs and i0.obs[0]["state"] == state:
                c = dict(c, options=[])
            for op in (c["options"] if len(c["options"]) > 1 else []):
                h1 = ctx.hook(extra_env={"DELTA_VERIF_HOOK_CALLER": GATE_CALLERS[c["caller"]][0]})
                r1 = h1.ask(M.hook_requests(XCfg([op[0] + "=" + op[1]]), [c["line"].encode("utf-8", "surrogateescape")]), sticky=[0])
                i1 = M.ImplRun(r1[1])
                if i1.ok and i1.obs and i1.obs[0]["state"] == state:
                    bad.append(op)
            rep.violation("claimed-without-grep-tool:%s:%s" % (took, (bad[0][0] if bad else "+".join(sorted(o[0] for o in c["options"])) or "defaults")),
                          f"{took} took the line {c['line'][:80]!r} although delta was called by {GATE_CALLERS[c['caller']][0] or 'nothing known'!r}"
                          f" (options {c['options']})", case)


def replay(ctx, rep, obj):
    c = obj["case"]
    if c.get("kind") == "gates":
        return gates_check(ctx, rep, [c["gate_case"]])
    if c.get("kind") == "handler-options":
        import base64, tempfile
        with tempfile.TemporaryDirectory() as tmp:
            args, env = materialize(c["source"], c["options"], tmp, 0)
            rc, out, err = ctx.run_delta(args + ["--paging", "never"], base64.b64decode(c["input_b64"]),
                                         env=dict(env, DELTA_VERIF_FORCE_GUESS=c["caller"]))
        print(out.decode("utf-8", "replace")); return
    if c.get("kind") in ("relative-paths", "binary"):
        import base64
        rc, out, err = ctx.run_delta(c["args"], base64.b64decode(c["input_b64"]), env=c["env"])
        print(out.decode("utf-8", "replace")); return
    if str(c.get("kind", "")).startswith("ingest-"):
        from .. import ingest
        return ingest.ingest_replay(ctx, rep, c)
    cfg = XCfg(c.get("extra_args") or [], **c["model_cfg"])
    lines = c["input"].split("\n")
    impl, model = M.observe(ctx, [(cfg, [l.encode("utf-8", "surrogateescape") for l in lines])])[0]
    print(impl.out.decode("utf-8", "replace"))
