"""C20 — calling-process detection gives the same answer under every thread schedule.

Implementation side: the hooked build of src/utils/process.rs has a gate before every
statement of the CALLER mutex/condvar protocol. `DELTA_VERIF_SCHEDULE` names the global order
of gate events; the binary executes exactly that interleaving or reports it infeasible
(exit 96). For every scenario the model driver (`drv_caller`, Lean `Caller.enumGates`)
lists ALL gate schedules of the model up to the end of the main thread; each is forced on the
real binary and the logged query results / condition checks are compared with the model's
prediction for the same schedule (correspondence). Schedules the model rules out (taken
from the violating traces of the model variants: load hoisted out of the lock, flag stored
after unlock, unconditional store, lock ignored) must be infeasible on the binary too.
Direct oracle (independent of the model), on every run: the process terminates; no query
returns Pending; after a publication every query returns the published command, otherwise the
guess; stdout equals the scenario's reference output.
"""
import os
import shutil
import subprocess
import sys

from ..core import BUILD, hx, parallel_map, sha

DRIVERS = ["drv_caller"]
GENERATED = ["CallerShape"]

NQ = 2            # queries whose ordering points are forced (later ones run free and are only judged)
_REPORTED = set()
RUN_TIMEOUT = 25  # seconds; a run that exceeds it counts as "blocks forever"

DIFF = (b"diff --git a/x.rs b/x.rs\nindex 1111111..2222222 100644\n--- a/x.rs\n+++ b/x.rs\n"
        b"@@ -1,2 +1,2 @@ fn main() {\n-    let a = 1;\n+    let a = 2;\n     println!(\"{}\", a);\n")

STUB_RG = "#!/bin/sh\nprintf 'src/a.rs:12:hello foo\\nsrc/a.rs:14:bar foo\\n'\n"
STUB_GIT = ("#!/bin/sh\nfor a in \"$@\"; do case \"$a\" in blame) "
            "printf '11111111 (Alice 2020-01-01 10:00:00 +0000 1) fn main() {}\\n"
            "22222222 (Bob   2020-01-02 10:00:00 +0000 2) // x\\n'; exit 0;; esac; done\nexit 0\n")
WRAPPER = ("import os, subprocess, sys\n"
           "# runs as a process named `git` (argv[0]) and is delta's parent: the real process-table scan finds it\n"
           "sys.exit(subprocess.run([os.environ['C20_DELTA'], '--no-gitconfig']).returncode)\n")

# name -> (delta args, stdin, pinned guess | None = real scan under a parent named git, publishes?)
SCENARIOS = {
    "rg": dict(args=["rg", "foo"], stdin=None, guess="git diff --word-diff", known=True),
    "blame": dict(args=["git", "blame", "x.rs"], stdin=None, guess="rg foo", known=True),
    "stdin-guess": dict(args=[], stdin=DIFF, guess="git diff --word-diff", known=False),
    "stdin-none": dict(args=[], stdin=DIFF, guess="none", known=False),
    "stdin-fakegit": dict(args=[], stdin=DIFF, guess=None, known=False),
}

# Gate schedules that the model rules out; each is the violating trace of a model variant.
ATTACKS = {
    # Caller.stepBgHoisted / C20.hoisted_load_violates_known_wins
    "hoisted-load": "b.compute,b.load,m.lock,m.store,m.flag,m.notify,m.unlock,b.lock,b.store,b.notify,b.unlock,q1.lock,q1.check",
    # KNOWN stored after the guard is dropped
    "flag-after-unlock": "b.compute,m.lock,m.store,m.notify,m.unlock,b.lock,b.load,b.store,b.notify,b.unlock,m.flag,q1.lock,q1.check",
    # unconditional store of the guess
    "unconditional-store": "m.lock,m.store,m.flag,m.notify,m.unlock,b.compute,b.lock,b.load,b.store,b.notify,b.unlock,q1.lock,q1.check",
    # mutual exclusion ignored
    "lock-ignored": "b.compute,b.lock,m.lock,m.store,m.flag,b.load,b.store,m.notify,m.unlock,b.notify,b.unlock,q1.lock,q1.check",
    # guess path: query served before anything was stored
    "pending-served": "q1.lock,q1.check,q2.lock,q2.check,b.compute,b.lock",
}


def workdir():
    d = os.path.join(BUILD, "c20-%d" % os.getpid())
    shutil.rmtree(d, ignore_errors=True)
    os.makedirs(os.path.join(d, "bin"))
    os.makedirs(os.path.join(d, "home"))
    for name, body in (("rg", STUB_RG), ("git", STUB_GIT)):
        p = os.path.join(d, "bin", name)
        with open(p, "w") as f:
            f.write(body)
        os.chmod(p, 0o755)
    with open(os.path.join(d, "fakegit.py"), "w") as f:
        f.write(WRAPPER)
    return d


def run_bin(ctx, wd, scen, schedule, tag, timeout_ms=6000, settle_ms=20):
    """One run of the real binary. Returns dict(rc, stdout, log lines)."""
    sc = SCENARIOS[scen]
    e = dict(os.environ)
    for k in ("GIT_CONFIG_PARAMETERS", "DELTA_FEATURES", "DELTA_PAGER", "PAGER", "BAT_PAGER", "BAT_THEME",
              "COLORTERM", "DELTA_VERIF_HOOK", "LESS", "GIT_PREFIX", "DELTA_VERIF_FORCE_GUESS",
              "DELTA_VERIF_SCHEDULE", "DELTA_CALLING_PROCESS_QUERY_ALL"):
        e.pop(k, None)
    e["HOME"] = os.path.join(wd, "home")
    e["GIT_CONFIG_NOSYSTEM"] = "1"
    e["PATH"] = os.path.join(wd, "bin") + os.pathsep + e.get("PATH", "")
    log = os.path.join(wd, "log-%s" % tag)
    if os.path.exists(log):
        os.remove(log)
    e["DELTA_VERIF_SCHEDULE_LOG"] = log
    if schedule:
        e["DELTA_VERIF_SCHEDULE"] = schedule
        e["DELTA_VERIF_SCHEDULE_TIMEOUT_MS"] = str(timeout_ms)
        e["DELTA_VERIF_SCHEDULE_SETTLE_MS"] = str(settle_ms)
    if sc["guess"] is not None:
        e["DELTA_VERIF_FORCE_GUESS"] = sc["guess"]
        cmd, exe = [ctx.delta, "--no-gitconfig"] + sc["args"], None
    else:
        e["C20_DELTA"] = ctx.delta
        cmd, exe = ["git", os.path.join(wd, "fakegit.py"), "show", "--word-diff"], sys.executable
    try:
        io = dict(stdin=subprocess.DEVNULL) if sc["stdin"] is None else dict(input=sc["stdin"])
        p = subprocess.run(cmd, executable=exe, stdout=subprocess.PIPE, stderr=subprocess.PIPE,
                           env=e, timeout=RUN_TIMEOUT, cwd=wd, **io)
        rc, out, err = p.returncode, p.stdout, p.stderr
    except subprocess.TimeoutExpired as ex:
        rc, out, err = "timeout", ex.stdout or b"", ex.stderr or b""
    lines = open(log).read().split("\n") if os.path.exists(log) else []
    if os.path.exists(log):
        os.remove(log)
    return dict(rc=rc, stdout=out, stderr=err.decode("utf-8", "replace")[-400:], log=[ln for ln in lines if ln])


def parse_log(lines):
    """-> dict(events=[gate names granted in order], free=[...], guess, known, queries=[(k, [check values], returned)], infeasible)."""
    r = dict(events=[], guess=None, known=None, queries={}, order=[], infeasible=None)
    for ln in lines:
        w = ln.split(" ", 2)
        if w[0] == "ev":
            r["events"].append(w[2])
        elif w[0] == "guess":
            r["guess"] = ln[len("guess "):]
        elif w[0] == "known":
            r["known"] = ln[len("known "):]
            r["order"].append("known")
        elif w[0] == "check":
            k = int(w[1][1:])
            r["queries"].setdefault(k, dict(checks=[], ret=False))["checks"].append(w[2])
        elif w[0] == "ret":
            k = int(w[1][1:])
            r["queries"].setdefault(k, dict(checks=[], ret=False))["ret"] = True
            r["order"].append("ret%d" % k)
        elif w[0] == "INFEASIBLE":
            r["infeasible"] = ln
    return r


def oracle(rep, scen, schedule, run, parsed, reference_out):
    """The property, judged on one run of the implementation. Returns list of failure tags."""
    bad = []
    replay = dict(scenario=scen, schedule=schedule, rc=run["rc"], log=run["log"][-60:], stderr=run["stderr"],
                  stdout_sha=sha(run["stdout"])[:12], stdout_len=len(run["stdout"]),
                  reference_sha=sha(reference_out)[:12] if reference_out is not None else None)

    def v(tag, what):
        bad.append(tag)
        sig = "c20:%s:%s" % (scen, tag)
        rep.count("oracle-failure:" + sig)
        if sig not in _REPORTED:       # one replay per signature (Report keeps at most 50 entries)
            _REPORTED.add(sig)
            rep.violation(sig, what, replay)

    if run["rc"] == "timeout":
        v("blocks-forever", "delta did not terminate within %d s under the forced schedule" % RUN_TIMEOUT)
    published = parsed["known"] is not None
    before_pub = set()
    for o in parsed["order"]:
        if o == "known":
            break
        before_pub.add(int(o[3:]))
    for k in sorted(parsed["queries"]):
        q = parsed["queries"][k]
        if not q["ret"]:
            continue
        res = q["checks"][-1] if q["checks"] else None
        if res is None:
            continue
        if res == "Pending":
            v("pending-returned", "query %d returned Pending" % k)
        elif published and k in before_pub and res != parsed["known"]:
            v("query-before-publication",
              "delta launched the command itself (%r) but query %d was answered before set_calling_process "
              "published it and returned the background guess %r" % (parsed["known"], k, res))
        elif published and res != parsed["known"]:
            v("guess-after-publication",
              "query %d returned %r although %r had been published by set_calling_process" % (k, res, parsed["known"]))
        elif not published and parsed["guess"] is not None and res != parsed["guess"]:
            v("stale-answer", "query %d returned %r, the background determination gave %r" % (k, res, parsed["guess"]))
    if run["rc"] not in ("timeout", 96):
        if run["rc"] != 0:
            v("exit-status", "exit status %r" % (run["rc"],))
        elif reference_out is not None and run["stdout"] != reference_out:
            v("behaviour-differs", "stdout differs from the reference run of the same command (rendering depends on the schedule)")
    return bad


def model_values(parsed):
    """Map implementation values to the model's abstract ones (guess = v1, known = v2)."""
    def f(x):
        if x == "Pending":
            return "pending"
        if parsed["known"] is not None and x == parsed["known"]:
            return "v2"
        if parsed["guess"] is not None and x == parsed["guess"]:
            return "v1"
        return "other(%s)" % x
    return f


def case(ctx, rep, mdl, wd, scen, schedule, kind, idx, reference_out, timeout_ms, nq=NQ):
    sc = SCENARIOS[scen]
    run = run_bin(ctx, wd, scen, schedule, "%s-%s-%d" % (scen, kind, idx), timeout_ms=timeout_ms)
    parsed = parse_log(run["log"])
    want = schedule.split(",")
    impl_feasible = run["rc"] != 96 and parsed["events"] == want
    bad = oracle(rep, scen, schedule, run, parsed, reference_out)
    res = dict(scenario=scen, kind=kind, schedule=schedule, rc=run["rc"], impl_feasible=impl_feasible,
               infeasible=parsed["infeasible"], oracle_failures=bad)
    f = model_values(parsed)
    checks = []
    for k in sorted(parsed["queries"]):
        if k <= nq:
            checks += ["%d:%s" % (k, f(c)) for c in parsed["queries"][k]["checks"]]
    results = [f(parsed["queries"][k]["checks"][-1]) for k in sorted(parsed["queries"])
               if k <= nq and parsed["queries"][k]["ret"] and parsed["queries"][k]["checks"]]
    res.update(impl_checks=";".join(checks), impl_results=",".join(results), nqueries=len(parsed["queries"]))
    return res


def model_ask(mdl, scen, items):
    """items: [(schedule, nq)]"""
    known = "2" if SCENARIOS[scen]["known"] else "-"
    return mdl.ask(["caller.run 1 %s %d %s" % (known, nq, hx(s)) for s, nq in items])


def model_fields(ans):
    d = {}
    for w in ans.split()[2:]:
        if "=" in w:
            k, v = w.split("=", 1)
            d[k] = v
    return d


def random_merges(ctx, scen, feasible, n):
    """Random interleavings of the per-thread gate orders (most are impossible)."""
    out = []
    for _ in range(n):
        base = ctx.rng.choice(feasible).split(",")
        b = [e for e in base if e.startswith("b")]
        if ctx.rng.random() < 0.5:
            b = ["b.compute", "b.lock", "b.load"] + (["b.store"] if ctx.rng.random() < 0.7 else []) + ["b.notify", "b.unlock"]
        m = [e for e in base if not e.startswith("b")]
        merged = []
        while b or m:
            src = b if (b and (not m or ctx.rng.random() < 0.5)) else m
            merged.append(src.pop(0))
        out.append(",".join(merged))
    return out


def sure_verdict(model_answer, schedule):
    """Model verdicts whose counterpart on the binary is unambiguous. The binary's scheduler
    is lenient where the model's executor is strict: a gate that the rest of the schedule
    does not name passes freely, and a `lock` gate stands before the lock attempt, so
    * a `mismatch` is surely infeasible on the binary only if the gate the thread really
      stands at is named later in the schedule (or the thread stands at no gate at all);
    * a `blocked` lock is surely infeasible only if the blocked thread's next gate follows
      at once."""
    w = model_answer.split()
    if w[:2] == ["ok", "feasible"]:
        return "feasible"
    if w[:2] == ["ok", "infeasible"]:
        i, why = int(w[2]), w[3]
        ev = schedule.split(",")
        if why == "mismatch":
            at = w[4] if len(w) > 4 else "-"
            return "infeasible" if (at == "-" or at in ev[i:]) else None
        if i + 1 < len(ev) and ev[i + 1].startswith("b") == ev[i].startswith("b"):
            return "infeasible"
    return None


def run(ctx, rep):
    rep.rule = ("every gate schedule of the model (Caller.enumGates, %d forced queries) x 5 scenarios (delta rg, delta git blame, "
                "stdin with pinned guess, stdin with no caller, stdin under a parent process named git with the real scan), "
                "plus schedules the model rules out (variant traces, random merges); distinct by (scenario, schedule); "
                "non-trivial = both threads take part in the forced order" % NQ)
    rep.extra_trusted += ["std::sync Mutex/Condvar and the Rust memory model (the model is sequentially consistent at statement granularity)",
                          "ordering-point hooks in src/utils/process.rs (cfg(dandavison_delta_verif)) and their scheduler",
                          "tools/extractors/caller.py (statement-order extraction)"]
    rep.assumptions += ["only the main thread calls calling_process(); a query's critical section does not call calling_process() again",
                        "the real code is exercised on the forced schedules (and unforced stress runs in the thorough tier) only; all other schedules are covered by the proof over the model"]
    mdl = ctx.model("drv_caller") if ctx.drivers_ok else None
    wd = workdir()
    try:
        _run(ctx, rep, mdl, wd)
    finally:
        shutil.rmtree(wd, ignore_errors=True)



# ---------------------------------------------------------------------------------------------
# Subcommand mode on a real repository: `delta git diff --word-diff …`, `delta git grep …`, `delta rg …`
# (real git / rg). The launched command must be what EVERY query sees, from the first one (made
# while the configuration is built: `is_word_diff`, cached for the process) on.

REPO_SCRIPT = r"""set -e
git init -q -b main .
printf -- '- first item\n  indented words here\n+ plus line\nplain\n' > notes.txt
printf 'fn main() {\n    let words = 1;\n}\n' > a.rs
git add . && git commit -q -m one
printf -- '- first item\n  indented WORDS here\n+ plus line\nplain text\n' > notes.txt
printf 'fn main() {\n    let words = 2;\n}\n' > a.rs
git commit -q -a -m two
"""

# name -> (delta options, launched command, is a word diff)
SUBCOMMANDS = {
    "git-diff--word-diff": (["--line-numbers"], ["git", "diff", "--word-diff", "HEAD~1", "--", "notes.txt"], True),
    "git-diff--color-words": (["--side-by-side"], ["git", "diff", "--color-words", "HEAD~1", "--", "notes.txt"], True),
    "git-show--word-diff-regex": (["--line-numbers"], ["git", "show", "--word-diff-regex=.", "HEAD", "--", "notes.txt"], True),
    "git-log--word-diff": (["--line-numbers"], ["git", "log", "-p", "-1", "--word-diff", "--", "notes.txt"], True),
    "git-diff": (["--line-numbers"], ["git", "diff", "HEAD~1"], False),
    "git-grep": ([], ["git", "grep", "-n", "words"], False),
    "rg": ([], ["rg", "words"], False),
}
# what delta really executes for a launched command (subcommands/external.rs)
LAUNCH_PREFIX = {"git": ["git", "-c", "color.ui=always"], "rg": ["rg", "--json"]}
# Violating trace of Caller.stepMainLatePub (C20.late_publication_violates_known_wins): first query before the publication
ATTACK_LATE_PUB = ("q1.lock,q1.check,b.compute,b.lock,b.load,b.store,b.notify,b.unlock,q1.check,"
                   "m.lock,m.store,m.flag,m.notify,m.unlock,q2.lock,q2.check")

import re as _re
_SGR = _re.compile(r"\x1b\[[0-9;]*[mK]")


def sub_env(wd, extra=None):
    e = dict(os.environ)
    for k in list(e):
        if k.startswith("GIT_") or k.startswith("DELTA_") or k in ("PAGER", "BAT_PAGER", "BAT_THEME", "COLORTERM", "LESS", "COLUMNS"):
            e.pop(k)
    e.update(HOME=os.path.join(wd, "home"), GIT_CONFIG_NOSYSTEM="1", GIT_CONFIG_GLOBAL="/dev/null", TERM="xterm-256color",
             GIT_AUTHOR_NAME="a", GIT_AUTHOR_EMAIL="a@example.invalid", GIT_COMMITTER_NAME="a",
             GIT_COMMITTER_EMAIL="a@example.invalid", GIT_AUTHOR_DATE="2020-01-01T00:00:00Z",
             GIT_COMMITTER_DATE="2020-01-01T00:00:00Z")
    e.update(extra or {})
    return e


def make_repo(wd):
    d = os.path.join(wd, "repo")
    if os.path.isdir(d):
        return d
    os.makedirs(d)
    p = subprocess.run(["sh", "-c", REPO_SCRIPT], cwd=d, env=sub_env(wd), stdout=subprocess.PIPE, stderr=subprocess.STDOUT, text=True)
    return d if p.returncode == 0 else None


def sub_run(ctx, wd, name, mode, schedule, tag, guess="none"):
    """mode 'launch': `delta <opts> <cmd…>`; mode 'piped': `<real cmd> | delta <opts>` with the caller pinned."""
    opts, cmd, _ = SUBCOMMANDS[name]
    real = LAUNCH_PREFIX[cmd[0]] + cmd[1:]
    repo = os.path.join(wd, "repo")
    log = os.path.join(wd, "log-" + tag)
    if os.path.exists(log):
        os.remove(log)
    extra = {"DELTA_VERIF_SCHEDULE_LOG": log}
    try:
        if mode == "launch":
            extra["DELTA_VERIF_FORCE_GUESS"] = guess
            if schedule:
                extra.update(DELTA_VERIF_SCHEDULE=schedule, DELTA_VERIF_SCHEDULE_TIMEOUT_MS="6000", DELTA_VERIF_SCHEDULE_SETTLE_MS="20")
            p = subprocess.run([ctx.delta, "--no-gitconfig", "--width=80"] + opts + cmd, cwd=repo, env=sub_env(wd, extra),
                               stdin=subprocess.DEVNULL, stdout=subprocess.PIPE, stderr=subprocess.PIPE, timeout=RUN_TIMEOUT)
        else:
            src = subprocess.run(real, cwd=repo, env=sub_env(wd), stdin=subprocess.DEVNULL, stdout=subprocess.PIPE,
                                 stderr=subprocess.PIPE, timeout=RUN_TIMEOUT)
            extra["DELTA_VERIF_FORCE_GUESS"] = " ".join(real)
            p = subprocess.run([ctx.delta, "--no-gitconfig", "--width=80"] + opts, cwd=repo, env=sub_env(wd, extra),
                               input=src.stdout, stdout=subprocess.PIPE, stderr=subprocess.PIPE, timeout=RUN_TIMEOUT)
        rc, out, err = p.returncode, p.stdout, p.stderr
    except subprocess.TimeoutExpired as ex:
        rc, out, err = "timeout", ex.stdout or b"", ex.stderr or b""
    lines = open(log).read().split("\n") if os.path.exists(log) else []
    if os.path.exists(log):
        os.remove(log)
    return dict(rc=rc, stdout=out, stderr=err.decode("utf-8", "replace")[-400:], log=[ln for ln in lines if ln])


def hunk_lines_git_printed(wd, name):
    """The hunk lines exactly as the launched git command prints them (colours removed)."""
    opts, cmd, _ = SUBCOMMANDS[name]
    p = subprocess.run(LAUNCH_PREFIX[cmd[0]] + cmd[1:], cwd=os.path.join(wd, "repo"), env=sub_env(wd),
                       stdin=subprocess.DEVNULL, stdout=subprocess.PIPE, stderr=subprocess.PIPE)
    lines = [_SGR.sub("", ln) for ln in p.stdout.decode("utf-8", "replace").split("\n")]
    at = [i for i, ln in enumerate(lines) if ln.startswith("@@")]
    return [ln for ln in lines[at[0] + 1:] if ln != ""] if at else None


def sub_oracle(rep, name, mode_desc, schedule, run, want_lines, piped_out):
    opts, cmd, word = SUBCOMMANDS[name]
    scen = "sub:" + name
    parsed = parse_log(run["log"])
    shown = [_SGR.sub("", ln).rstrip() for ln in run["stdout"].decode("utf-8", "replace").split("\n")]
    if shown and shown[-1] == "":
        shown.pop()
    replay = dict(scenario=scen, command=["delta", "--no-gitconfig", "--width=80"] + opts + cmd, schedule=schedule,
                  pinned_guess="none", repository_script=REPO_SCRIPT, rc=run["rc"], log=run["log"][-40:],
                  stderr=run["stderr"], shown_tail=shown[-8:], git_printed=want_lines, run=mode_desc)
    bad = []

    def v(tag, what):
        bad.append(tag)
        sig = "c20:%s:%s" % (scen, tag)
        rep.count("oracle-failure:" + sig)
        if sig not in _REPORTED:
            _REPORTED.add(sig)
            rep.violation(sig, what, replay)

    if run["rc"] == "timeout":
        v("blocks-forever", "delta did not terminate within %d s" % RUN_TIMEOUT)
        return bad
    before_pub = set()
    for o in parsed["order"]:
        if o == "known":
            break
        before_pub.add(int(o[3:]))
    for k in sorted(parsed["queries"]):
        q = parsed["queries"][k]
        if not (q["ret"] and q["checks"]):
            continue
        res = q["checks"][-1]
        if res == "Pending":
            v("pending-returned", "query %d returned Pending" % k)
        elif parsed["known"] is None or k in before_pub:
            v("query-before-publication", "delta launched `%s` itself but query %d was answered (%r) before the launched "
              "command was published" % (" ".join(cmd), k, res))
        elif res != parsed["known"]:
            v("guess-after-publication", "query %d returned %r although %r had been published" % (k, res, parsed["known"]))
    if run["rc"] == 96:
        return bad
    if run["rc"] != 0:
        v("exit-status", "exit status %r" % (run["rc"],))
        return bad
    if word and want_lines:
        got = shown[-len(want_lines):]
        if got != want_lines:
            v("word-diff-lines-altered", "`delta %s`: the word-diff hunk lines are not shown as git printed them "
              "(got %r, git printed %r): the launched command was not what the first query saw" % (" ".join(opts + cmd), got, want_lines))
        elif any("⋮" in ln for ln in shown):
            v("word-diff-line-numbers", "`delta %s`: line numbers shown for a word diff" % " ".join(opts + cmd))
    if piped_out is not None and run["stdout"] != piped_out:
        v("differs-from-piped", "`delta %s` renders differently from `%s | delta` with that caller pinned"
          % (" ".join(opts + cmd), " ".join(LAUNCH_PREFIX[cmd[0]] + cmd[1:])))
    return bad


def subcommand_mode(ctx, rep, mdl, wd, schedules):
    if make_repo(wd) is None:
        rep.notes["subcommand_mode"] = "scratch repository could not be created (git missing?) - skipped"
        return
    jobs = []
    for name in SUBCOMMANDS:
        want = hunk_lines_git_printed(wd, name) if SUBCOMMANDS[name][2] else None
        piped = sub_run(ctx, wd, name, "piped", None, "sub-piped-" + name)
        piped_out = piped["stdout"] if piped["rc"] == 0 else None
        if piped_out is None:
            rep.notes.setdefault("subcommand_piped_failed", []).append(name)
        for i in range(ctx.n(3, 10)):
            jobs.append((name, "unforced run %d" % (i + 1), None, want, piped_out))
        sel = schedules if (not ctx.quick() or SUBCOMMANDS[name][2]) else schedules[::5]
        for s in sel:
            jobs.append((name, "forced schedule", s, want, piped_out))
        jobs.append((name, "attack:late-publication", ATTACK_LATE_PUB, want, piped_out))

    def one(ij):
        i, (name, desc, sched, want, piped_out) = ij
        r = sub_run(ctx, wd, name, "launch", sched, "sub-%d" % i)
        bad = sub_oracle(rep, name, desc, sched or "", r, want, piped_out)
        ev = parse_log(r["log"])["events"]
        return name, desc, sched, r["rc"], bad, (sched is None or ev == sched.split(","))

    for name, desc, sched, rc, bad, completed in parallel_map(one, list(enumerate(jobs)), workers=12):
        rep.case(key=("sub", name, desc, sched), nontrivial=True,
                 sample=dict(scenario="sub:" + name, run=desc, schedule=sched, rc=rc, failures=bad))
        kind = desc.split(" ")[0] if not desc.startswith("attack") else "attack"
        rep.count("sub:%s:%s:%s" % (name, kind, "rc=%s" % rc))
        if desc == "forced schedule":
            # every model schedule (publication first, then the queries) must be executable by the binary
            rep.corr_case("subcommand.schedule", completed and rc == 0,
                          dict(scenario="sub:" + name, schedule=sched, rc=rc, failures=bad))
        elif desc.startswith("attack"):
            # the model rules this order out (the first query never precedes the publication)
            rep.corr_case("subcommand.attack", rc == 96, dict(scenario="sub:" + name, schedule=sched, rc=rc, failures=bad))


def shape_check(ctx, rep, mdl):
    """Statement order extracted from REPO now vs the order the model executes. The same fact
    is a theorem (Props/C20.lean shape_*); this copy does not depend on the shared Generated/
    directory (which a concurrent check of another tree may rewrite between extraction and
    `lake build`) and names the differing list."""
    import importlib.util
    from ..core import REPO, ROOT
    spec = importlib.util.spec_from_file_location("extractor_caller", os.path.join(ROOT, "tools", "extractors", "caller.py"))
    ex = importlib.util.module_from_spec(spec)
    spec.loader.exec_module(ex)
    try:
        src = ex.strip_hooks_and_comments(ex.strip_tests(ex.read(REPO, "src/utils/process.rs")))
        got = dict(bg=ex.thread_closure(src), pub=ex.set_calling_process(src), query=ex.query(src),
                   startup=ex.startup(ex.strip_hooks_and_comments(ex.read(REPO, "src/main.rs"))))
    except SystemExit as e:
        rep.broken_proofs.append("shape of process.rs not recognised: %s" % e)
        return
    rep.notes["extracted_shape"] = got
    if mdl is None:
        return
    ans = mdl.ask(["caller.shape"])[0]
    want = {}
    for w in ans.split()[1:]:
        k, v = w.split("=", 1)
        want[k] = v.split(",")
    for k in ("bg", "pub", "query"):
        if got[k] != want.get(k):
            rep.broken_proofs.append("C20.shape_%s: process.rs executes %s, the model %s"
                                     % ({"bg": "background", "pub": "publication", "query": "query"}[k], got[k], want.get(k)))
    if got["startup"] != want.get("startup"):
        rep.broken_proofs.append("C20.startup_publication_precedes_first_query / C20.startup_known_wins: in subcommand mode "
                                 "main.rs executes %s, the model %s (the launched command must be published before "
                                 "anything can query)" % (got["startup"], want.get("startup")))


def _run(ctx, rep, mdl, wd):
    shape_check(ctx, rep, mdl)
    jobs = []       # (scen, schedule, kind, timeout)
    feas = {}
    refs = {}
    for scen, sc in SCENARIOS.items():
        r = run_bin(ctx, wd, scen, None, "ref-" + scen)
        p = parse_log(r["log"])
        if not r["log"]:
            # the binary has no ordering points: nothing can be forced or observed
            rep.broken_proofs.append("the build of %s has no C20 ordering points in src/utils/process.rs "
                                     "(notes/hooks-caller.diff not applied?): no schedule can be forced" % ctx.delta)
            return
        oracle(rep, scen, "", r, p, None)
        refs[scen] = r["stdout"] if r["rc"] == 0 else None
        rep.count("reference:%s:queries=%d" % (scen, len(p["queries"])))
        if sc["guess"] is None:
            rep.notes["fakegit_guess"] = p["guess"]
        if mdl is None:
            # no model driver: still force a fixed set of schedules so the direct oracle runs
            scheds = ["b.compute,b.lock,b.load,b.store,b.notify,b.unlock,q1.lock,q1.check,q2.lock,q2.check"]
        else:
            ans = mdl.ask(["caller.enum 1 %s %d" % ("2" if sc["known"] else "-", NQ)])[0]
            scheds = ans.split(" ", 2)[2].split("|") if ans.startswith("ok ") else []
            if not scheds or any("STUCK" in s or "FUEL" in s for s in scheds):
                rep.corr_case("caller.enum", False, dict(scenario=scen, answer=ans[:300]))
                scheds = [s for s in scheds if "STUCK" not in s and "FUEL" not in s]
        feas[scen] = scheds
        if scen == "stdin-fakegit" and ctx.quick():
            scheds = scheds[:2] + scheds[-1:]
        for s in scheds:
            jobs.append((scen, s, "model-schedule", 6000, NQ))
        if scen == "rg" and not ctx.quick() and mdl is not None:
            # the rg scenario makes 4 queries: force the ordering points of three of them
            ans = mdl.ask(["caller.enum 1 2 3"])[0]
            for s in (ans.split(" ", 2)[2].split("|") if ans.startswith("ok ") else []):
                jobs.append((scen, s, "model-schedule-3q", 6000, 3))
        if scen in ("rg", "stdin-guess"):
            for name, s in ATTACKS.items():
                if ("m." in s) == sc["known"]:
                    jobs.append((scen, s, "attack:" + name, 700, NQ))
            for s in random_merges(ctx, scen, scheds, ctx.n(6, 60)) if scheds else []:
                jobs.append((scen, s, "random-merge", 700, NQ))
    # de-duplicate
    seen, uniq = set(), []
    for j in jobs:
        if (j[0], j[1]) not in seen:
            seen.add((j[0], j[1]))
            uniq.append(j)
    jobs = uniq

    results = parallel_map(lambda ij: case(ctx, rep, mdl, wd, ij[1][0], ij[1][1], ij[1][2], ij[0], refs[ij[1][0]], ij[1][3], ij[1][4]),
                           list(enumerate(jobs)), workers=12)
    by_scen = {}
    for (scen, s, kind, _, nq), res in zip(jobs, results):
        by_scen.setdefault(scen, []).append((s, kind, res, nq))
    for scen, items in by_scen.items():
        answers = model_ask(mdl, scen, [(s, nq) for s, _, _, nq in items]) if mdl else [None] * len(items)
        for (s, kind, res, _), ans in zip(items, answers):
            both = any(e.startswith("b") for e in s.split(",")) and any(not e.startswith("b") for e in s.split(","))
            rep.case(key=(scen, s), nontrivial=both,
                     sample=dict(scenario=scen, kind=kind, schedule=s, rc=res["rc"], results=res["impl_results"],
                                 checks=res["impl_checks"], queries=res["nqueries"]))
            rep.count("%s:%s:%s" % (scen, kind.split(":")[0], "feasible" if res["impl_feasible"] else "infeasible"))
            if ans is None:
                continue
            verdict = sure_verdict(ans, s)
            info = dict(scenario=scen, kind=kind, schedule=s, model=ans, impl=res)
            if verdict is None:
                rep.count("model-verdict-not-comparable")
                continue
            if verdict == "feasible":
                mf = model_fields(ans)
                agree = (res["impl_feasible"] and res["impl_results"] == mf.get("results", "")
                         and res["impl_checks"] == mf.get("checks", ""))
                rep.corr_case("caller.run", agree, info)
            else:
                rep.corr_case("caller.run", not res["impl_feasible"], info)

    subcommand_mode(ctx, rep, mdl, wd, feas.get("rg") or [])

    if not ctx.quick():
        stress(ctx, rep, wd, refs)


def stress(ctx, rep, wd, refs):
    """Unforced runs: whatever schedules the OS produces; direct oracle only."""
    scens = ["rg", "blame", "stdin-guess", "stdin-none", "stdin-fakegit"]
    n = 2000

    def one(i):
        scen = scens[i % len(scens)]
        r = run_bin(ctx, wd, scen, None, "stress-%d" % i)
        p = parse_log(r["log"])
        bad = oracle(rep, scen, "", r, p, refs[scen])
        # which schedule did the OS produce: was the background thread finished before the first query's check?
        idx = {ln.split(" ", 1)[0] + ":" + ln.split(" ")[1]: i for i, ln in reversed(list(enumerate(r["log"]))) if " " in ln}
        b, c = idx.get("done:b.done"), idx.get("check:q1")
        order = "bg-before-first-query" if (b is not None and c is not None and b < c) else "first-query-before-bg-done"
        return scen, bad, order

    for scen, bad, order in parallel_map(one, range(n)):
        rep.evaluations += 1
        rep.count("stress:%s:%s" % (scen, "ok" if not bad else "FAIL"))
        rep.count("stress-order:%s:%s" % (scen, order))


def replay(ctx, rep, obj):
    c = obj.get("case") or {}
    scen, schedule = c.get("scenario"), c.get("schedule")
    if isinstance(scen, str) and scen.startswith("sub:") and scen[4:] in SUBCOMMANDS:
        name = scen[4:]
        wd = workdir()
        try:
            if make_repo(wd) is None:
                return
            want = hunk_lines_git_printed(wd, name) if SUBCOMMANDS[name][2] else None
            piped = sub_run(ctx, wd, name, "piped", None, "piped")
            for i in range(3):
                r = sub_run(ctx, wd, name, "launch", schedule or None, "replay-%d" % i)
                bad = sub_oracle(rep, name, "replay", schedule or "", r, want, piped["stdout"] if piped["rc"] == 0 else None)
                rep.case(key=(scen, schedule, i), nontrivial=True,
                         sample=dict(scenario=scen, schedule=schedule, rc=r["rc"], log=r["log"][-40:], failures=bad))
        finally:
            shutil.rmtree(wd, ignore_errors=True)
        return
    if scen not in SCENARIOS:
        return run(ctx, rep)
    wd = workdir()
    try:
        ref = run_bin(ctx, wd, scen, None, "ref")
        for i in range(3):
            r = run_bin(ctx, wd, scen, schedule or None, "replay-%d" % i)
            p = parse_log(r["log"])
            bad = oracle(rep, scen, schedule or "", r, p, ref["stdout"] if ref["rc"] == 0 else None)
            rep.case(key=(scen, schedule, i), nontrivial=True,
                     sample=dict(scenario=scen, schedule=schedule, rc=r["rc"], log=r["log"][-40:], failures=bad))
    finally:
        shutil.rmtree(wd, ignore_errors=True)
