"""C20 — calling-process detection gives the same answer under every thread schedule.

Implementation side: the hooked build of src/utils/process.rs has a gate before every
statement of the CALLER mutex/condvar protocol. `DELTA_VERIF_SCHEDULE` names the global order
of gate events; the binary executes exactly that interleaving or reports it infeasible
(exit 96). For every scenario the model driver (`drv_caller`, Lean `Caller.enumGates`)
lists ALL gate schedules of the model up to the end of the main thread; each is forced on the
real binary and the logged query results / condition checks are compared with the model's
prediction for the same schedule (correspondence). Schedules the model rules out (taken
from the violating traces of the model variants: load hoisted out of the lock, flag stored
after unlock, unconditional store, lock ignored) must be infeasible on the binary too.
Direct oracle (independent of the model), on every run: the process terminates; no query
returns Pending; after a publication every query returns the published command, otherwise the
guess; stdout equals the scenario's reference output.

The background determination itself (session 3): the proofs assume nothing about the process table any
more (`C20.describe_total`, `background_computation_returns`); on the implementation side
`scan_mode` runs delta WITHOUT a pinned guess under chains of launcher processes with hostile command
lines (empty, no file stem, blank, non-UTF-8, very long, shifted by dropped arguments, zombie at pid-1,
parent exiting during the scan, git/rg parents, grandparents and siblings) - in a private pid namespace
when `unshare` permits, so that the whole process table is known - and `describe_mode` feeds generated
command lines to `describe_calling_process` through DELTA_VERIF_FORCE_GUESS. Oracle: delta terminates,
exits 0, no thread panics, every query is answered with the logged guess (never Pending), the guess is
the one the model's `scan` gives for that table and the rendering equals the run with that guess pinned.
"""
import os
import shutil
import subprocess
import sys

from ..core import BUILD, hx, parallel_map, sha

DRIVERS = ["drv_caller"]
GENERATED = ["CallerShape", "CallerDescribe", "CallerQueries"]

NQ = 2            # queries whose ordering points are forced (later ones run free and are only judged)
_REPORTED = set()
RUN_TIMEOUT = 25  # seconds; a run that exceeds it counts as "blocks forever"

DIFF = (b"diff --git a/x.rs b/x.rs\nindex 1111111..2222222 100644\n--- a/x.rs\n+++ b/x.rs\n"
        b"@@ -1,2 +1,2 @@ fn main() {\n-    let a = 1;\n+    let a = 2;\n     println!(\"{}\", a);\n")

STUB_RG = "#!/bin/sh\nprintf 'src/a.rs:12:hello foo\\nsrc/a.rs:14:bar foo\\n'\n"
STUB_GIT = ("#!/bin/sh\nfor a in \"$@\"; do case \"$a\" in blame) "
            "printf '11111111 (Alice 2020-01-01 10:00:00 +0000 1) fn main() {}\\n"
            "22222222 (Bob   2020-01-02 10:00:00 +0000 2) // x\\n'; exit 0;; esac; done\nexit 0\n")
WRAPPER = ("import os, subprocess, sys\n"
           "# runs as a process named `git` (argv[0]) and is delta's parent: the real process-table scan finds it\n"
           "sys.exit(subprocess.run([os.environ['C20_DELTA'], '--no-gitconfig']).returncode)\n")

# name -> (delta args, stdin, pinned guess | None = real scan under a parent named git, publishes?)
SCENARIOS = {
    "rg": dict(args=["rg", "foo"], stdin=None, guess="git diff --word-diff", known=True),
    "blame": dict(args=["git", "blame", "x.rs"], stdin=None, guess="rg foo", known=True),
    "stdin-guess": dict(args=[], stdin=DIFF, guess="git diff --word-diff", known=False),
    "stdin-none": dict(args=[], stdin=DIFF, guess="none", known=False),
    "stdin-fakegit": dict(args=[], stdin=DIFF, guess=None, known=False),
}

# Gate schedules that the model rules out; each is the violating trace of a model variant.
ATTACKS = {
    # Caller.stepBgHoisted / C20.hoisted_load_violates_known_wins
    "hoisted-load": "b.compute,b.load,m.lock,m.store,m.flag,m.notify,m.unlock,b.lock,b.store,b.notify,b.unlock,q1.lock,q1.check",
    # KNOWN stored after the guard is dropped
    "flag-after-unlock": "b.compute,m.lock,m.store,m.notify,m.unlock,b.lock,b.load,b.store,b.notify,b.unlock,m.flag,q1.lock,q1.check",
    # unconditional store of the guess
    "unconditional-store": "m.lock,m.store,m.flag,m.notify,m.unlock,b.compute,b.lock,b.load,b.store,b.notify,b.unlock,q1.lock,q1.check",
    # mutual exclusion ignored
    "lock-ignored": "b.compute,b.lock,m.lock,m.store,m.flag,b.load,b.store,m.notify,m.unlock,b.notify,b.unlock,q1.lock,q1.check",
    # guess path: query served before anything was stored
    "pending-served": "q1.lock,q1.check,q2.lock,q2.check,b.compute,b.lock",
}


def workdir():
    d = os.path.join(BUILD, "c20-%d" % os.getpid())
    shutil.rmtree(d, ignore_errors=True)
    os.makedirs(os.path.join(d, "bin"))
    os.makedirs(os.path.join(d, "home"))
    for name, body in (("rg", STUB_RG), ("git", STUB_GIT)):
        p = os.path.join(d, "bin", name)
        with open(p, "w") as f:
            f.write(body)
        os.chmod(p, 0o755)
    with open(os.path.join(d, "fakegit.py"), "w") as f:
        f.write(WRAPPER)
    return d


def run_bin(ctx, wd, scen, schedule, tag, timeout_ms=6000, settle_ms=20):
    """One run of the real binary. Returns dict(rc, stdout, log lines)."""
    sc = SCENARIOS[scen]
    e = dict(os.environ)
    for k in ("GIT_CONFIG_PARAMETERS", "DELTA_FEATURES", "DELTA_PAGER", "PAGER", "BAT_PAGER", "BAT_THEME",
              "COLORTERM", "DELTA_VERIF_HOOK", "LESS", "GIT_PREFIX", "DELTA_VERIF_FORCE_GUESS",
              "DELTA_VERIF_SCHEDULE", "DELTA_CALLING_PROCESS_QUERY_ALL"):
        e.pop(k, None)
    e["HOME"] = os.path.join(wd, "home")
    e["GIT_CONFIG_NOSYSTEM"] = "1"
    e["PATH"] = os.path.join(wd, "bin") + os.pathsep + e.get("PATH", "")
    log = os.path.join(wd, "log-%s" % tag)
    if os.path.exists(log):
        os.remove(log)
    e["DELTA_VERIF_SCHEDULE_LOG"] = log
    if schedule:
        e["DELTA_VERIF_SCHEDULE"] = schedule
        e["DELTA_VERIF_SCHEDULE_TIMEOUT_MS"] = str(timeout_ms)
        e["DELTA_VERIF_SCHEDULE_SETTLE_MS"] = str(settle_ms)
    if sc["guess"] is not None:
        e["DELTA_VERIF_FORCE_GUESS"] = sc["guess"]
        cmd, exe = [ctx.delta, "--no-gitconfig"] + sc["args"], None
    else:
        e["C20_DELTA"] = ctx.delta
        cmd, exe = ["git", os.path.join(wd, "fakegit.py"), "show", "--word-diff"], sys.executable
    try:
        io = dict(stdin=subprocess.DEVNULL) if sc["stdin"] is None else dict(input=sc["stdin"])
        p = subprocess.run(cmd, executable=exe, stdout=subprocess.PIPE, stderr=subprocess.PIPE,
                           env=e, timeout=RUN_TIMEOUT, cwd=wd, **io)
        rc, out, err = p.returncode, p.stdout, p.stderr
    except subprocess.TimeoutExpired as ex:
        rc, out, err = "timeout", ex.stdout or b"", ex.stderr or b""
    lines = open(log).read().split("\n") if os.path.exists(log) else []
    if os.path.exists(log):
        os.remove(log)
    return dict(rc=rc, stdout=out, stderr=err.decode("utf-8", "replace")[-400:], log=[ln for ln in lines if ln])


def parse_log(lines):
    """-> dict(events=[gate names granted in order], free=[...], guess, known, queries=[(k, [check values], returned)], infeasible)."""
    r = dict(events=[], guess=None, known=None, queries={}, order=[], infeasible=None)
    for ln in lines:
        w = ln.split(" ", 2)
        if w[0] == "ev":
            r["events"].append(w[2])
        elif w[0] == "guess":
            r["guess"] = ln[len("guess "):]
        elif w[0] == "known":
            r["known"] = ln[len("known "):]
            r["order"].append("known")
        elif w[0] == "check":
            k = int(w[1][1:])
            r["queries"].setdefault(k, dict(checks=[], ret=False))["checks"].append(w[2])
        elif w[0] == "ret":
            k = int(w[1][1:])
            r["queries"].setdefault(k, dict(checks=[], ret=False))["ret"] = True
            r["order"].append("ret%d" % k)
        elif w[0] == "INFEASIBLE":
            r["infeasible"] = ln
    return r


def oracle(rep, scen, schedule, run, parsed, reference_out):
    """The property, judged on one run of the implementation. Returns list of failure tags."""
    bad = []
    replay = dict(scenario=scen, schedule=schedule, rc=run["rc"], log=run["log"][-60:], stderr=run["stderr"],
                  stdout_sha=sha(run["stdout"])[:12], stdout_len=len(run["stdout"]),
                  reference_sha=sha(reference_out)[:12] if reference_out is not None else None)

    def v(tag, what):
        bad.append(tag)
        sig = "c20:%s:%s" % (scen, tag)
        rep.count("oracle-failure:" + sig)
        if sig not in _REPORTED:       # one replay per signature (Report keeps at most 50 entries)
            _REPORTED.add(sig)
            rep.violation(sig, what, replay)

    if run["rc"] == "timeout":
        v("blocks-forever", "delta did not terminate within %d s under the forced schedule" % RUN_TIMEOUT)
    published = parsed["known"] is not None
    before_pub = set()
    for o in parsed["order"]:
        if o == "known":
            break
        before_pub.add(int(o[3:]))
    for k in sorted(parsed["queries"]):
        q = parsed["queries"][k]
        if not q["ret"]:
            continue
        res = q["checks"][-1] if q["checks"] else None
        if res is None:
            continue
        if res == "Pending":
            v("pending-returned", "query %d returned Pending" % k)
        elif published and k in before_pub and res != parsed["known"]:
            v("query-before-publication",
              "delta launched the command itself (%r) but query %d was answered before set_calling_process "
              "published it and returned the background guess %r" % (parsed["known"], k, res))
        elif published and res != parsed["known"]:
            v("guess-after-publication",
              "query %d returned %r although %r had been published by set_calling_process" % (k, res, parsed["known"]))
        elif not published and parsed["guess"] is not None and res != parsed["guess"]:
            v("stale-answer", "query %d returned %r, the background determination gave %r" % (k, res, parsed["guess"]))
    if run["rc"] not in ("timeout", 96):
        if run["rc"] != 0:
            v("exit-status", "exit status %r" % (run["rc"],))
        elif reference_out is not None and run["stdout"] != reference_out:
            v("behaviour-differs", "stdout differs from the reference run of the same command (rendering depends on the schedule)")
    return bad


def model_values(parsed):
    """Map implementation values to the model's abstract ones (guess = v1, known = v2)."""
    def f(x):
        if x == "Pending":
            return "pending"
        if parsed["known"] is not None and x == parsed["known"]:
            return "v2"
        if parsed["guess"] is not None and x == parsed["guess"]:
            return "v1"
        return "other(%s)" % x
    return f


def case(ctx, rep, mdl, wd, scen, schedule, kind, idx, reference_out, timeout_ms, nq=NQ):
    sc = SCENARIOS[scen]
    run = run_bin(ctx, wd, scen, schedule, "%s-%s-%d" % (scen, kind, idx), timeout_ms=timeout_ms)
    parsed = parse_log(run["log"])
    want = schedule.split(",")
    impl_feasible = run["rc"] != 96 and parsed["events"] == want
    bad = oracle(rep, scen, schedule, run, parsed, reference_out)
    res = dict(scenario=scen, kind=kind, schedule=schedule, rc=run["rc"], impl_feasible=impl_feasible,
               infeasible=parsed["infeasible"], oracle_failures=bad)
    f = model_values(parsed)
    checks = []
    for k in sorted(parsed["queries"]):
        if k <= nq:
            checks += ["%d:%s" % (k, f(c)) for c in parsed["queries"][k]["checks"]]
    results = [f(parsed["queries"][k]["checks"][-1]) for k in sorted(parsed["queries"])
               if k <= nq and parsed["queries"][k]["ret"] and parsed["queries"][k]["checks"]]
    res.update(impl_checks=";".join(checks), impl_results=",".join(results), nqueries=len(parsed["queries"]))
    return res


def model_ask(mdl, scen, items):
    """items: [(schedule, nq)]"""
    known = "2" if SCENARIOS[scen]["known"] else "-"
    return mdl.ask(["caller.run 1 %s %d %s" % (known, nq, hx(s)) for s, nq in items])


def model_fields(ans):
    d = {}
    for w in ans.split()[2:]:
        if "=" in w:
            k, v = w.split("=", 1)
            d[k] = v
    return d


def random_merges(ctx, scen, feasible, n):
    """Random interleavings of the per-thread gate orders (most are impossible)."""
    out = []
    for _ in range(n):
        base = ctx.rng.choice(feasible).split(",")
        b = [e for e in base if e.startswith("b")]
        if ctx.rng.random() < 0.5:
            b = ["b.compute", "b.lock", "b.load"] + (["b.store"] if ctx.rng.random() < 0.7 else []) + ["b.notify", "b.unlock"]
        m = [e for e in base if not e.startswith("b")]
        merged = []
        while b or m:
            src = b if (b and (not m or ctx.rng.random() < 0.5)) else m
            merged.append(src.pop(0))
        out.append(",".join(merged))
    return out


def sure_verdict(model_answer, schedule):
    """Model verdicts whose counterpart on the binary is unambiguous. The binary's scheduler
    is lenient where the model's executor is strict: a gate that the rest of the schedule
    does not name passes freely, and a `lock` gate stands before the lock attempt, so
    * a `mismatch` is surely infeasible on the binary only if the gate the thread really
      stands at is named later in the schedule (or the thread stands at no gate at all);
    * a `blocked` lock is surely infeasible only if the blocked thread's next gate follows
      at once."""
    w = model_answer.split()
    if w[:2] == ["ok", "feasible"]:
        return "feasible"
    if w[:2] == ["ok", "infeasible"]:
        i, why = int(w[2]), w[3]
        ev = schedule.split(",")
        if why == "mismatch":
            at = w[4] if len(w) > 4 else "-"
            return "infeasible" if (at == "-" or at in ev[i:]) else None
        if i + 1 < len(ev) and ev[i + 1].startswith("b") == ev[i].startswith("b"):
            return "infeasible"
    return None


def run(ctx, rep):
    rep.rule = ("every gate schedule of the model (Caller.enumGates, %d forced queries) x 5 scenarios (delta rg, delta git blame, "
                "stdin with pinned guess, stdin with no caller, stdin under a parent process named git with the real scan), "
                "plus schedules the model rules out (variant traces, random merges); distinct by (scenario, schedule); "
                "non-trivial = both threads take part in the forced order" % NQ)
    rep.extra_trusted += ["std::sync Mutex/Condvar and the Rust memory model (the model is sequentially consistent at statement granularity)",
                          "ordering-point hooks in src/utils/process.rs (cfg(dandavison_delta_verif)) and their scheduler",
                          "tools/extractors/caller.py (statement-order extraction)",
                          "tools/extractors/callerqueries.py (call graph by name: no type resolution; `.into()` and friends resolved to "
                          "the conversions whose target type is named in the calling function; calls through stored function values "
                          "and from foreign crates not seen)"]
    rep.assumptions += ["only the main thread calls calling_process(); a query's critical section does not call calling_process() again",
                        "the real code is exercised on the forced schedules (and unforced stress runs in the thorough tier) only; all other schedules are covered by the proof over the model"]
    mdl = ctx.model("drv_caller") if ctx.drivers_ok else None
    wd = workdir()
    try:
        _run(ctx, rep, mdl, wd)
    finally:
        shutil.rmtree(wd, ignore_errors=True)



# ---------------------------------------------------------------------------------------------
# Subcommand mode on a real repository: `delta git diff --word-diff …`, `delta git grep …`, `delta rg …`
# (real git / rg). The launched command must be what EVERY query sees, from the first one (made
# while the configuration is built: `is_word_diff`, cached for the process) on.

REPO_SCRIPT = r"""set -e
git init -q -b main .
printf -- '- first item\n  indented words here\n+ plus line\nplain\n' > notes.txt
printf 'fn main() {\n    let words = 1;\n}\n' > a.rs
git add . && git commit -q -m one
printf -- '- first item\n  indented WORDS here\n+ plus line\nplain text\n' > notes.txt
printf 'fn main() {\n    let words = 2;\n}\n' > a.rs
git commit -q -a -m two
"""

# name -> (delta options, launched command, is a word diff)
SUBCOMMANDS = {
    "git-diff--word-diff": (["--line-numbers"], ["git", "diff", "--word-diff", "HEAD~1", "--", "notes.txt"], True),
    "git-diff--color-words": (["--side-by-side"], ["git", "diff", "--color-words", "HEAD~1", "--", "notes.txt"], True),
    "git-show--word-diff-regex": (["--line-numbers"], ["git", "show", "--word-diff-regex=.", "HEAD", "--", "notes.txt"], True),
    "git-log--word-diff": (["--line-numbers"], ["git", "log", "-p", "-1", "--word-diff", "--", "notes.txt"], True),
    "git-diff": (["--line-numbers"], ["git", "diff", "HEAD~1"], False),
    "git-grep": ([], ["git", "grep", "-n", "words"], False),
    "rg": ([], ["rg", "words"], False),
    # T18: options whose processing consults (or could be made to consult) the calling process x launched word diffs
    # (--word-diff=porcelain is used in SHOWCONFIG only: its lines end in blanks, which the shown-lines comparison strips)
    "sbs:git-diff--word-diff-plain": (["--side-by-side"], ["git", "diff", "--word-diff=plain", "HEAD~1", "--", "notes.txt"], True),
    "feature-sbs:git-diff--word-diff": (["--features", "side-by-side"], ["git", "diff", "--word-diff", "HEAD~1", "--", "notes.txt"], True),
    "feature-ln:git-show--color-words": (["--features", "line-numbers"], ["git", "show", "--color-words", "HEAD", "--", "notes.txt"], True),
    "ln+sbs+hyperlinks:git-diff--word-diff": (["--line-numbers", "--side-by-side", "--hyperlinks"],
                                             ["git", "diff", "--word-diff", "HEAD~1", "--", "notes.txt"], True),
    "ln+relative-paths+navigate:git-log--word-diff-regex": (["--line-numbers", "--relative-paths", "--navigate"],
                                                           ["git", "log", "-p", "-1", "--word-diff-regex=[a-z]+", "--", "notes.txt"], True),
    "sbs:git-diff": (["--side-by-side"], ["git", "diff", "HEAD~1"], False),
}
# the configurations added for T18 run a fifth of the model schedules in the quick tier
REDUCED = {n for n in SUBCOMMANDS if ":" in n}
# `delta <options> --show-config <launched command>`: start-up only (run_app returns after show_config); the settings
# printed must be those of a word diff. name -> (options, command, word diff, line-numbers/side-by-side requested)
SHOWCONFIG = {
    "ln": (["--line-numbers"], ["git", "diff", "--word-diff", "HEAD~1"], True),
    "sbs": (["--side-by-side"], ["git", "diff", "--color-words", "HEAD~1"], True),
    "feature-sbs": (["--features", "side-by-side"], ["git", "show", "--word-diff-regex=.", "HEAD"], True),
    "feature-ln+navigate": (["--features", "line-numbers navigate"], ["git", "log", "-p", "--word-diff=porcelain"], True),
    "plain": ([], ["git", "diff", "--word-diff", "HEAD~1"], True),
    "ln:no-word-diff": (["--line-numbers", "--side-by-side"], ["git", "diff", "HEAD~1"], False),
    "sbs:rg": (["--side-by-side"], ["rg", "words"], False),
}
_GRAPH = {}
# what delta really executes for a launched command (subcommands/external.rs)
LAUNCH_PREFIX = {"git": ["git", "-c", "color.ui=always"], "rg": ["rg", "--json"]}
# Violating trace of Caller.stepMainLatePub (C20.late_publication_violates_known_wins): first query before the publication
ATTACK_LATE_PUB = ("q1.lock,q1.check,b.compute,b.lock,b.load,b.store,b.notify,b.unlock,q1.check,"
                   "m.lock,m.store,m.flag,m.notify,m.unlock,q2.lock,q2.check")

import re as _re
_SGR = _re.compile(r"\x1b\[[0-9;]*[mK]")


def sub_env(wd, extra=None):
    e = dict(os.environ)
    for k in list(e):
        if k.startswith("GIT_") or k.startswith("DELTA_") or k in ("PAGER", "BAT_PAGER", "BAT_THEME", "COLORTERM", "LESS", "COLUMNS"):
            e.pop(k)
    e.update(HOME=os.path.join(wd, "home"), GIT_CONFIG_NOSYSTEM="1", GIT_CONFIG_GLOBAL="/dev/null", TERM="xterm-256color",
             GIT_AUTHOR_NAME="a", GIT_AUTHOR_EMAIL="a@example.invalid", GIT_COMMITTER_NAME="a",
             GIT_COMMITTER_EMAIL="a@example.invalid", GIT_AUTHOR_DATE="2020-01-01T00:00:00Z",
             GIT_COMMITTER_DATE="2020-01-01T00:00:00Z")
    e.update(extra or {})
    return e


def make_repo(wd):
    d = os.path.join(wd, "repo")
    if os.path.isdir(d):
        return d
    os.makedirs(d)
    p = subprocess.run(["sh", "-c", REPO_SCRIPT], cwd=d, env=sub_env(wd), stdout=subprocess.PIPE, stderr=subprocess.STDOUT, text=True)
    return d if p.returncode == 0 else None


def sub_run(ctx, wd, name, mode, schedule, tag, guess="none"):
    """mode 'launch': `delta <opts> <cmd…>`; mode 'piped': `<real cmd> | delta <opts>` with the caller pinned."""
    opts, cmd, _ = SUBCOMMANDS[name]
    real = LAUNCH_PREFIX[cmd[0]] + cmd[1:]
    repo = os.path.join(wd, "repo")
    log = os.path.join(wd, "log-" + tag)
    if os.path.exists(log):
        os.remove(log)
    extra = {"DELTA_VERIF_SCHEDULE_LOG": log}
    try:
        if mode == "launch":
            extra["DELTA_VERIF_FORCE_GUESS"] = guess
            if schedule:
                extra.update(DELTA_VERIF_SCHEDULE=schedule, DELTA_VERIF_SCHEDULE_TIMEOUT_MS="6000", DELTA_VERIF_SCHEDULE_SETTLE_MS="20")
            p = subprocess.run([ctx.delta, "--no-gitconfig", "--width=80"] + opts + cmd, cwd=repo, env=sub_env(wd, extra),
                               stdin=subprocess.DEVNULL, stdout=subprocess.PIPE, stderr=subprocess.PIPE, timeout=RUN_TIMEOUT)
        else:
            src = subprocess.run(real, cwd=repo, env=sub_env(wd), stdin=subprocess.DEVNULL, stdout=subprocess.PIPE,
                                 stderr=subprocess.PIPE, timeout=RUN_TIMEOUT)
            extra["DELTA_VERIF_FORCE_GUESS"] = " ".join(real)
            p = subprocess.run([ctx.delta, "--no-gitconfig", "--width=80"] + opts, cwd=repo, env=sub_env(wd, extra),
                               input=src.stdout, stdout=subprocess.PIPE, stderr=subprocess.PIPE, timeout=RUN_TIMEOUT)
        rc, out, err = p.returncode, p.stdout, p.stderr
    except subprocess.TimeoutExpired as ex:
        rc, out, err = "timeout", ex.stdout or b"", ex.stderr or b""
    lines = open(log).read().split("\n") if os.path.exists(log) else []
    if os.path.exists(log):
        os.remove(log)
    return dict(rc=rc, stdout=out, stderr=err.decode("utf-8", "replace")[-400:], log=[ln for ln in lines if ln])


def hunk_lines_git_printed(wd, name):
    """The hunk lines exactly as the launched git command prints them (colours removed)."""
    opts, cmd, _ = SUBCOMMANDS[name]
    p = subprocess.run(LAUNCH_PREFIX[cmd[0]] + cmd[1:], cwd=os.path.join(wd, "repo"), env=sub_env(wd),
                       stdin=subprocess.DEVNULL, stdout=subprocess.PIPE, stderr=subprocess.PIPE)
    lines = [_SGR.sub("", ln) for ln in p.stdout.decode("utf-8", "replace").split("\n")]
    at = [i for i, ln in enumerate(lines) if ln.startswith("@@")]
    return [ln for ln in lines[at[0] + 1:] if ln != ""] if at else None


def sub_oracle(rep, name, mode_desc, schedule, run, want_lines, piped_out):
    opts, cmd, word = SUBCOMMANDS[name]
    scen = "sub:" + name
    parsed = parse_log(run["log"])
    shown = [_SGR.sub("", ln).rstrip() for ln in run["stdout"].decode("utf-8", "replace").split("\n")]
    if shown and shown[-1] == "":
        shown.pop()
    replay = dict(scenario=scen, command=["delta", "--no-gitconfig", "--width=80"] + opts + cmd, schedule=schedule,
                  pinned_guess="none", repository_script=REPO_SCRIPT, rc=run["rc"], log=run["log"][-40:],
                  stderr=run["stderr"], shown_tail=shown[-8:], git_printed=want_lines, run=mode_desc)
    bad = []

    def v(tag, what):
        bad.append(tag)
        sig = "c20:%s:%s" % (scen, tag)
        rep.count("oracle-failure:" + sig)
        if sig not in _REPORTED:
            _REPORTED.add(sig)
            rep.violation(sig, what, replay)

    if run["rc"] == "timeout":
        v("blocks-forever", "delta did not terminate within %d s" % RUN_TIMEOUT)
        return bad
    before_pub = set()
    for o in parsed["order"]:
        if o == "known":
            break
        before_pub.add(int(o[3:]))
    for k in sorted(parsed["queries"]):
        q = parsed["queries"][k]
        if not (q["ret"] and q["checks"]):
            continue
        res = q["checks"][-1]
        if res == "Pending":
            v("pending-returned", "query %d returned Pending" % k)
        elif parsed["known"] is None or k in before_pub:
            v("query-before-publication", "delta launched `%s` itself but query %d was answered (%r) before the launched "
              "command was published" % (" ".join(cmd), k, res))
        elif res != parsed["known"]:
            v("guess-after-publication", "query %d returned %r although %r had been published" % (k, res, parsed["known"]))
    if run["rc"] == 96:
        return bad
    if run["rc"] != 0:
        v("exit-status", "exit status %r" % (run["rc"],))
        return bad
    if word and want_lines:
        got = shown[-len(want_lines):]
        if got != want_lines:
            v("word-diff-lines-altered", "`delta %s`: the word-diff hunk lines are not shown as git printed them "
              "(got %r, git printed %r): the launched command was not what the first query saw" % (" ".join(opts + cmd), got, want_lines))
        elif any("⋮" in ln for ln in shown):
            v("word-diff-line-numbers", "`delta %s`: line numbers shown for a word diff" % " ".join(opts + cmd))
    if piped_out is not None and run["stdout"] != piped_out:
        v("differs-from-piped", "`delta %s` renders differently from `%s | delta` with that caller pinned"
          % (" ".join(opts + cmd), " ".join(LAUNCH_PREFIX[cmd[0]] + cmd[1:])))
    return bad


def subcommand_mode(ctx, rep, mdl, wd, schedules):
    if make_repo(wd) is None:
        rep.notes["subcommand_mode"] = "scratch repository could not be created (git missing?) - skipped"
        return
    jobs = []
    for name in SUBCOMMANDS:
        want = hunk_lines_git_printed(wd, name) if SUBCOMMANDS[name][2] else None
        piped = sub_run(ctx, wd, name, "piped", None, "sub-piped-" + name)
        piped_out = piped["stdout"] if piped["rc"] == 0 else None
        if piped_out is None:
            rep.notes.setdefault("subcommand_piped_failed", []).append(name)
        for i in range(ctx.n(3, 10)):
            jobs.append((name, "unforced run %d" % (i + 1), None, want, piped_out))
        sel = schedules if (not ctx.quick() or (SUBCOMMANDS[name][2] and name not in REDUCED)) else schedules[::5]
        for s in sel:
            jobs.append((name, "forced schedule", s, want, piped_out))
        jobs.append((name, "attack:late-publication", ATTACK_LATE_PUB, want, piped_out))

    def one(ij):
        i, (name, desc, sched, want, piped_out) = ij
        r = sub_run(ctx, wd, name, "launch", sched, "sub-%d" % i)
        bad = sub_oracle(rep, name, desc, sched or "", r, want, piped_out)
        pl = parse_log(r["log"])
        ev = pl["events"]
        early = pl["order"].index("known") if "known" in pl["order"] else len(pl["order"])
        return name, desc, sched, r["rc"], bad, (sched is None or ev == sched.split(",")), early

    for name, desc, sched, rc, bad, completed, early in parallel_map(one, list(enumerate(jobs)), workers=12):
        if _GRAPH.get("prequery") is not None and rc == 0:
            # the call graph says how many query primitives the statements before the publication can reach (none):
            # the run must not have started a query before the `known` log line
            rep.corr_case("caller.prequery", (early > 0) == (_GRAPH["prequery"] > 0),
                          dict(scenario="sub:" + name, run=desc, schedule=sched, queries_before_publication=early,
                               model_query_primitives_reachable_before_publication=_GRAPH["prequery"]))
        rep.case(key=("sub", name, desc, sched), nontrivial=True,
                 sample=dict(scenario="sub:" + name, run=desc, schedule=sched, rc=rc, failures=bad))
        kind = desc.split(" ")[0] if not desc.startswith("attack") else "attack"
        rep.count("sub:%s:%s:%s" % (name, kind, "rc=%s" % rc))
        if desc == "forced schedule":
            # every model schedule (publication first, then the queries) must be executable by the binary
            rep.corr_case("subcommand.schedule", completed and rc == 0,
                          dict(scenario="sub:" + name, schedule=sched, rc=rc, failures=bad))
        elif desc.startswith("attack"):
            # the model rules this order out (the first query never precedes the publication)
            rep.corr_case("subcommand.attack", rc == 96, dict(scenario="sub:" + name, schedule=sched, rc=rc, failures=bad))


def showconfig_mode(ctx, rep, mdl, wd):
    """Start-up only: `delta <options> --show-config <launched command>`. Every query comes after the publication and
    returns the launched command; a launched word diff is reported with line-numbers / side-by-side off."""
    if not os.path.isdir(os.path.join(wd, "repo")):
        return
    repo = os.path.join(wd, "repo")

    def one(name):
        opts, cmd, word = SHOWCONFIG[name]
        log = os.path.join(wd, "log-showconfig-" + name.replace(":", "_"))
        argv = [ctx.delta, "--no-gitconfig", "--width=80"] + opts + ["--show-config"] + cmd
        try:
            p = subprocess.run(argv, cwd=repo, env=sub_env(wd, {"DELTA_VERIF_SCHEDULE_LOG": log, "DELTA_VERIF_FORCE_GUESS": "none"}),
                               stdin=subprocess.DEVNULL, stdout=subprocess.PIPE, stderr=subprocess.PIPE, timeout=RUN_TIMEOUT)
            rc, out, err = p.returncode, p.stdout, p.stderr
        except subprocess.TimeoutExpired as ex:
            rc, out, err = "timeout", ex.stdout or b"", ex.stderr or b""
        lines = [ln for ln in (open(log).read().split("\n") if os.path.exists(log) else []) if ln]
        return name, rc, out.decode("utf-8", "replace"), err.decode("utf-8", "replace")[-300:], lines

    for name, rc, out, err, log in parallel_map(one, list(SHOWCONFIG), workers=4):
        opts, cmd, word = SHOWCONFIG[name]
        scen = "showconfig:" + name
        parsed = parse_log(log)
        settings = {}
        for ln in out.split("\n"):
            m = _re.match(r"\s+([a-z-]+)\s+= (.*)$", _SGR.sub("", ln))
            if m:
                settings[m.group(1)] = m.group(2).strip()
        replay = dict(scenario=scen, command=["delta", "--no-gitconfig", "--width=80"] + opts + ["--show-config"] + cmd,
                      schedule="", pinned_guess="none", repository_script=REPO_SCRIPT, rc=rc, log=log[-40:], stderr=err,
                      settings={k: settings.get(k) for k in ("line-numbers", "side-by-side")}, run="show-config")
        bad = []

        def v(tag, what):
            bad.append(tag)
            sig = "c20:%s:%s" % (scen, tag)
            rep.count("oracle-failure:" + sig)
            if sig not in _REPORTED:
                _REPORTED.add(sig)
                rep.violation(sig, what, replay)

        early = parsed["order"].index("known") if "known" in parsed["order"] else len(parsed["order"])
        nq = len([k for k, q in parsed["queries"].items() if q["ret"]])
        if rc == "timeout":
            v("blocks-forever", "delta did not terminate within %d s" % RUN_TIMEOUT)
        elif rc != 0:
            v("exit-status", "exit status %r" % (rc,))
        else:
            if parsed["known"] is None:
                v("not-published", "delta launched `%s` itself but published no command" % " ".join(cmd))
            for k in sorted(parsed["queries"]):
                q = parsed["queries"][k]
                if not (q["ret"] and q["checks"]):
                    continue
                if q["checks"][-1] == "Pending":
                    v("pending-returned", "query %d returned Pending" % k)
                elif parsed["known"] is not None and q["checks"][-1] != parsed["known"]:
                    v("guess-after-publication" if early == 0 else "query-before-publication",
                      "query %d made while the configuration was built returned %r, the launched command is %r"
                      % (k, q["checks"][-1], parsed["known"]))
            if early > 0:
                v("query-before-publication", "%d quer%s started before the launched command `%s` was published (options %s)"
                  % (early, "y" if early == 1 else "ies", " ".join(cmd), " ".join(opts)))
            want = "false" if word else "true"
            asked = [k for k in ("line-numbers", "side-by-side")
                     if ("--" + k) in opts or any(k in o for o in opts if not o.startswith("--"))]
            if "side-by-side" in asked and "line-numbers" not in asked:
                asked.append("line-numbers")      # side-by-side switches line numbers on
            for k in asked:
                if settings.get(k) != want:
                    v("word-diff-settings", "`delta %s --show-config %s` reports %s = %s (expected %s: the launched command is %sa "
                      "word diff)" % (" ".join(opts), " ".join(cmd), k, settings.get(k), want, "" if word else "not "))
        rep.case(key=("showconfig", name), nontrivial=True, sample=dict(scenario=scen, rc=rc, queries=nq, early=early, failures=bad,
                                                                        settings=replay["settings"]))
        rep.count("showconfig:%s:queries=%d" % (name, nq))
        if _GRAPH.get("prequery") is not None and rc == 0:
            rep.corr_case("caller.prequery", (early > 0) == (_GRAPH["prequery"] > 0),
                          dict(scenario=scen, queries_before_publication=early,
                               model_query_primitives_reachable_before_publication=_GRAPH["prequery"]))
            # queries were made during start-up => the graph must say that a statement executed there can query
            rep.corr_case("caller.startup_queries", nq == 0 or _GRAPH.get("config_can_query", False),
                          dict(scenario=scen, queries=nq, model_config_from_can_query=_GRAPH.get("config_can_query")))


def graph_check(ctx, rep, mdl):
    """The call graph of REPO now (tools/extractors/callerqueries.py), judged in Python — the same facts are the theorems
    C20.no_query_before_publication / startup_order_from_call_graph / first_answer_is_cached_after_publication; this copy does
    not depend on the shared Generated/ directory and names the offending call chain — and compared with what the model
    driver computes on the generated graph (`caller.graph`, `caller.reach`: CallGraph.closure on bit sets)."""
    import importlib.util
    from ..core import REPO, ROOT
    spec = importlib.util.spec_from_file_location("extractor_callerqueries", os.path.join(ROOT, "tools", "extractors", "callerqueries.py"))
    ex = importlib.util.module_from_spec(spec)
    spec.loader.exec_module(ex)
    try:
        ex.gen(REPO)
    except SystemExit as e:
        rep.broken_proofs.append("call graph of the start-up phase not recognised: %s" % e)
        return
    g = ex.gen.last
    keys, adj, prims = g["keys"], g["adj"], set(g["prims"])

    def closure(roots):
        seen, st = {}, [(r, None) for r in roots]
        while st:
            x, frm = st.pop()
            if x in seen:
                continue
            seen[x] = frm
            st.extend((y, x) for y in adj[x])
        return seen

    def chain(seen, x):
        out = []
        while x is not None:
            out.append(keys[x])
            x = seen[x]
        return " <- ".join(out)

    pre_hits = 0
    pre_bits, post_bits = "", ""
    for label, roots in g["pre"] + [("implicitly called trait methods (Drop, Display, ...)", g["implicit"])]:
        seen = closure(roots)
        hit = sorted(p for p in prims if p in seen)
        if label.startswith(("main:", "run_app:")):
            pre_bits += "1" if hit else "0"
        for pnode in hit:
            pre_hits += 1
            rep.broken_proofs.append("C20.no_query_before_publication / C20.first_answer_is_cached_after_publication: `%s`, which runs BEFORE "
                                     "set_calling_process publishes the launched command, can query the calling process: %s"
                                     % (label, chain(seen, pnode)))
    for label, roots in g["post"]:
        post_bits += "1" if prims & set(closure(roots)) else "0"
    caches = [keys[c] for c in g["lazies"] if prims & set(closure([c]))]
    cfg = keys.index("config::Config::from") if "config::Config::from" in keys else None
    _GRAPH.update(prequery=pre_hits, config_can_query=bool(cfg is not None and prims & set(closure([cfg]))))
    rep.notes["call_graph"] = dict(nodes=len(keys), edges=sum(len(a) for a in adj), query_primitives=[keys[p] for p in sorted(prims)],
                                   caches_filled_by_a_query=caches, statements_before_publication=[l for l, _ in g["pre"]],
                                   can_query_before=pre_bits, can_query_after=post_bits)
    if mdl is None:
        return
    ans = mdl.ask(["caller.graph"])[0]
    if not ans.startswith("ok "):
        rep.corr_case("caller.graph", False, dict(answer=ans[:200]))
        return
    f = dict(w.split("=", 1) for w in ans.split()[1:])
    mine = dict(nodes=str(len(keys)), sep="0" if pre_hits else "1", pre=pre_bits, post=post_bits, caches=",".join(caches) or "-")
    for k, val in mine.items():
        rep.corr_case("caller.graph", f.get(k) == val, dict(field=k, python=val, model=f.get(k)))
    startup = f.get("startup", "").split(",")
    shape = mdl.ask(["caller.shape"])[0]
    want = dict(w.split("=", 1) for w in shape.split()[1:]).get("startup", "").split(",")
    if startup != want and not pre_hits:
        rep.broken_proofs.append("C20.startup_order_from_call_graph: by the call graph main.rs executes %s, the model %s" % (startup, want))
    pick = sorted(ctx.rng.sample(range(len(keys)), min(len(keys), ctx.n(40, 400))))
    answers = mdl.ask(["caller.reach " + hx(keys[i]) for i in pick])
    for i, a in zip(pick, answers):
        seen = closure([i])
        mine = "ok %d %d" % (1 if prims & set(seen) else 0, len(seen))
        rep.corr_case("caller.reach", a == mine, dict(node=keys[i], python=mine, model=a))
        rep.case(key=("reach", keys[i]), nontrivial=len(seen) > 1, sample=dict(node=keys[i], can_query=bool(prims & set(seen)), closure=len(seen)))
    # the process-lifetime cache: CallGraph.answers / queriesMade against the lazy_static rule written out here
    reqs, exp = [], []
    for _ in range(ctx.n(12, 120)):
        acc = "".join(ctx.rng.choice("cd") for _ in range(ctx.rng.randint(0, 7)))
        res = [ctx.rng.choice([1, 2]) for _ in range(ctx.rng.randint(0, 6))]
        cache, out, left, made, short = None, [], list(res), 0, False
        need, c2 = 0, False
        for a in acc:
            if a == "d" or not c2:
                need += 1
            if a == "c":
                c2 = True
        for a in acc:
            if a == "c" and cache is not None:
                out.append(cache)
                continue
            if not left:
                short = True
                break
            r = left.pop(0)
            if a == "c":
                cache = r
            out.append(r)
        reqs.append("caller.answers %s %s" % (hx(acc), ",".join("v%d" % r for r in res) or "-"))
        exp.append("ok made=%d %s" % (need, "short" if short else ",".join("v%d" % r for r in out)))
    for rq, e, a in zip(reqs, exp, mdl.ask(reqs)):
        rep.corr_case("caller.answers", a.strip() == e.strip(), dict(request=rq, python=e, model=a))


def shape_check(ctx, rep, mdl):
    """Statement order extracted from REPO now vs the order the model executes. The same fact
    is a theorem (Props/C20.lean shape_*); this copy does not depend on the shared Generated/
    directory (which a concurrent check of another tree may rewrite between extraction and
    `lake build`) and names the differing list."""
    import importlib.util
    from ..core import REPO, ROOT
    spec = importlib.util.spec_from_file_location("extractor_caller", os.path.join(ROOT, "tools", "extractors", "caller.py"))
    ex = importlib.util.module_from_spec(spec)
    spec.loader.exec_module(ex)
    try:
        src = ex.strip_hooks_and_comments(ex.strip_tests(ex.read(REPO, "src/utils/process.rs")))
        got = dict(bg=ex.thread_closure(src), pub=ex.set_calling_process(src), query=ex.query(src),
                   startup=ex.startup(ex.strip_hooks_and_comments(ex.read(REPO, "src/main.rs"))))
    except SystemExit as e:
        rep.broken_proofs.append("shape of process.rs not recognised: %s" % e)
        return
    rep.notes["extracted_shape"] = got
    if mdl is None:
        return
    ans = mdl.ask(["caller.shape"])[0]
    want = {}
    for w in ans.split()[1:]:
        k, v = w.split("=", 1)
        want[k] = v.split(",")
    for k in ("bg", "pub", "query"):
        if got[k] != want.get(k):
            rep.broken_proofs.append("C20.shape_%s: process.rs executes %s, the model %s"
                                     % ({"bg": "background", "pub": "publication", "query": "query"}[k], got[k], want.get(k)))
    if got["startup"] != want.get("startup"):
        rep.broken_proofs.append("C20.startup_publication_precedes_first_query / C20.startup_known_wins: in subcommand mode "
                                 "main.rs executes %s, the model %s (the launched command must be published before "
                                 "anything can query)" % (got["startup"], want.get("startup")))


def _run(ctx, rep, mdl, wd):
    shape_check(ctx, rep, mdl)
    graph_check(ctx, rep, mdl)
    jobs = []       # (scen, schedule, kind, timeout)
    feas = {}
    refs = {}
    for scen, sc in SCENARIOS.items():
        r = run_bin(ctx, wd, scen, None, "ref-" + scen)
        p = parse_log(r["log"])
        if not r["log"]:
            # the binary has no ordering points: nothing can be forced or observed
            rep.broken_proofs.append("the build of %s has no C20 ordering points in src/utils/process.rs "
                                     "(notes/hooks-caller.diff not applied?): no schedule can be forced" % ctx.delta)
            return
        oracle(rep, scen, "", r, p, None)
        refs[scen] = r["stdout"] if r["rc"] == 0 else None
        rep.count("reference:%s:queries=%d" % (scen, len(p["queries"])))
        if sc["guess"] is None:
            rep.notes["fakegit_guess"] = p["guess"]
        if mdl is None:
            # no model driver: still force a fixed set of schedules so the direct oracle runs
            scheds = ["b.compute,b.lock,b.load,b.store,b.notify,b.unlock,q1.lock,q1.check,q2.lock,q2.check"]
        else:
            ans = mdl.ask(["caller.enum 1 %s %d" % ("2" if sc["known"] else "-", NQ)])[0]
            scheds = ans.split(" ", 2)[2].split("|") if ans.startswith("ok ") else []
            if not scheds or any("STUCK" in s or "FUEL" in s for s in scheds):
                rep.corr_case("caller.enum", False, dict(scenario=scen, answer=ans[:300]))
                scheds = [s for s in scheds if "STUCK" not in s and "FUEL" not in s]
        feas[scen] = scheds
        if scen == "stdin-fakegit" and ctx.quick():
            scheds = scheds[:2] + scheds[-1:]
        for s in scheds:
            jobs.append((scen, s, "model-schedule", 6000, NQ))
        if scen == "rg" and not ctx.quick() and mdl is not None:
            # the rg scenario makes 4 queries: force the ordering points of three of them
            ans = mdl.ask(["caller.enum 1 2 3"])[0]
            for s in (ans.split(" ", 2)[2].split("|") if ans.startswith("ok ") else []):
                jobs.append((scen, s, "model-schedule-3q", 6000, 3))
        if scen in ("rg", "stdin-guess"):
            for name, s in ATTACKS.items():
                if ("m." in s) == sc["known"]:
                    jobs.append((scen, s, "attack:" + name, 700, NQ))
            for s in random_merges(ctx, scen, scheds, ctx.n(6, 60)) if scheds else []:
                jobs.append((scen, s, "random-merge", 700, NQ))
    # de-duplicate
    seen, uniq = set(), []
    for j in jobs:
        if (j[0], j[1]) not in seen:
            seen.add((j[0], j[1]))
            uniq.append(j)
    jobs = uniq

    results = parallel_map(lambda ij: case(ctx, rep, mdl, wd, ij[1][0], ij[1][1], ij[1][2], ij[0], refs[ij[1][0]], ij[1][3], ij[1][4]),
                           list(enumerate(jobs)), workers=12)
    by_scen = {}
    for (scen, s, kind, _, nq), res in zip(jobs, results):
        by_scen.setdefault(scen, []).append((s, kind, res, nq))
    for scen, items in by_scen.items():
        answers = model_ask(mdl, scen, [(s, nq) for s, _, _, nq in items]) if mdl else [None] * len(items)
        for (s, kind, res, _), ans in zip(items, answers):
            both = any(e.startswith("b") for e in s.split(",")) and any(not e.startswith("b") for e in s.split(","))
            rep.case(key=(scen, s), nontrivial=both,
                     sample=dict(scenario=scen, kind=kind, schedule=s, rc=res["rc"], results=res["impl_results"],
                                 checks=res["impl_checks"], queries=res["nqueries"]))
            rep.count("%s:%s:%s" % (scen, kind.split(":")[0], "feasible" if res["impl_feasible"] else "infeasible"))
            if ans is None:
                continue
            verdict = sure_verdict(ans, s)
            info = dict(scenario=scen, kind=kind, schedule=s, model=ans, impl=res)
            if verdict is None:
                rep.count("model-verdict-not-comparable")
                continue
            if verdict == "feasible":
                mf = model_fields(ans)
                agree = (res["impl_feasible"] and res["impl_results"] == mf.get("results", "")
                         and res["impl_checks"] == mf.get("checks", ""))
                rep.corr_case("caller.run", agree, info)
            else:
                rep.corr_case("caller.run", not res["impl_feasible"], info)

    subcommand_mode(ctx, rep, mdl, wd, feas.get("rg") or [])
    showconfig_mode(ctx, rep, mdl, wd)
    scan_shape_check(ctx, rep, mdl)
    describe_mode(ctx, rep, mdl, wd, feas.get("stdin-none") or [])
    scan_mode(ctx, rep, mdl, wd, feas.get("stdin-none") or [])

    if not ctx.quick():
        stress(ctx, rep, wd, refs)


def stress(ctx, rep, wd, refs):
    """Unforced runs: whatever schedules the OS produces; direct oracle only."""
    scens = ["rg", "blame", "stdin-guess", "stdin-none", "stdin-fakegit"]
    n = 2000

    def one(i):
        scen = scens[i % len(scens)]
        r = run_bin(ctx, wd, scen, None, "stress-%d" % i)
        p = parse_log(r["log"])
        bad = oracle(rep, scen, "", r, p, refs[scen])
        # which schedule did the OS produce: was the background thread finished before the first query's check?
        idx = {ln.split(" ", 1)[0] + ":" + ln.split(" ")[1]: i for i, ln in reversed(list(enumerate(r["log"]))) if " " in ln}
        b, c = idx.get("done:b.done"), idx.get("check:q1")
        order = "bg-before-first-query" if (b is not None and c is not None and b < c) else "first-query-before-bg-done"
        return scen, bad, order

    for scen, bad, order in parallel_map(one, range(n)):
        rep.evaluations += 1
        rep.count("stress:%s:%s" % (scen, "ok" if not bad else "FAIL"))
        rep.count("stress-order:%s:%s" % (scen, order))


def replay(ctx, rep, obj):
    c = obj.get("case") or {}
    scen, schedule = c.get("scenario"), c.get("schedule")
    if isinstance(scen, str) and scen.startswith("sub:") and scen[4:] in SUBCOMMANDS:
        name = scen[4:]
        wd = workdir()
        try:
            if make_repo(wd) is None:
                return
            want = hunk_lines_git_printed(wd, name) if SUBCOMMANDS[name][2] else None
            piped = sub_run(ctx, wd, name, "piped", None, "piped")
            for i in range(3):
                r = sub_run(ctx, wd, name, "launch", schedule or None, "replay-%d" % i)
                bad = sub_oracle(rep, name, "replay", schedule or "", r, want, piped["stdout"] if piped["rc"] == 0 else None)
                rep.case(key=(scen, schedule, i), nontrivial=True,
                         sample=dict(scenario=scen, schedule=schedule, rc=r["rc"], log=r["log"][-40:], failures=bad))
        finally:
            shutil.rmtree(wd, ignore_errors=True)
        return
    if scen in ("scan", "describe"):
        return replay_scan(ctx, rep, c)
    if scen not in SCENARIOS:
        return run(ctx, rep)
    wd = workdir()
    try:
        ref = run_bin(ctx, wd, scen, None, "ref")
        for i in range(3):
            r = run_bin(ctx, wd, scen, schedule or None, "replay-%d" % i)
            p = parse_log(r["log"])
            bad = oracle(rep, scen, schedule or "", r, p, ref["stdout"] if ref["rc"] == 0 else None)
            rep.case(key=(scen, schedule, i), nontrivial=True,
                     sample=dict(scenario=scen, schedule=schedule, rc=r["rc"], log=r["log"][-40:], failures=bad))
    finally:
        shutil.rmtree(wd, ignore_errors=True)


# ---------------------------------------------------------------------------------------------
# The background determination itself: `describe_calling_process` on arbitrary command lines and the
# real process-table scan on hostile process tables. A panic there kills the thread before it takes
# the CALLER mutex: nothing is stored or notified and the first query waits for ever.

import signal as _signal

SCAN_TIMEOUT = 12   # seconds for the runs of describe_mode / scan_mode (an ordinary run takes well under a second)

LAUNCHER_C = r'''
/* c20-launcher: a chain of processes with ARBITRARY command lines between the check and delta.
 * Level 0 (top) is started by the check; level i execs level i+1 (this program again, with the argv the
 * chain file gives for that level); the last level starts delta with the input file on stdin.
 * Chain file lines:  "T <flags>"  top level,  "L <flags> x<hex> x<hex> ..."  one per level (outermost first),
 *                    "S x<hex> ..."  a sleeping process started right before the child by levels with flag s.
 * flags: z = leave a zombie child (exited, not reaped) before starting the child; s = start the sleeper;
 *        x<ms> = exit <ms> ms after starting the child instead of waiting for it (never for the top level).
 * The top level is a child subreaper: it outlives everything, reaps, and writes delta's exit status to C20_OUT. */
#define _GNU_SOURCE
#include <errno.h>
#include <fcntl.h>
#include <signal.h>
#include <stdio.h>
#include <stdlib.h>
#include <string.h>
#include <sys/prctl.h>
#include <sys/wait.h>
#include <unistd.h>

struct lvl { char flags[32]; char **argv; };
static struct lvl top, levels[16], sib;
static int nlevels, have_sib;

static int hv(int c) { return c >= '0' && c <= '9' ? c - '0' : c >= 'a' && c <= 'f' ? c - 'a' + 10 : -1; }

static char *unhex(const char *h) {
  size_t n = strlen(h);
  char *out = malloc(n / 2 + 2);
  size_t j = 0;
  if (*h != 'x') exit(120);
  for (size_t i = 1; h[i] && h[i + 1]; i += 2) out[j++] = (char)(hv(h[i]) * 16 + hv(h[i + 1]));
  out[j] = 0;
  return out;
}

static char **parse_args(char *rest) {
  size_t cap = 8, n = 0;
  char **v = malloc(cap * sizeof *v);
  for (char *t = strtok(rest, " "); t; t = strtok(NULL, " ")) {
    if (n + 2 > cap) { cap *= 2; v = realloc(v, cap * sizeof *v); }
    v[n++] = unhex(t);
  }
  v[n] = NULL;
  return v;
}

static void parse(const char *path) {
  FILE *f = fopen(path, "r");
  if (!f) exit(121);
  char *line = NULL; size_t cap = 0; ssize_t len;
  while ((len = getline(&line, &cap, f)) > 0) {
    if (line[len - 1] == '\n') line[len - 1] = 0;
    char *l = strdup(line);
    if (l[0] == 'T') { snprintf(top.flags, sizeof top.flags, "%s", l + 2); }
    else if (l[0] == 'L' && nlevels < 16) {
      char *fl = l + 2, *sp = strchr(fl, ' ');
      if (!sp) exit(122);
      *sp = 0;
      snprintf(levels[nlevels].flags, sizeof levels[nlevels].flags, "%s", fl);
      levels[nlevels].argv = parse_args(sp + 1);
      if (!levels[nlevels].argv[0]) exit(123);
      nlevels++;
    } else if (l[0] == 'S') { sib.argv = parse_args(l + 2); have_sib = sib.argv[0] != NULL; }
  }
  fclose(f);
}

int main(void) {
  const char *role = getenv("C20_ROLE");
  const char *sfd = getenv("C20_STATUSFD");
  if (role && !strcmp(role, "sleep")) {
    /* holds nothing of the run: neither the status pipe nor the pipes the check reads */
    if (sfd) close(atoi(sfd));
    int nul = open("/dev/null", O_RDWR);
    if (nul >= 0) { dup2(nul, 0); dup2(nul, 1); dup2(nul, 2); }
    sleep(120);
    return 0;
  }
  const char *self = getenv("C20_SELF"), *chain = getenv("C20_CHAINFILE"), *delta = getenv("C20_DELTA");
  const char *in = getenv("C20_STDIN"), *outp = getenv("C20_OUT");
  if (!self || !chain || !delta || !in || !outp) return 124;
  int level = atoi(getenv("C20_LEVEL") ? getenv("C20_LEVEL") : "0");
  parse(chain);
  int p[2] = {-1, -1}, statusfd;
  if (level == 0) {
    if (pipe(p)) return 125;
    statusfd = p[1];
    char b[16]; snprintf(b, sizeof b, "%d", statusfd); setenv("C20_STATUSFD", b, 1);
    prctl(PR_SET_CHILD_SUBREAPER, 1);
  } else statusfd = sfd ? atoi(sfd) : -1;
  const char *flags = level == 0 ? top.flags : levels[level - 1].flags;
  int last = level == nlevels;
  if (strchr(flags, 'z')) {
    /* wait until the child IS a zombie (exited, command line gone) but do not reap it */
    pid_t z = fork();
    if (z == 0) _exit(0);
    siginfo_t si;
    while (waitid(P_PID, (id_t)z, &si, WEXITED | WNOWAIT) < 0 && errno == EINTR) {}
  }
  if (strchr(flags, 's') && have_sib) {
    /* wait until the sleeper has exec'd (its command line is the sibling's, no longer a copy of ours):
       the close-on-exec pipe reports EOF then */
    int sp[2];
    if (pipe2(sp, O_CLOEXEC)) return 125;
    pid_t s = fork();
    if (s == 0) { close(sp[0]); setenv("C20_ROLE", "sleep", 1); execv(self, sib.argv); _exit(127); }
    close(sp[1]);
    char c;
    while (read(sp[0], &c, 1) < 0 && errno == EINTR) {}
    close(sp[0]);
  }
  pid_t child = fork();
  if (child < 0) return 126;
  if (child == 0) {
    if (last) {
      int fd = open(in, O_RDONLY);
      if (fd < 0) _exit(127);
      dup2(fd, 0); close(fd);
      if (p[0] >= 0) close(p[0]);
      char *dargv[] = {(char *)delta, "--no-gitconfig", NULL};
      execv(delta, dargv);
      _exit(127);
    }
    char b[16]; snprintf(b, sizeof b, "%d", level + 1); setenv("C20_LEVEL", b, 1);
    if (p[0] >= 0) close(p[0]);
    execv(self, levels[level].argv);
    _exit(127);
  }
  if (last) dprintf(statusfd, "P %d\n", (int)child);
  if (level > 0) {
    const char *x = strchr(flags, 'x');
    if (x) { usleep(1000 * (useconds_t)atoi(x + 1)); _exit(0); }
    int st = 0;
    while (waitpid(child, &st, 0) < 0 && errno == EINTR) {}
    if (last) dprintf(statusfd, "R %d\n", st);
    _exit(0);
  }
  /* top level: wait until every process that holds the status pipe (all levels, delta) is gone */
  close(p[1]);
  char buf[4096]; size_t n = 0; ssize_t r;
  while ((r = read(p[0], buf + n, sizeof buf - 1 - n)) != 0) { if (r < 0) { if (errno == EINTR) continue; break; } n += (size_t)r; if (n >= sizeof buf - 1) break; }
  buf[n] = 0;
  int dpid = -1, dst = -1, have = 0;
  for (char *l = strtok(buf, "\n"); l; l = strtok(NULL, "\n")) {
    if (l[0] == 'P') dpid = atoi(l + 2);
    if (l[0] == 'R') { dst = atoi(l + 2); have = 1; }
  }
  for (int i = 0; i < 400; i++) {
    int st; pid_t w = waitpid(-1, &st, WNOHANG);
    if (w > 0) { if (w == dpid && !have) { dst = st; have = 1; } continue; }
    if (w < 0 && errno == ECHILD) break;
    if (have) break;
    usleep(5000);
  }
  FILE *o = fopen(outp, "w");
  if (o) {
    if (!have) fprintf(o, "rc=unknown\n");
    else if (WIFEXITED(dst)) fprintf(o, "rc=%d\n", WEXITSTATUS(dst));
    else fprintf(o, "rc=signal%d\n", WTERMSIG(dst));
    fclose(o);
  }
  return 0;
}
'''


def build_launcher():
    """Compile the launcher once per source text (kept in .build). None if there is no C compiler."""
    exe = os.path.join(BUILD, "c20-launcher-" + sha(LAUNCHER_C)[:12])
    if os.path.exists(exe):
        return exe
    cc = shutil.which("cc") or shutil.which("gcc") or shutil.which("clang")
    if not cc:
        return None
    src = exe + ".%d.c" % os.getpid()
    tmp = exe + ".%d.tmp" % os.getpid()
    with open(src, "w") as f:
        f.write(LAUNCHER_C)
    p = subprocess.run([cc, "-O1", "-o", tmp, src], stdout=subprocess.PIPE, stderr=subprocess.STDOUT, text=True)
    os.remove(src)
    if p.returncode != 0 or not os.path.exists(tmp):
        return None
    os.replace(tmp, exe)
    return exe


_NS = []


def ns_prefix():
    """Command prefix that runs a program as pid 1 of a private pid namespace with its own /proc
    (the process table delta's scan sees is then exactly what the launcher creates), or None."""
    if not _NS:
        u = shutil.which("unshare")
        ok = False
        if u and os.environ.get("C20_NO_PIDNS") != "1":
            try:
                ok = subprocess.run([u, "--pid", "--fork", "--mount-proc", "true"], stdin=subprocess.DEVNULL,
                                    stdout=subprocess.DEVNULL, stderr=subprocess.DEVNULL, timeout=20).returncode == 0
            except (OSError, subprocess.TimeoutExpired):
                ok = False
        _NS.append([u, "--pid", "--fork", "--mount-proc"] if ok else None)
    return _NS[0]


# char::is_whitespace (what str::trim and split_whitespace use)
RUST_WS = set("\t\n\x0b\x0c\r \x85\xa0\u1680\u2000\u2001\u2002\u2003\u2004\u2005\u2006\u2007\u2008\u2009\u200a\u2028\u2029\u202f\u205f\u3000")


def rust_trim(s):
    i, j = 0, len(s)
    while i < j and s[i] in RUST_WS:
        i += 1
    while j > i and s[j - 1] in RUST_WS:
        j -= 1
    return s[i:j]


def sysinfo_cmd(raw):
    """`Process::cmd()` of sysinfo 0.29 for a process started with argv `raw` (list of bytes): /proc/<pid>/cmdline is
    split at NUL; empty pieces and pieces that are not UTF-8 are DROPPED; the others are trimmed."""
    out = []
    for a in raw:
        if len(a) == 0:
            continue
        try:
            out.append(rust_trim(a.decode("utf-8")))
        except UnicodeDecodeError:
            continue
    return out


def rust_debug(s):
    return '"' + s.replace("\\", "\\\\").replace('"', '\\"') + '"'


def model_called_to_log(ans):
    """`GitShow long=x..,x.. short=.. last=-|x.. file=-|x..` (model) -> the text `verif::describe` logs."""
    w = ans.split(" ")
    if w[0] in ("OtherGrep", "None"):
        return w[0]
    f = dict(x.split("=", 1) for x in w[1:])
    from ..core import unhxs

    def lst(v):
        items = sorted(set(unhxs(x) for x in v.split(",") if x), key=lambda t: t.encode("utf-8"))
        return "[" + ", ".join(rust_debug(t) for t in items) + "]"

    def opt(v):
        return "None" if v == "-" else "Some(" + rust_debug(unhxs(v)) + ")"

    out = "%s long=%s short=%s last=%s" % (w[0], lst(f["long"]), lst(f["short"]), opt(f["last"]))
    if w[0] == "GitShow":
        out += " file=" + opt(f["file"])
    return out


def argv_fields(argv):
    return "%d%s" % (len(argv), "".join(" " + hx(a) for a in argv))


def model_describe(mdl, argvs):
    """-> per argv: the guess text a table consisting of that one process would log ('None' for
    ArgError/OtherProcess), 'PANIC', or None without a model; and whether it is an `Args` result."""
    if mdl is None:
        return [(None, False)] * len(argvs)
    out = []
    for a in mdl.ask(["caller.describe " + argv_fields(x) for x in argvs]):
        if a.startswith("ok args "):
            out.append((model_called_to_log(a[len("ok args "):]), True))
        elif a.startswith("ok "):
            out.append(("None", False))
        elif a.startswith("PANIC"):
            out.append(("PANIC", False))
        else:
            out.append((None, False))
    return out


def model_scan(mdl, tables):
    """tables: [(ancestors, sibling|None, neighbours)] (normalised command lines) -> guess text | 'PANIC' | None."""
    if mdl is None:
        return [None] * len(tables)
    reqs = []
    for anc, sib, ns in tables:
        r = "caller.scan %d" % len(anc) + "".join(" " + argv_fields(a) for a in anc)
        r += " 1 " + argv_fields(sib) if sib is not None else " 0"
        r += " %d" % len(ns) + "".join(" " + argv_fields(a) for a in ns)
        reqs.append(r)
    out = []
    for a in mdl.ask(reqs):
        if a.startswith("ok guess "):
            out.append(model_called_to_log(a[len("ok guess "):]))
        elif a.startswith("PANIC"):
            out.append("PANIC")
        else:
            out.append(None)
    return out


# --- generated command lines

STEMLESS = ["/", ".", "..", "./", "//", "a/..", "/.", "../..", "git/..", "./."]
GIT_NAMES = ["git", "/usr/bin/git", "GIT", "git.exe", "Git.EXE", "git.foo.bar", "./git", "/opt/x/git.", "a/./git", "git/", "/usr/lib/git-core/git"]
GREP_NAMES = ["rg", "RG", "rg.exe", "/usr/bin/ack", "sift", "Sift.1", "/opt/ripgrep/rg"]
OTHER_NAMES = ["sh", "-bash", "/bin/zsh", "python3", "gitk", "git-lfs", ".git", ".git.x", "legit", "tig", "less", "delta", "rga",
               "ack-grep", "make", "é日", "a.b.c", "..git", "...", "git..", "-", "--", "=", ":"]
GIT_SUBS = ["diff", "show", "log", "reflog", "grep", "blame"]
NOT_SUBS = ["status", "commit", "Diff", "diffx", "sho", "-diff", "stash", "difftool"]
PRE = ["-c", "a=b", "-C", "/tmp", "--no-pager", "-p", "--git-dir=x", "--paginate", "-c", "color.ui=always"]
POST = ["--word-diff", "--color-words=.", "--word-diff-regex=a=b", "-p", "-abc", "-", "--", "--=", "-=", "HEAD", "HEAD:src/x.rs",
        "HEAD:", ":", ":x", "a:b:c/d.rs", "x:..", "x:/", "x:./", "rev:dir/", "é日:ü/ñ.rs", "-x", "file.rs", "=", "--a=b=c",
        "--stat", "-U3", "--", "HEAD~1", "v1..v2", "-S", "x\"y", "a\\b", "--no-index", "-w", "--color=always", "x.rs", "-n", "-e", "foo"]


def gen_git_line(rng):
    """A command line of a process named git (stem-wise): known or unknown subcommand, option soup."""
    a = [rng.choice(GIT_NAMES)]
    a += [rng.choice(PRE) for _ in range(rng.choice([0, 0, 1, 2, 3]))]
    r = rng.random()
    if r < 0.8:
        a.append(rng.choice(GIT_SUBS))
    elif r < 0.95:
        a.append(rng.choice(NOT_SUBS))
    a += [rng.choice(POST) for _ in range(rng.choice([0, 1, 2, 3, 5, 8]))]
    return a


def gen_line(rng):
    """(class, tokens): one generated command line (tokens are non-empty and free of white space)."""
    r = rng.random()
    if r < 0.08:
        return "empty-command-line", []
    if r < 0.22:
        return "command-without-file-stem", [rng.choice(STEMLESS)] + [rng.choice(GIT_SUBS + POST) for _ in range(rng.choice([0, 1, 3]))]
    if r < 0.62:
        return "git-command-line", gen_git_line(rng)
    if r < 0.74:
        return "grep-tool-command-line", [rng.choice(GREP_NAMES)] + [rng.choice(POST) for _ in range(rng.choice([0, 1, 3]))]
    if r < 0.92:
        return "other-command-line", [rng.choice(OTHER_NAMES)] + [rng.choice(GIT_SUBS + POST + GIT_NAMES) for _ in range(rng.choice([0, 1, 2, 4]))]
    n = rng.choice([200, 2000])
    return "long-command-line", [rng.choice(GIT_NAMES + OTHER_NAMES)] + [rng.choice(POST + GIT_SUBS) for _ in range(n)]


# --- describe_calling_process through DELTA_VERIF_FORCE_GUESS

def pinned_run(ctx, wd, guess, tag, schedule=None):
    """delta --no-gitconfig < DIFF with the scan result pinned to describe_calling_process(guess.split_whitespace())."""
    e = dict(os.environ)
    for k in list(e):
        if k.startswith("DELTA_") or k.startswith("GIT_") or k in ("PAGER", "BAT_PAGER", "BAT_THEME", "COLORTERM", "LESS"):
            e.pop(k)
    e.update(HOME=os.path.join(wd, "home"), GIT_CONFIG_NOSYSTEM="1", DELTA_VERIF_FORCE_GUESS=guess, RUST_BACKTRACE="0")
    log = os.path.join(wd, "log-" + tag)
    if os.path.exists(log):
        os.remove(log)
    e["DELTA_VERIF_SCHEDULE_LOG"] = log
    if schedule:
        e.update(DELTA_VERIF_SCHEDULE=schedule, DELTA_VERIF_SCHEDULE_TIMEOUT_MS="6000", DELTA_VERIF_SCHEDULE_SETTLE_MS="20")
    try:
        p = subprocess.run([ctx.delta, "--no-gitconfig"], input=DIFF, stdout=subprocess.PIPE, stderr=subprocess.PIPE,
                           env=e, timeout=SCAN_TIMEOUT, cwd=wd)
        rc, out, err = p.returncode, p.stdout, p.stderr
    except subprocess.TimeoutExpired as ex:
        rc, out, err = "timeout", ex.stdout or b"", ex.stderr or b""
    lines = open(log).read().split("\n") if os.path.exists(log) else []
    if os.path.exists(log):
        os.remove(log)
    err = err.decode("utf-8", "replace")
    return dict(rc=rc, stdout=out, stderr=err[:600], panicked="panicked at" in err, log=[ln for ln in lines if ln])


def determination_oracle(rep, scen, cls, replay, run, parsed):
    """What the property needs of one run in which nothing is published: delta terminates, exits 0, no thread
    panics, at least one query is made and every query is answered - never with Pending, always with the guess
    the background determination logged. Returns the failure tags."""
    bad = []

    def v(tag, what):
        bad.append(tag)
        sig = "c20:%s:%s:%s" % (scen, cls, tag)
        rep.count("oracle-failure:" + sig)
        if sig not in _REPORTED:
            _REPORTED.add(sig)
            rep.violation(sig, what, replay)

    panicked = run.get("panicked", "panicked at" in run["stderr"])
    if run["rc"] == "timeout":
        v("blocks-forever", "delta did not terminate within %d s: the first calling_process() query waits on the condvar for ever%s"
          % (SCAN_TIMEOUT, " (the background thread panicked before it took the CALLER mutex: nothing stored, nobody notified)"
             if panicked else ""))
        return bad
    if panicked:
        v("determination-panicked", "a thread of delta panicked: " + run["stderr"][-200:])
    if run["rc"] == 96:
        return bad
    if run["rc"] != 0:
        v("exit-status", "exit status %r" % (run["rc"],))
    answered = 0
    for k in sorted(parsed["queries"]):
        q = parsed["queries"][k]
        if not (q["ret"] and q["checks"]):
            continue
        answered += 1
        res = q["checks"][-1]
        if res == "Pending":
            v("pending-returned", "query %d returned Pending" % k)
        elif parsed["guess"] is not None and res != parsed["guess"]:
            v("stale-answer", "query %d returned %r, the background determination gave %r" % (k, res, parsed["guess"]))
    if run["rc"] == 0 and answered == 0:
        v("no-query-answered", "the input has a hunk but no calling_process() query was answered")
    if run["rc"] == 0 and parsed["guess"] is None:
        v("determination-unfinished", "delta finished but the background determination logged no result")
    return bad


def describe_mode(ctx, rep, mdl, wd, schedules):
    """Generated command lines -> describe_calling_process (through DELTA_VERIF_FORCE_GUESS, i.e. on the background
    thread, in place of the scan) vs `CallerScan.describe`; the determination oracle on every run."""
    fixed = [("empty-command-line", []), ("command-without-file-stem", ["/"]), ("command-without-file-stem", [".."]),
             ("command-without-file-stem", ["."]), ("git-command-line", ["git", "show", "HEAD:"]),
             ("git-command-line", ["git", "show", "HEAD"]), ("git-command-line", ["git", "diff", "-"]),
             ("git-command-line", ["git", "log", "--=", "--", "--x"]), ("git-command-line", ["git"]),
             ("git-command-line", ["GIT.exe", "blame", "a:b:c"]), ("grep-tool-command-line", ["rg"])]
    lines = fixed + [gen_line(ctx.rng) for _ in range(ctx.n(40, 800))]
    picks = [ctx.rng.choice([None, None] + list(schedules)) for _ in lines]
    want = model_describe(mdl, [t for _, t in lines])

    def one(ij):
        i, ((cls, toks), sched) = ij
        r = pinned_run(ctx, wd, " ".join(toks), "desc-%d" % i, sched)
        return r, parse_log(r["log"])

    for ((cls, toks), sched, (w, _), (r, parsed)) in zip(lines, picks, want, parallel_map(one, list(enumerate(zip(lines, picks))), workers=12)):
        shown = toks if len(toks) <= 40 else toks[:40] + ["… (%d arguments)" % len(toks)]
        replay = dict(scenario="describe", cls=cls, tokens=toks if len(toks) <= 400 else None, shown=shown, schedule=sched,
                      env={"DELTA_VERIF_FORCE_GUESS": " ".join(shown)}, command="delta --no-gitconfig < one-hunk diff",
                      rc=r["rc"], log=r["log"][-30:], stderr=r["stderr"], model=w)
        bad = determination_oracle(rep, "describe", cls, replay, r, parsed)
        rep.case(key=("describe", tuple(toks), sched), nontrivial=len(toks) != 1,
                 sample=dict(scenario="describe", cls=cls, tokens=shown, schedule=sched, rc=r["rc"], guess=parsed["guess"], failures=bad))
        rep.count("describe:%s:%s" % (cls, parsed["guess"].split(" ")[0] if parsed["guess"] else "no-guess"))
        if w is not None and r["rc"] != 96:
            agree = (w == "PANIC" and (r["rc"] == "timeout" or r["panicked"])) or (w != "PANIC" and parsed["guess"] == w)
            rep.corr_case("caller.describe", agree, dict(scenario="describe", cls=cls, tokens=shown, schedule=sched,
                                                         model=w, impl=parsed["guess"], rc=r["rc"], stderr=r["stderr"][-200:]))


# --- the real scan under launcher chains

def spec_table(spec, exe, delta, drop_from=None, keep_in_neighbours=True):
    """The process table delta's scan sees for a launcher chain (normalised as sysinfo does), as
    (ancestors nearest first, pid-1 process, neighbours). `drop_from`: index of a level that has exited
    together with everything above it (delta then hangs below the top level)."""
    lv = [sysinfo_cmd(a) for _, a in spec["levels"]]
    flags = [spec["top"]] + [f for f, _ in spec["levels"]]
    l0 = [exe]
    alive = lv if drop_from is None else lv[drop_from + 1:]
    anc = list(reversed(alive)) + [l0]
    sibling_line = sysinfo_cmd(spec["sibling"]) if spec.get("sibling") else None
    lastf = flags[-1]
    if "s" in lastf and sibling_line is not None:
        sib = sibling_line
    elif "z" in lastf:
        sib = []
    else:
        sib = anc[0]
    ns = [l0] + (lv if keep_in_neighbours else alive) + [[delta, "--no-gitconfig"]]
    for f in flags:
        if "z" in f:
            ns.append([])
        if "s" in f and sibling_line is not None:
            ns.append(sibling_line)
    if drop_from is not None and keep_in_neighbours:
        ns.append([])      # an exited, not yet reaped level has no command line
    return anc, sib, ns


def acceptable_guesses(mdl, spec, exe, delta):
    """Guess texts the model allows for the chain (a set: which of several recognised neighbours is nearest, and
    how far a level that exits during the scan has got, is not determined), and text -> pin-able command line."""
    if mdl is None:
        return None, {}
    variants = [spec_table(spec, exe, delta)]
    xs = [i for i, (f, _) in enumerate(spec["levels"]) if "x" in f]
    for i in xs:
        variants += [spec_table(spec, exe, delta, drop_from=i), spec_table(spec, exe, delta, drop_from=i, keep_in_neighbours=False)]
        anc, sib, ns = spec_table(spec, exe, delta, drop_from=i)
        variants += [([], sib, ns), (anc[:1], sib, ns)]          # parent_process() failed half-way / loop broke early
    acc, pin = set(), {"None": "none"}
    for anc, sib, ns in variants:
        procs = anc[:3] + ([sib] if sib is not None else []) + ns
        descr = model_describe(mdl, procs)
        for a, (text, is_args) in zip(procs, descr):
            if is_args and a and all(t and not (set(t) & RUST_WS) for t in a):
                pin.setdefault(text, " ".join(a))
        g0, = model_scan(mdl, [(anc, sib, [])])
        g1, = model_scan(mdl, [(anc, sib, ns)])
        if g0 is None or g1 is None:
            return None, pin
        if g0 == "None" and g1 != "None" and g1 != "PANIC":
            acc |= {t for (t, is_args) in model_describe(mdl, ns) if is_args}     # any recognised neighbour
        else:
            acc.add(g1)
    return acc, pin


def scan_run(ctx, wd, exe, nsp, spec, tag):
    d = os.path.join(wd, "scan-" + tag)
    os.makedirs(d, exist_ok=True)
    chain, out, log, inp = (os.path.join(d, x) for x in ("chain", "out", "log", "in.diff"))
    with open(inp, "wb") as f:
        f.write(DIFF)
    with open(chain, "w") as f:
        f.write("T %s\n" % (spec["top"] or "-"))
        for fl, av in spec["levels"]:
            f.write("L %s %s\n" % (fl or "-", " ".join("x" + a.hex() for a in av)))
        if spec.get("sibling"):
            f.write("S %s\n" % " ".join("x" + a.hex() for a in spec["sibling"]))
    e = dict(os.environ)
    for k in list(e):
        if k.startswith("DELTA_") or k.startswith("GIT_") or k.startswith("C20_") or k in ("PAGER", "BAT_PAGER", "BAT_THEME", "COLORTERM", "LESS"):
            e.pop(k)
    e.update(HOME=os.path.join(wd, "home"), GIT_CONFIG_NOSYSTEM="1", C20_SELF=exe, C20_CHAINFILE=chain, C20_DELTA=ctx.delta,
             C20_STDIN=inp, C20_OUT=out, DELTA_VERIF_SCHEDULE_LOG=log, RUST_BACKTRACE="0")
    if spec.get("schedule"):
        e.update(DELTA_VERIF_SCHEDULE=spec["schedule"], DELTA_VERIF_SCHEDULE_TIMEOUT_MS="6000", DELTA_VERIF_SCHEDULE_SETTLE_MS="20")
    p = subprocess.Popen((nsp or []) + [exe], stdin=subprocess.DEVNULL, stdout=subprocess.PIPE, stderr=subprocess.PIPE, env=e,
                         cwd=wd, start_new_session=True)
    try:
        so, se = p.communicate(timeout=SCAN_TIMEOUT)
        rc = None
    except subprocess.TimeoutExpired:
        rc = "timeout"
        try:
            os.killpg(p.pid, _signal.SIGKILL)
        except ProcessLookupError:
            pass
        so, se = p.communicate()
    try:
        os.killpg(p.pid, _signal.SIGKILL)      # sleepers
    except (ProcessLookupError, PermissionError):
        pass
    if rc is None:
        txt = open(out).read().strip() if os.path.exists(out) else ""
        rc = int(txt[3:]) if txt.startswith("rc=") and txt[3:].isdigit() else (txt[3:] or "launcher-exit-%s" % p.returncode)
    lines = open(log).read().split("\n") if os.path.exists(log) else []
    shutil.rmtree(d, ignore_errors=True)
    se = se.decode("utf-8", "replace")
    return dict(rc=rc, stdout=so, stderr=se[:600], panicked="panicked at" in se, log=[ln for ln in lines if ln])


def _b(xs):
    return [x if isinstance(x, bytes) else x.encode("utf-8") for x in xs]


def hostile_line(rng):
    """(class, raw argv) of one launcher level that the callback must treat as just another process."""
    k = rng.randrange(9)
    extra = [rng.choice(GIT_SUBS + POST) for _ in range(rng.choice([0, 0, 1, 3]))]
    if k == 0:
        return "empty-argv", [b""]
    if k == 1:
        return "non-utf8-argv", rng.choice([[b"\xff\xfe\xfd"], [b"\xc3", b"\xff"], [b"sh\xff", b"\x80diff"]])
    if k == 2:
        return "blank-argv0", _b([rng.choice([" ", "\t", " \n ", "\u3000"])] + extra)
    if k == 3:
        return "argv0-without-file-stem", _b([rng.choice(STEMLESS)] + extra)
    if k == 4:
        return "long-argv", rng.choice([[b"a" * 100000], _b(["sh"] + ["x"] * 3000), [b"/".join([b"d"] * 20000)],
                                        _b(["sh", "-c", "y" * 120000]), _b(["/"] + ["-p"] * 5000)])
    if k == 5:
        return "dotted-name", _b([rng.choice([".git", ".git.x", "..git", "...", "git..", "gitk", "git-lfs", "rga", ".rg"])] + extra)
    if k == 6:
        return "padded-args", _b([rng.choice(["  sh ", "\tbash\n", " /bin/zsh"])] + [" " + x + " " for x in extra])
    if k == 7:
        return "option-like-argv0", _b([rng.choice(["-", "--", "-bash", "=", ":", "--word-diff"])] + extra)
    return "ordinary-shell", _b([rng.choice(["sh", "/bin/bash", "python3", "make", "less"])] + extra)


def recognised_line(rng):
    """(class, raw argv) of a level the callback recognises (after sysinfo's normalisation)."""
    k = rng.randrange(6)
    if k == 0:
        return "git-after-dropped-args", _b(rng.choice([[b"", "git"], [b"\xff", "git"], [b"", b"\xfe", "/usr/bin/git"]])
                                             + [rng.choice(GIT_SUBS)] + [rng.choice(POST) for _ in range(rng.choice([0, 1, 3]))])
    if k == 1:
        return "git-padded", _b([" git ", "\t" + rng.choice(GIT_SUBS) + "\n"] + [rng.choice(POST) for _ in range(rng.choice([0, 2]))])
    if k == 2:
        return "grep-tool", _b([rng.choice(GREP_NAMES)] + [rng.choice(POST) for _ in range(rng.choice([0, 2]))])
    if k == 3:
        return "git-long", _b(["git", "-" + "p" * 60000, rng.choice(GIT_SUBS)] + [rng.choice(POST) for _ in range(1500)])
    return "git", _b(gen_git_line(rng))


def gen_specs(ctx, schedules):
    rng = ctx.rng
    specs = []

    def add(cls, levels, top="-", sibling=None):
        specs.append(dict(cls=cls, top=top, levels=levels, sibling=sibling,
                          schedule=rng.choice([None, None] + list(schedules))))

    sh = _b(["sh", "-c", "delta"])
    git_show = _b(["git", "show", "--word-diff"])
    # the fixed family: each hostile shape as parent, grand-parent and great-grand-parent
    for cls, line in [("empty-argv", [b""]), ("non-utf8-argv", [b"\xff\xfe\xfd"]), ("blank-argv0", [b" "]),
                      ("argv0-without-file-stem", [b"/"]), ("argv0-without-file-stem", [b".."]),
                      ("argv0-without-file-stem", [b".", b"diff"]), ("long-argv", [b"a" * 100000])]:
        add("parent-" + cls, [("-", line)])
        add("grandparent-" + cls, [("-", line), ("-", sh)])
    add("great-grandparent-empty-argv", [("-", [b""]), ("-", sh), ("-", sh)])
    add("parent-empty-argv-under-git", [("-", git_show), ("-", [b""])])
    add("zombie-at-pid-minus-1", [("z", sh)])
    add("zombie-at-pid-minus-1-under-git", [("-", git_show), ("z", sh)])
    add("zombies-in-pid-range", [("z", sh), ("z", sh)], top="z")
    add("no-parent-chain", [])
    add("git-sibling", [("s", sh)], sibling=_b(["git", "blame", "x.rs"]))
    add("empty-argv-sibling", [("s", sh)], sibling=[b""])
    for ms in (0, 2, 6, 15):
        add("parent-exits-during-scan", [("-", sh), ("x%d" % ms, sh)])
        add("git-parent-exits-during-scan", [("-", sh), ("x%d" % ms, git_show)])
    add("git-parent", [("-", git_show)])
    # random chains: 1-3 levels, hostile and recognised lines mixed, flags
    for _ in range(ctx.n(14, 500)):
        levels, names = [], []
        for _ in range(rng.choice([1, 2, 2, 3])):
            c, line = hostile_line(rng) if rng.random() < 0.7 else recognised_line(rng)
            fl = rng.choice(["-", "-", "-", "z", "s", "x%d" % rng.choice([0, 1, 3, 8, 20])])
            levels.append((fl, line))
            names.append(c + ("+" + fl[0] if fl != "-" else ""))
        sibling = rng.choice([None, [b""], _b(gen_git_line(rng)), [b"\xff"]]) if any("s" in f for f, _ in levels) else None
        add("chain:" + ">".join(names), levels, top=rng.choice(["-", "-", "z"]), sibling=sibling)
    return specs


def spec_replay(spec, nsp):
    def show(a):
        return a.decode("utf-8", "backslashreplace") if len(a) <= 200 else "%s… (%d bytes)" % (a[:40].decode("utf-8", "backslashreplace"), len(a))

    def hexes(av):
        return [a.hex() if len(a) <= 4096 else "REPEAT:%s*%d" % (a[:1].hex(), len(a)) if a == a[:1] * len(a) else a.hex() for a in av]
    return dict(scenario="scan", cls=spec["cls"], schedule=spec.get("schedule"), top_flags=spec["top"],
                levels=[dict(flags=f, argv=[show(a) for a in av][:30] + (["… (%d arguments)" % len(av)] if len(av) > 30 else []),
                             argv_hex=hexes(av)) for f, av in spec["levels"]],
                sibling_hex=hexes(spec["sibling"]) if spec.get("sibling") else None,
                pid_namespace=bool(nsp),
                how="each level is a process whose argv is `argv` (outermost first); the last one starts `delta --no-gitconfig` "
                    "with a one-hunk diff on stdin; flags: z = leaves a zombie child first, s = starts the sibling first, "
                    "x<ms> = exits <ms> ms after starting its child; no pinned guess: the real process-table scan runs")


def unhexes(xs):
    out = []
    for h in xs:
        if h.startswith("REPEAT:"):
            b, n = h[7:].split("*")
            out.append(bytes.fromhex(b) * int(n))
        else:
            out.append(bytes.fromhex(h))
    return out


def scan_case(ctx, rep, mdl, wd, exe, nsp, spec, i, refs):
    acc, pin = acceptable_guesses(mdl, spec, exe, ctx.delta)
    r = scan_run(ctx, wd, exe, nsp, spec, str(i))
    parsed = parse_log(r["log"])
    if nsp and acc is not None and "PANIC" not in acc and r["rc"] == 0 and parsed["guess"] is not None and parsed["guess"] not in acc:
        # which processes of the chain are still alive (or have exec'd) when the scan looks is a matter of timing: a guess the
        # model's tables do not explain counts only if it is reproducible
        for k in range(2):
            r2 = scan_run(ctx, wd, exe, nsp, spec, "%d-retry%d" % (i, k))
            p2 = parse_log(r2["log"])
            if not (r2["rc"] == 0 and p2["guess"] is not None and p2["guess"] not in acc):
                rep.count("scan:unexplained-guess-not-reproduced")
                r, parsed = r2, p2
                break
    replay = dict(spec_replay(spec, nsp), rc=r["rc"], log=r["log"][-30:], stderr=r["stderr"], model_allows=sorted(acc) if acc else acc)
    cls = spec["cls"].split(":")[0] if spec["cls"].startswith("chain:") else spec["cls"]
    if spec["cls"].startswith("chain:"):
        cls = "chain:" + "+".join(sorted(set(x.split("+")[0] for x in spec["cls"][6:].split(">"))))
    bad = determination_oracle(rep, "scan", cls, replay, r, parsed)

    def v(tag, what):
        bad.append(tag)
        sig = "c20:scan:%s:%s" % (cls, tag)
        rep.count("oracle-failure:" + sig)
        if sig not in _REPORTED:
            _REPORTED.add(sig)
            rep.violation(sig, what, replay)

    g = parsed["guess"]
    if r["rc"] == 0 and g is not None and acc is not None and "PANIC" not in acc:
        if g not in acc:
            if nsp:
                v("wrong-guess", "the background determination gave %r; for this process table the model's scan gives %r" % (g, sorted(acc)))
            else:
                rep.count("scan:guess-from-a-foreign-process(no pid namespace)")
        elif g in pin:
            key = pin[g]
            if key not in refs:
                ref = pinned_run(ctx, wd, key, "ref-%d" % i)
                refs[key] = ref["stdout"] if ref["rc"] == 0 else None
            if refs[key] is not None and r["stdout"] != refs[key]:
                v("behaviour-differs", "stdout differs from the run with the same calling process pinned (%r)" % key)
    return spec, r, parsed, bad, acc


def scan_mode(ctx, rep, mdl, wd, schedules):
    exe = build_launcher()
    if exe is None:
        rep.notes["scan_mode"] = "no C compiler: the launcher could not be built - real-scan scenarios skipped"
        return
    nsp = ns_prefix()
    rep.notes["scan_mode"] = ("private pid namespace (unshare --pid --fork --mount-proc): the process table is exactly the launcher chain"
                              if nsp else "no pid namespace available: foreign processes may be met by the scan; the guess is only "
                              "compared when the model's table explains it")
    rep.assumptions += ["sysinfo 0.29 Process::cmd(): /proc/<pid>/cmdline split at NUL, empty and non-UTF-8 pieces dropped, the rest trimmed "
                        "(vlib/props/c20.py sysinfo_cmd) - used to predict the guess, not needed for termination"]
    specs = gen_specs(ctx, schedules)
    refs = {}
    results = parallel_map(lambda ij: scan_case(ctx, rep, mdl, wd, exe, nsp, ij[1], ij[0], refs), list(enumerate(specs)), workers=8)
    for spec, r, parsed, bad, acc in results:
        rep.case(key=("scan", spec["cls"], repr(spec["levels"])[:2000], spec["top"], repr(spec.get("sibling"))[:500], spec.get("schedule")),
                 nontrivial=True, sample=dict(scenario="scan", cls=spec["cls"], schedule=spec.get("schedule"), rc=r["rc"],
                                              guess=parsed["guess"], failures=bad))
        rep.count("scan:%s:%s" % (spec["cls"].split(":")[0], (parsed["guess"] or "no-guess").split(" ")[0]))
        if spec.get("schedule") and r["rc"] != "timeout":
            ev = parsed["events"]
            rep.corr_case("scan.schedule", r["rc"] != 96 and ev == spec["schedule"].split(","),
                          dict(scenario="scan", cls=spec["cls"], schedule=spec["schedule"], rc=r["rc"], events=ev))
        if acc is not None and parsed["guess"] is not None and nsp:
            rep.corr_case("caller.scan", parsed["guess"] in acc, dict(scenario="scan", cls=spec["cls"], impl=parsed["guess"], model=sorted(acc)))


def scan_shape_check(ctx, rep, mdl):
    """The shape of describe_calling_process extracted from REPO now, judged without the shared Generated/ directory
    (same reason as shape_check): the accesses to the argument slice must be total ones and no unclassified panic point
    may stand in the code the background thread runs before its guess is stored."""
    import importlib.util
    from ..core import REPO, ROOT
    spec = importlib.util.spec_from_file_location("extractor_callerdescribe", os.path.join(ROOT, "tools", "extractors", "callerdescribe.py"))
    ex = importlib.util.module_from_spec(spec)
    spec.loader.exec_module(ex)
    try:
        src = ex.strip_hooks_and_comments(ex.strip_tests(ex.read(REPO, "src/utils/process.rs")))
        d = ex.describe(src)
        pts = ex.panic_points(src)
    except SystemExit as e:
        rep.broken_proofs.append("shape of describe_calling_process not recognised: %s" % e)
        return
    rep.notes["extracted_describe_shape"] = dict(command=d["cmd"], rest=d["rest"], empty_arm=d["empty_arm"], stem_arms=d["stem_arms"],
                                                 panic_points=pts)
    if d["cmd"][0] != "next" or d["rest"][0] not in ("iter", "skip") or not d["empty_arm"]:
        rep.broken_proofs.append("C20.describe_shape_total / C20.describe_total: describe_calling_process takes the command by %s(%d), the "
                                 "remaining arguments by %s(%d), arm for an empty slice: %r - it panics on a short argument slice"
                                 % (d["cmd"] + d["rest"] + (d["empty_arm"],)))
    loose = [p for p in pts if p[2] not in ("first_piece_of_split", "pid_minus_one", "i64_difference", "lock_result")]
    if loose:
        rep.broken_proofs.append("C20.scan_panic_points_total: unclassified panic points in the background determination: %r" % (loose[:6],))
    if mdl is not None:
        ans = mdl.ask(["caller.scanshape"])[0]
        rep.notes["model_describe_shape"] = ans


def replay_scan(ctx, rep, c):
    mdl = ctx.model("drv_caller") if ctx.drivers_ok else None
    wd = workdir()
    try:
        if c.get("scenario") == "describe":
            toks = c.get("tokens")
            if toks is None:
                return
            for i in range(3):
                r = pinned_run(ctx, wd, " ".join(toks), "replay-%d" % i, c.get("schedule"))
                parsed = parse_log(r["log"])
                bad = determination_oracle(rep, "describe", c.get("cls", "?"), dict(c, rc=r["rc"], log=r["log"][-30:], stderr=r["stderr"]), r, parsed)
                rep.case(key=("describe", tuple(toks), i), nontrivial=True,
                         sample=dict(scenario="describe", tokens=toks[:40], rc=r["rc"], guess=parsed["guess"], stderr=r["stderr"][-200:], failures=bad))
            return
        exe = build_launcher()
        if exe is None:
            return
        nsp = ns_prefix() if c.get("pid_namespace") else None
        spec = dict(cls=c.get("cls", "?"), top=c.get("top_flags", "-"), schedule=c.get("schedule"),
                    levels=[(lv["flags"], unhexes(lv["argv_hex"])) for lv in c.get("levels", [])],
                    sibling=unhexes(c["sibling_hex"]) if c.get("sibling_hex") else None)
        refs = {}
        for i in range(3):
            _, r, parsed, bad, acc = scan_case(ctx, rep, mdl, wd, exe, nsp, spec, i, refs)
            rep.case(key=("scan", spec["cls"], i), nontrivial=True,
                     sample=dict(scenario="scan", cls=spec["cls"], rc=r["rc"], guess=parsed["guess"], stderr=r["stderr"][-200:], failures=bad))
    finally:
        shutil.rmtree(wd, ignore_errors=True)
