"""C15 — syntax highlighting only recolours foregrounds, by the file's language.

Correspondence (hook `superimpose.*` vs model driver `drv_superimpose`):
  run / coalesce / toansi / nullstyle / pathparts / syntax.
Direct oracles on the implementation:
  F1  function level: the real `superimpose_style_sections` output, per character, equals the
      diff style except possibly the foreground; foreground differs only where the diff style
      is syntax-highlighted and the syntect style is not the null style; text preserved.
  B1  binary: the same diff under themes of one light/dark class (and highlighting off):
      cells (char, bg, attrs, link) and erase-to-EOL fills agree after erasing fg.
  B2  binary: configurations in which no style says `syntax`: cells agree including fg.
  B3  binary: cells painted by a style without `syntax` (identified by its reserved
      background) carry exactly the configured foreground.
  B4  binary: file renamed to another name of the same language: rows not showing the
      name are byte-identical.
  B5  binary: the language is that of the new path (rename across languages, added file);
      deleted files (`+++ /dev/null`) should be coloured by their own name.
  B6  binary: neither a same-named file in the working directory nor a first-line
      shebang/modeline in the hunk changes the language.
  B7  binary: a file section rendered alone and after 1-3 neighbour sections (highlighter lifetime).
  B10 binary: names that syntect resolves by WHOLE NAME although they carry an everyday extension
      (CMakeLists.txt, Cargo.lock, resolv.conf, Makefile.in …), extension-less names that equal an
      extension (`rs`, `py`) and names sharing a stem, together in one run with ordinary files of
      the same extension / stem, in both orders: the section is coloured as when it is alone, and
      as the same hunks under another name of the same kind (same language by the rule "whole
      name, then extension, then default" over syntect's table) in the same place.
  B11 binary: a file boundary while removed / added lines are still buffered (plain `diff -u` output of
      several files with nothing between them, the same with `diff …` / `Only in` lines between, git
      diffs; last hunk ending in -/+ lines; next file of another / the same language / unknown name):
      the section is coloured as when it is alone (what the next file's `--- ` line flushes is painted
      in the language of the file the lines belong to), and as the same hunks under another name of the
      same kind in the same place. Signatures `language:<flavour>:buffered-lines-coloured-by-next-file`,
      `…:section-colouring-depends-on-other-files`, `…:rename-same-kind-changes-colouring`.
"""
import base64
import os
import re
import shutil
import tempfile

from ..core import hx, unhx, unhxs, parallel_map, sha, BUILD

DRIVERS = ["drv_superimpose"]
GENERATED = ["Superimpose", "SuperimposeLifetime", "PainterFlush"]

NULL_SYN = "000000ff,ffffffff,0"

# --------------------------------------------------------------------------- encodings


def syn_tok(fg, bg, font):
    return "%s,%s,%d" % (fg, bg, font)


def style_tok(fg="-", bg="-", attrs=0, flags=0, dk=0, dfg="-", dbg="-", dattrs=0):
    return "%s,%s,%d,%d,%d,%s,%s,%d" % (fg, bg, attrs, flags, dk, dfg, dbg, dattrs)


def parse_sections(resp):
    """`ok n (style xtext)*` -> [(style token, text)]"""
    f = resp.split(" ")
    assert f[0] == "ok", resp
    n = int(f[1])
    out = []
    for k in range(n):
        out.append((f[2 + 2 * k], unhx(f[3 + 2 * k]).decode("utf-8")))
    return out


def explode(secs):
    return [(st, c) for st, tx in secs for c in tx]


# --------------------------------------------------------------------------- SGR interpreter

CSI_RE = re.compile(r"\x1b\[([0-?]*)([ -/]*)([@-~])")


class Term:
    """Small terminal model: SGR state -> cells. Written from ECMA-48 / xterm ctlseqs."""

    def __init__(self):
        self.fg = None
        self.bg = None
        self.attrs = frozenset()
        self.link = None

    def sgr(self, params):
        ps = []
        for p in (params.split(";") if params != "" else ["0"]):
            ps.append(p if p != "" else "0")
        i = 0
        on = {1: "bold", 2: "dim", 3: "italic", 4: "underline", 5: "blink", 6: "blink",
              7: "reverse", 8: "hidden", 9: "strike", 53: "overline"}
        off = {22: ("bold", "dim"), 23: ("italic",), 24: ("underline",), 25: ("blink",),
               27: ("reverse",), 28: ("hidden",), 29: ("strike",), 55: ("overline",)}
        while i < len(ps):
            if ":" in ps[i]:  # colon sub-parameters: 38:2::r:g:b / 38:5:n
                sub = [x for x in ps[i].split(":")]
                code = int(sub[0])
                vals = [int(x) for x in sub[1:] if x != ""]
                if code in (38, 48) and vals:
                    col = ("idx", vals[1]) if vals[0] == 5 else ("rgb",) + tuple(vals[-3:])
                    if code == 38:
                        self.fg = col
                    else:
                        self.bg = col
                i += 1
                continue
            c = int(ps[i])
            if c == 0:
                self.fg, self.bg, self.attrs = None, None, frozenset()
            elif c in on:
                self.attrs = self.attrs | {on[c]}
            elif c in off:
                self.attrs = self.attrs - set(off[c])
            elif 30 <= c <= 37:
                self.fg = ("idx", c - 30)
            elif 40 <= c <= 47:
                self.bg = ("idx", c - 40)
            elif 90 <= c <= 97:
                self.fg = ("idx", c - 90 + 8)
            elif 100 <= c <= 107:
                self.bg = ("idx", c - 100 + 8)
            elif c == 39:
                self.fg = None
            elif c == 49:
                self.bg = None
            elif c in (38, 48):
                col = None
                if i + 2 < len(ps) + 0 and ps[i + 1] == "5":
                    col = ("idx", int(ps[i + 2]))
                    i += 2
                elif i + 4 < len(ps) + 0 and ps[i + 1] == "2":
                    col = ("rgb", int(ps[i + 2]), int(ps[i + 3]), int(ps[i + 4]))
                    i += 4
                if c == 38:
                    self.fg = col
                else:
                    self.bg = col
            else:
                self.attrs = self.attrs | {"sgr%d" % c}
            i += 1


def decode(data):
    """stdout bytes -> rows of items. item = ('c', char, fg, bg, attrs, link) |
    ('EL', param, bg) | ('CSI', text)."""
    s = data.decode("utf-8", "replace")
    t = Term()
    rows, row = [], []
    i, n = 0, len(s)
    while i < n:
        ch = s[i]
        if ch == "\x1b" and i + 1 < n and s[i + 1] == "[":
            m = CSI_RE.match(s, i)
            if m:
                params, inter, final = m.groups()
                if final == "m" and inter == "":
                    t.sgr(params)
                elif final == "K":
                    row.append(("EL", params or "0", t.bg))
                else:
                    row.append(("CSI", m.group(0)))
                i = m.end()
                continue
        if ch == "\x1b" and i + 1 < n and s[i + 1] == "]":
            j1 = s.find("\x07", i)
            j2 = s.find("\x1b\\", i)
            cands = [(j, 1) for j in (j1,) if j >= 0] + [(j, 2) for j in (j2,) if j >= 0]
            if cands:
                j, ln = min(cands)
                body = s[i + 2:j]
                if body.startswith("8;"):
                    uri = body.split(";", 2)[2] if body.count(";") >= 2 else ""
                    t.link = uri or None
                else:
                    row.append(("OSC", body))
                i = j + ln
                continue
        if ch == "\n":
            rows.append(row)
            row = []
        else:
            row.append(("c", ch, t.fg, t.bg, t.attrs, t.link))
        i += 1
    if row:
        rows.append(row)
    return rows


def erase_fg(rows):
    return [[(it[0], it[1], it[3], tuple(sorted(it[4])), it[5]) if it[0] == "c" else it for it in r]
            for r in rows]


def with_fg(rows):
    return [[(it[0], it[1], it[2], it[3], tuple(sorted(it[4])), it[5]) if it[0] == "c" else it for it in r]
            for r in rows]


def row_text(row):
    return "".join(it[1] for it in row if it[0] == "c")


def first_diff(a, b):
    """First (row, col) where two decoded outputs differ, with both items."""
    if len(a) != len(b):
        return dict(rows=(len(a), len(b)))
    for r, (x, y) in enumerate(zip(a, b)):
        if x != y:
            for c in range(max(len(x), len(y))):
                xi = x[c] if c < len(x) else None
                yi = y[c] if c < len(y) else None
                if xi != yi:
                    return dict(row=r, col=c, a=repr(xi), b=repr(yi), text=row_text(x)[:80])
    return None


# --------------------------------------------------------------------------- generators: hook level

ALPHA = ["a", "b", "c", " ", "x", "(", ")", "=", "é", "日", "本", "\u0301", "\u200b", "😀", "\t", "0", "\""]

SYN_COLORS = ["000000ff", "ffffffff", "ff0000ff", "00ff00ff", "268bd2ff", "d33682ff", "808080ff",
              "01000000", "07000000", "08000000", "c8000000", "00000001", "ff804080", "0000ff7f"]


def gen_text(rng, lo=0, hi=14):
    return "".join(rng.choice(ALPHA) for _ in range(rng.randint(lo, hi)))


def partition(rng, text, allow_empty=True):
    """Random partition of `text` into sections (possibly with empty ones)."""
    cuts = sorted(rng.randint(0, len(text)) for _ in range(rng.randint(0, 4)))
    parts, prev = [], 0
    for c in cuts + [len(text)]:
        parts.append(text[prev:c])
        prev = c
    if not allow_empty:
        parts = [p for p in parts if p]
    return parts


def gen_syn_pool(rng):
    pool = [NULL_SYN, NULL_SYN]
    pool.append(syn_tok("000000ff", "ffffffff", rng.choice([1, 2, 4])))     # null fg, other font
    pool.append(syn_tok("000000ff", "2e3440ff", 0))                         # null fg, other bg
    for _ in range(3):
        pool.append(syn_tok(rng.choice(SYN_COLORS), rng.choice(SYN_COLORS), rng.choice([0, 0, 1, 2, 4, 7])))
    return pool


def gen_color(rng):
    k = rng.random()
    if k < 0.3:
        return "-"
    if k < 0.5:
        return "n%d" % rng.randint(0, 7)
    if k < 0.75:
        return "f%d" % rng.choice([0, 1, 9, 22, 52, 201, 255])
    return "r%02x%02x%02x" % (rng.choice([0, 16, 255]), rng.choice([0, 32, 128]), rng.choice([0, 64, 255]))


def gen_style_pool(rng):
    pool = []
    for _ in range(4):
        dk = rng.choice([0, 0, 0, 1, 2, 7])
        pool.append(style_tok(
            gen_color(rng), gen_color(rng), rng.choice([0, 0, 1, 4, 8, 32, 129, 255]),
            rng.choice([0, 8, 8, 8, 1, 9, 2, 4, 12, 15]), dk,
            gen_color(rng) if dk else "-", gen_color(rng) if dk else "-",
            rng.choice([0, 1, 8]) if dk else 0))
    return pool


def style_hl(tok):
    return int(tok.split(",")[3]) & 8 != 0


def gen_run_case(rng):
    """One `superimpose.run` case: dict(tc, null, syn, diff, kind)."""
    kind = rng.choice(["same", "same", "same", "same", "nl", "nl", "nl2", "lone-nl",
                       "mismatch", "syn-short", "syn-long", "empty"])
    base = gen_text(rng, 0 if kind == "empty" else 1, 0 if kind == "empty" else 14)
    if kind == "nl":
        base += "\n"
    elif kind == "nl2":
        base += "\n\n"
    elif kind == "lone-nl":
        base += "\n"
    syn_text = diff_text = base
    if kind == "mismatch" and base:
        i = rng.randrange(len(base))
        repl = rng.choice([c for c in ALPHA if c != base[i]])
        if rng.random() < 0.5:
            syn_text = base[:i] + repl + base[i + 1:]
        else:
            diff_text = base[:i] + repl + base[i + 1:]
    elif kind == "syn-short" and base:
        syn_text = base[:rng.randrange(len(base))]
    elif kind == "syn-long":
        syn_text = base + gen_text(rng, 1, 3)
    spool, dpool = gen_syn_pool(rng), gen_style_pool(rng)
    syn = [(rng.choice(spool), p) for p in partition(rng, syn_text)]
    diff = [(rng.choice(dpool), p) for p in partition(rng, diff_text)]
    if kind == "lone-nl":
        # the newline as its own section on one or both sides (as syntect / ansi parsing do)
        body = base[:-1]
        if rng.random() < 0.7:
            syn = [(rng.choice(spool), p) for p in partition(rng, body)] + [(rng.choice(spool), "\n")]
        if rng.random() < 0.7:
            diff = [(rng.choice(dpool), p) for p in partition(rng, body)] + [(rng.choice(dpool), "\n")]
    null = NULL_SYN if rng.random() < 0.8 else rng.choice(spool)
    return dict(tc=rng.randint(0, 1), null=null, syn=syn, diff=diff, kind=kind)


def quant_keys(case_syn_tokens):
    ks = set()
    for tok in case_syn_tokens:
        fg, bg, _ = tok.split(",")
        ks.add(fg[:6])
        ks.add(bg[:6])
    return sorted(ks)


def run_request(case, quant):
    keys = quant_keys([s for s, _ in case["syn"]] + [case["null"]])
    q = "Q" + ",".join("%s:%d" % (k, quant[k]) for k in keys)
    f = ["superimpose.run", str(case["tc"]), case["null"], q, str(len(case["syn"]))]
    for s, t in case["syn"]:
        f += [s, hx(t)]
    f.append(str(len(case["diff"])))
    for s, t in case["diff"]:
        f += [s, hx(t)]
    return " ".join(f)


def f1_oracle(case, resp):
    """The property on the real function's output. Returns (signature, what) or None."""
    syn_c, diff_c = explode(case["syn"]), explode(case["diff"])
    n = min(len(syn_c), len(diff_c))
    mismatch = any(syn_c[i][1] != diff_c[i][1] for i in range(n))
    if resp.startswith("PANIC"):
        return None if mismatch else ("superimpose:panic-on-equal-text", "panic although the texts agree")
    if not resp.startswith("ok "):
        return ("superimpose:hook-error", resp[:200])
    if mismatch:
        return None  # the model comparison covers it (both must panic)
    out_c = explode(parse_sections(resp))
    text = "".join(c for _, c in diff_c[:n])
    if text.endswith("\n"):
        text = text[:-1]
    if "".join(c for _, c in out_c) != text:
        return ("superimpose:text-changed", "output text differs from the input text (minus one final newline)")
    for i, (st, _) in enumerate(out_c):
        o, d = st.split(","), diff_c[i][0].split(",")
        if o[1:] != d[1:]:
            return ("superimpose:non-fg-field-changed", "a field other than the foreground differs from the diff style at char %d" % i)
        if o[0] != d[0] and not (style_hl(diff_c[i][0]) and syn_c[i][0] != case["null"]):
            return ("superimpose:fg-changed-without-syntax", "foreground changed where the style is not syntax-highlighted or the syntect style is null at char %d" % i)
    return None


# --------------------------------------------------------------------------- generators: paths

PATH_PARTS = ["a", "src", "foo.rs", "b.py", "Makefile", "GNUmakefile", ".", "..", "", "x.tar.gz", ".bashrc",
              "rs", "a.", ".a.b", "日本語.rs", "né", "main.RS", "x.zz", "Dockerfile", "dir.rs", "py", "a b.c", "README.md", "LICENSE", "abcd", "abcde"]


def gen_path(rng):
    k = rng.randint(1, 4)
    p = "/".join(rng.choice(PATH_PARTS) for _ in range(k))
    if rng.random() < 0.15:
        p = "/" + p
    if rng.random() < 0.15:
        p = p + "/"
    return p


def name_candidates(path):
    """Every string that could be the file name or extension of `path` (superset)."""
    c = {""}
    for i in range(len(path) + 1):
        if i == 0 or path[i - 1] in "/.":
            for j in range(i, len(path) + 1):
                if j == len(path) or path[j] == "/":
                    c.add(path[i:j])
    return c


# --------------------------------------------------------------------------- generators: diffs

LANGS = {
    "rust": dict(names=["%s.rs"], lines=[
        "fn main() {", "    let mut x: u32 = 42; // answer", "    println!(\"hello {}\", x);",
        "    if x > 10 && y != \"a\" { return None; }", "/* block */ struct Foo<'a> { name: &'a str }",
        "impl Foo { fn new() -> Self { Foo { s: \"é日本\" } } }", "}", "    let s = 'c'; let t = 1.5e3;"]),
    "python": dict(names=["%s.py", "%s.pyw", "%s.py3", "%s.pyi"], lines=[
        "def main(argv=None):", "    x = 42  # answer", "    print(f\"hello {x}\")",
        "    if x > 10 and y != 'a': return None", "class Foo(Bar):", "    '''doc é日本'''",
        "import os, sys", "    return [i ** 2 for i in range(10)]"]),
    "c": dict(names=["%s.c"], lines=[
        "#include <stdio.h>", "int main(int argc, char **argv) {", "    int x = 42; /* answer */",
        "    printf(\"hello %d\\n\", x);", "    if (x > 10 && y != 'a') return 0;", "}", "static const char *s = \"é日本\";"]),
    "cpp": dict(names=["%s.cpp", "%s.cc", "%s.cxx", "%s.hpp"], lines=[
        "#include <vector>", "template <typename T> class Foo : public Bar {", "    auto x = std::vector<int>{1, 2, 3}; // v",
        "    for (auto &i : x) std::cout << i << \"\\n\";", "};", "namespace ns { constexpr int k = 0x2a; }"]),
    "js": dict(names=["%s.js", "%s.mjs", "%s.cjs"], lines=[
        "const x = 42; // answer", "function main(argv) {", "  console.log(`hello ${x}`);",
        "  if (x > 10 && y !== 'a') return null;", "}", "export default class Foo extends Bar {}", "let r = /ab+c/g;"]),
    "make": dict(names=["Makefile", "makefile", "GNUmakefile", "%s.mk", "%s.mak"], lines=[
        "CC := gcc", "all: main.o util.o", "\t$(CC) -o $@ $^ # link", "%.o: %.c", "\t$(CC) -c $< -o $@",
        ".PHONY: clean", "clean:", "\trm -f *.o"]),
    "sh": dict(names=["%s.sh", "%s.bash", "%s.zsh"], lines=[
        "#!/bin/sh", "x=42 # answer", "echo \"hello $x\"", "if [ \"$x\" -gt 10 ]; then exit 0; fi",
        "for f in *.c; do cc -c \"$f\"; done", "foo() { return 1; }"]),
    "ruby": dict(names=["%s.rb", "Rakefile", "Gemfile", "%s.rake", "%s.gemspec"], lines=[
        "class Foo < Bar", "  def main(argv = nil)", "    x = 42 # answer", "    puts \"hello #{x}\"",
        "    return nil if x > 10 && y != 'a'", "  end", "end", "task :default => [:test]"]),
    "yaml": dict(names=["%s.yml", "%s.yaml"], lines=[
        "name: demo # c", "version: 1.2", "items:", "  - a: \"x\"", "  - b: [1, 2, 3]", "flag: true"]),
    "md": dict(names=["%s.md", "%s.markdown", "%s.mdown"], lines=[
        "# Title", "Some *emphasis* and `code` here.", "- item one", "- item **two**", "[link](http://x.y/z)", "> quote é日本"]),
    "json": dict(names=["%s.json"], lines=[
        "{", "  \"name\": \"demo\",", "  \"n\": 42,", "  \"list\": [1, 2.5, null, true],", "  \"s\": \"é日本\"", "}"]),
    "html": dict(names=["%s.html", "%s.htm", "%s.xhtml"], lines=[
        "<!DOCTYPE html>", "<html lang=\"en\">", "<body class=\"a b\"><!-- c -->", "  <p id='x'>hello &amp; bye</p>",
        "  <script>var x = 42;</script>", "</body>", "</html>"]),
    "docker": dict(names=["Dockerfile", "Containerfile", "%s.Dockerfile"], lines=[
        "FROM debian:12 AS build", "RUN apt-get update && apt-get install -y gcc # c", "COPY . /src",
        "ENV X=42", "CMD [\"/bin/sh\", \"-c\", \"echo hi\"]"]),
    "plain": dict(names=["%s.txt", "%s", "%s.zzq"], lines=[
        "plain text line one", "def not_code(): pass", "#!/usr/bin/env python", "tab\there é日本", "x = 42 // nothing"]),
}

STEMS = ["qzxa", "wvub", "kjyd", "pmre", "hgtc"]        # ≤ 4 bytes: unknown without an extension
LONG_STEMS = ["qzxab", "wvuts", "kjydh"]                 # > 4 bytes: looked up as whole names (unknown)

WORD_RE = re.compile(r"[A-Za-z_][A-Za-z0-9_]*|\d+")


def edit_line(rng, line):
    """A within-line edit (so that emph sections appear)."""
    ws = list(WORD_RE.finditer(line))
    if not ws or rng.random() < 0.15:
        return line + rng.choice([" x", " // é", "  ", "\t#"])
    m = rng.choice(ws)
    repl = rng.choice(["foo", "bar42", "é", "日本", "0", "x_y", "return"])
    return line[:m.start()] + repl + line[m.end():]


def gen_hunk(rng, lang, start, long_ok=False):
    src = LANGS[lang]["lines"]
    body, old_n, new_n = [], 0, 0
    n_items = rng.randint(1, 5)
    for _ in range(n_items):
        k = rng.random()
        line = rng.choice(src)
        if long_ok and rng.random() < 0.15:
            line = line + " " + "y = y + 1; " * 12          # long line (see gen_opts: only where
            # the `available_terminal_width - text_width` underflow of paint_lines, a C03 defect, cannot hit)
        if rng.random() < 0.05:
            line = ""
        if k < 0.3:
            body.append(" " + line)
            old_n += 1
            new_n += 1
        elif k < 0.65:
            m = rng.randint(1, 2)
            olds = [rng.choice(src) if i else line for i in range(m)]
            news = [edit_line(rng, o) for o in olds]
            if rng.random() < 0.3:
                news = news[:1]
            body += ["-" + o for o in olds] + ["+" + x for x in news]
            old_n += len(olds)
            new_n += len(news)
        elif k < 0.82:
            body.append("-" + line)
            old_n += 1
        else:
            body.append("+" + line)
            new_n += 1
    frag = rng.choice(["", " " + rng.choice(src).strip()])
    head = "@@ -%d,%d +%d,%d @@%s" % (start, old_n, start, new_n, frag)
    return [head] + body


def gen_file_section(rng, lang, path_old, path_new, mode="modify"):
    lines = ["diff --git a/%s b/%s" % (path_old if mode != "add" else path_new, path_new if mode != "delete" else path_old)]
    if mode == "rename":
        lines += ["similarity index 80%", "rename from " + path_old, "rename to " + path_new]
    if mode == "add":
        lines.append("new file mode 100644")
    if mode == "delete":
        lines.append("deleted file mode 100644")
    lines.append("index 1111111..2222222" + (" 100644" if mode in ("modify", "rename") else ""))
    lines.append("--- " + ("/dev/null" if mode == "add" else "a/" + path_old))
    lines.append("+++ " + ("/dev/null" if mode == "delete" else "b/" + path_new))
    return lines


def gen_hunks(rng, lang, mode="modify", long_ok=False):
    out, start = [], rng.randint(1, 50)
    for _ in range(rng.randint(1, 2)):
        h = gen_hunk(rng, lang, start, long_ok)
        if mode == "add":
            h = ["@@ -0,0 +1,%d @@" % sum(1 for x in h[1:] if x[0] in "+ ")] + ["+" + x[1:] for x in h[1:] if x[0] in "+ "]
        if mode == "delete":
            h = ["@@ -1,%d +0,0 @@" % sum(1 for x in h[1:] if x[0] in "- ")] + ["-" + x[1:] for x in h[1:] if x[0] in "- "]
        if len(h) > 1:
            out += h
        start += 40
    if not out:
        out = ["@@ -1,1 +1,1 @@", "-a", "+b"]
    return out


BG = dict(minus=52, minus_emph=88, minus_non_emph=53, plus=22, plus_emph=28, plus_non_emph=23, zero=17, hunk_header=236)
FG = dict(minus=201, minus_emph=202, minus_non_emph=203, plus=204, plus_emph=205, plus_non_emph=206, zero=207, hunk_header=208)
ATTRS = ["bold", "italic", "ul", "strike", "dim", "blink", "reverse"]


def gen_config(rng, kind, true_color):
    """-> (args, meta) ; meta: {bg colour value: (style name, has_syntax, expected fg)}"""
    args, meta = [], {}
    if kind == "default":
        return args, meta
    use_rgb = true_color == "always" and rng.random() < 0.5
    for name in BG:
        syntax = kind == "syntax-all" or (kind == "mixed" and rng.random() < 0.5)
        if use_rgb:
            n = BG[name]
            bgs, bgv = "#%02x%02x%02x" % (n, 7, 255 - n), ("rgb", n, 7, 255 - n)
        else:
            bgs, bgv = str(BG[name]), ("idx", BG[name])
        if syntax:
            fgs, fgv = "syntax", None
        elif rng.random() < 0.2:
            fgs, fgv = "normal", None
        elif use_rgb and rng.random() < 0.5:
            n = FG[name]
            fgs, fgv = "#%02x%02x%02x" % (255 - n, n, 9), ("rgb", 255 - n, n, 9)
        else:
            fgs, fgv = str(FG[name]), ("idx", FG[name])
        words = [fgs, bgs] + rng.sample(ATTRS, rng.choice([0, 0, 1, 2]))
        if name == "hunk_header":
            words += rng.sample(["line-number", "file"], rng.choice([0, 1, 2]))
        rng.shuffle(words)
        # the two colours must stay in order fg, bg
        cols = [w for w in words if w in (fgs, bgs)]
        if cols != [fgs, bgs] and fgs != bgs:
            i, j = words.index(fgs), words.index(bgs)
            words[i], words[j] = words[j], words[i]
        args += ["--%s-style" % name.replace("_", "-"), " ".join(words)]
        meta[bgv] = (name, syntax, fgv)
    return args, meta


def gen_opts(rng, hyperlinks=True):
    tc = rng.choice(["always", "never"])
    args = ["--true-color", tc, "--width", "200"]
    if rng.random() < 0.3:
        args.append("-n")
    if rng.random() < 0.2:
        args.append("-s")
    if rng.random() < 0.25:
        args.append("--keep-plus-minus-markers")
    if rng.random() < 0.3:
        args += ["--tabs", str(rng.choice([0, 2, 4]))]
    if rng.random() < 0.3:
        args += ["--line-fill-method", rng.choice(["ansi", "spaces"])]
    if rng.random() < 0.2:
        args += ["--max-syntax-highlighting-length", str(rng.choice([10, 40]))]
    if rng.random() < 0.15:
        args += ["--max-line-length", "60"]
    if rng.random() < 0.1 and hyperlinks:
        args += ["--hyperlinks"]      # link targets contain the absolute path, hence the cwd
    return args, tc


def list_themes(ctx):
    rc, out, _ = ctx.run_delta(["--list-syntax-themes"], b"")
    th = {"dark": [], "light": []}
    for ln in out.decode().splitlines():
        if "\t" in ln:
            k, name = ln.split("\t", 1)
            if k in th:
                th[k].append(name)
    return th


# --------------------------------------------------------------------------- binary oracles

def run_case(ctx, args, stdin, cwd=None):
    rc, out, err = ctx.run_delta(["--no-gitconfig"] + args, stdin, cwd=cwd)
    return rc, out, err


def replay_obj(oracle, runs, **extra):
    d = dict(oracle=oracle, runs=[dict(args=a, stdin_b64=base64.b64encode(s).decode(), files=f or {}) for a, s, f in runs])
    d.update(extra)
    return d


def check_theme_group(rep, outs, labels, meta, nosyntax_all, runs):
    """B1/B2/B3 on the outputs of one diff under several themes. Returns #violations."""
    v = 0
    dec = [decode(o) for o in outs]
    base = erase_fg(dec[0])
    for k in range(1, len(dec)):
        d = first_diff(base, erase_fg(dec[k]))
        if d:
            v += rep.violation("theme:non-fg-cell-differs",
                               "cells differ beyond the foreground between %s and %s: %s" % (labels[0], labels[k], d),
                               replay_obj("B1", [runs[0], runs[k]], labels=[labels[0], labels[k]]))
            break
    if nosyntax_all:
        full = with_fg(dec[0])
        for k in range(1, len(dec)):
            d = first_diff(full, with_fg(dec[k]))
            if d:
                v += rep.violation("theme:fg-differs-without-syntax",
                                   "no style asks for syntax, yet foregrounds differ between %s and %s: %s" % (labels[0], labels[k], d),
                                   replay_obj("B2", [runs[0], runs[k]], labels=[labels[0], labels[k]]))
                break
    if meta:
        for k, rows in enumerate(dec):
            bad = None
            for r, row in enumerate(rows):
                for it in row:
                    if it[0] == "c" and it[3] in meta:
                        name, syntax, fgv = meta[it[3]]
                        if not syntax and it[2] != fgv:
                            bad = dict(row=r, style=name, expected=fgv, got=it[2], text=row_text(row)[:80])
                            break
                if bad:
                    break
            if bad:
                v += rep.violation("theme:configured-fg-not-kept",
                                   "text painted by a style without 'syntax' lost its configured foreground under %s: %s" % (labels[k], bad),
                                   replay_obj("B3", [runs[k]], labels=[labels[k]], meta=[[list(b), list(m)] for b, m in meta.items()]))
                break
    return v


def rows_without(outb, names):
    """Rows of stdout whose visible text mentions none of `names`: raw bytes, or (when the
    output carries OSC 8 hyperlinks, whose targets contain the path) decoded cells without
    the link."""
    raw = outb.split(b"\n")
    dec = decode(outb)
    links = b"\x1b]8;" in outb
    keep = []
    for i, r in enumerate(dec):
        t = row_text(r)
        if t and all(0x2500 <= ord(ch) <= 0x257f or ch == " " for ch in t):
            continue   # box / rule decoration rows: their width follows the printed file name
        if not any(n in t for n in names):
            if links:
                keep.append(repr([it[:5] if it[0] == "c" else it for it in r]).encode())
            else:
                keep.append(raw[i] if i < len(raw) else b"")
    return keep


def compare_rows(rep, sig, what, out_a, out_b, names, runs, **extra):
    a, b = rows_without(out_a, names), rows_without(out_b, names)
    if a != b:
        k = next((i for i in range(min(len(a), len(b))) if a[i] != b[i]), min(len(a), len(b)))
        detail = dict(row=k, a=(a[k][:160].decode("utf-8", "replace") if k < len(a) else None),
                      b=(b[k][:160].decode("utf-8", "replace") if k < len(b) else None))
        return rep.violation(sig, what + ": " + repr(detail), replay_obj(sig, runs, names=names, **extra))
    return False


class Probe:
    """Collects violations without reporting them (first pass of `confirm`)."""

    def __init__(self):
        self.v = []

    def violation(self, sig, what, replay):
        self.v.append(sig)
        return True


def confirm(ctx, rep, runs, res, evaluate, cwd_files=None):
    """Report what `evaluate(results, sink)` finds only if it reproduces when the same runs are
    repeated one at a time. A defect is a function of the input and reproduces; interference
    from the machine does not. (The real binary scans the process table for a calling
    `git`/`rg`; other checks running in parallel spawn such processes, and the pin
    DELTA_VERIF_FORCE_GUESS is not in the tree yet — see notes/C15.md.)"""
    probe = Probe()
    evaluate(res, probe)
    if not probe.v:
        return
    tmp = []
    try:
        res2 = []
        for k, r in enumerate(runs):
            cwd = r[2]
            if cwd_files is not None:
                cwd = with_files(cwd_files[k])
                tmp.append(cwd)
            res2.append(run_case(ctx, r[0], r[1], cwd))
    finally:
        for d in tmp:
            shutil.rmtree(d, ignore_errors=True)
    probe2 = Probe()
    evaluate(res2, probe2)
    if probe2.v:
        evaluate(res2, rep)
    else:
        rep.count("binary:not-reproduced-on-rerun")


def with_files(files):
    """Temp working directory holding `files` {relpath: text}."""
    d = tempfile.mkdtemp(prefix="c15-", dir=os.path.join(BUILD))
    for rel, txt in files.items():
        p = os.path.join(d, rel)
        os.makedirs(os.path.dirname(p), exist_ok=True)
        with open(p, "w") as f:
            f.write(txt)
    return d


# --------------------------------------------------------------------------- the check

def correspondence(ctx, rep):
    rng = ctx.rng
    hook = ctx.hook()
    mdl = ctx.model("drv_superimpose") if ctx.drivers_ok else None

    def both(reqs, model_reqs=None):
        impl = hook.ask(reqs)
        model = mdl.ask(model_reqs or reqs) if mdl else [None] * len(reqs)
        return impl, model

    # --- null style constant (generated) vs config
    impl, model = both(["superimpose.nullstyle"])
    rep.notes["null_syntect_style"] = impl[0]
    if model[0] is not None:
        rep.corr_case("superimpose.nullstyle", impl[0] == model[0], dict(impl=impl[0], model=model[0]))

    # --- to_ansi_color
    cols = list(SYN_COLORS) + ["%02x%02x%02x%02x" % (rng.randint(0, 255), rng.randint(0, 255), rng.randint(0, 255),
                                                     rng.choice([0, 1, 2, 128, 255])) for _ in range(ctx.n(60, 600))]
    quant = {}
    qk = sorted({c[:6] for c in cols})
    for k, r in zip(qk, hook.ask(["superimpose.quant " + k for k in qk])):
        quant[k] = int(r.split()[1])
    reqs, mreqs = [], []
    for c in cols:
        for tc in (0, 1):
            reqs.append("superimpose.toansi %s %d" % (c, tc))
            mreqs.append("superimpose.toansi %s %d Q%s:%d" % (c, tc, c[:6], quant[c[:6]]))
    impl, model = both(reqs, mreqs)
    for rq, i, m in zip(reqs, impl, model):
        rep.case(key=rq, nontrivial=True)
        rep.count("toansi")
        if m is not None:
            rep.corr_case("superimpose.toansi", i == m, dict(req=rq, impl=i, model=m))

    # --- superimpose_style_sections on random sections
    cases = [gen_run_case(rng) for _ in range(ctx.n(600, 12000))]
    # realistic syntect partitions: real highlighter output as the syntect side
    real = []
    th = rng.choice(["Nord", "GitHub", "ansi", "zenburn"])
    hl_reqs, hl_meta = [], []
    for lang in ("rust", "python", "make", "md"):
        for line in LANGS[lang]["lines"][:ctx.n(3, 8)]:
            for nl in ("\n", ""):
                name = LANGS[lang]["names"][0] % "t" if "%s" in LANGS[lang]["names"][0] else LANGS[lang]["names"][0]
                hl_reqs.append("superimpose.highlight %s %s" % (hx(name), hx(line + nl)))
                hl_meta.append(line + nl)
    cfgline = "cfg %s %s" % (hx("--syntax-theme"), hx(th))
    hl = hook.ask([cfgline] + hl_reqs, sticky=[0])[1:]
    parts_ok = 0
    for line, r in zip(hl_meta, hl):
        if not r.startswith("ok "):
            continue
        f = r.split(" ")
        syn = [(f[2 + 2 * k], unhx(f[3 + 2 * k]).decode()) for k in range(int(f[1]))]
        if "".join(t for _, t in syn) == line:
            parts_ok += 1
        else:
            rep.count("ASSUMPTION-BROKEN:syntect-does-not-partition")
        dpool = gen_style_pool(rng)
        real.append(dict(tc=rng.randint(0, 1), null=NULL_SYN, syn=syn,
                         diff=[(rng.choice(dpool), p) for p in partition(rng, line)], kind="syntect"))
    rep.notes["syntect_partition_checked"] = dict(lines=len(hl_meta), partitions=parts_ok, theme=th)
    cases += real
    keys = set()
    for c in cases:
        keys.update(quant_keys([s for s, _ in c["syn"]] + [c["null"]]))
    need = sorted(k for k in keys if k not in quant)
    for k, r in zip(need, hook.ask(["superimpose.quant " + k for k in need])):
        quant[k] = int(r.split()[1])
    reqs = [run_request(c, quant) for c in cases]
    impl, model = both(reqs)
    for c, rq, i, m in zip(cases, reqs, impl, model):
        multi = len(c["syn"]) > 1 or len(c["diff"]) > 1
        rep.case(key=rq, nontrivial=multi and c["kind"] != "empty",
                 sample=dict(op="superimpose.run", kind=c["kind"], syn=c["syn"], diff=c["diff"], impl=i[:200]))
        rep.count("run:" + c["kind"])
        rep.count("run:PANIC" if i.startswith("PANIC") else "run:ok")
        if m is not None:
            agree = (i == m) or (i.startswith("PANIC") and m.startswith("PANIC"))
            rep.corr_case("superimpose.run", agree, dict(req=rq, impl=i, model=m))
        bad = f1_oracle(c, i)
        if bad:
            rep.violation(bad[0], bad[1], dict(oracle="F1", request=rq, impl=i))

    # --- coalesce alone
    creqs = []
    for _ in range(ctx.n(200, 3000)):
        spool, dpool = gen_syn_pool(rng)[:3], gen_style_pool(rng)[:2]
        txt = gen_text(rng, 0, 10) + rng.choice(["", "\n", "\n\n"])
        f = ["superimpose.coalesce", str(rng.randint(0, 1)), NULL_SYN]
        trip = [(rng.choice(spool), rng.choice(dpool), ch) for ch in txt]
        ks = quant_keys([s for s, _, _ in trip] + [NULL_SYN])
        need = [k for k in ks if k not in quant]
        for k, r in zip(need, hook.ask(["superimpose.quant " + k for k in need])):
            quant[k] = int(r.split()[1])
        f.append("Q" + ",".join("%s:%d" % (k, quant[k]) for k in ks))
        f.append(str(len(trip)))
        for s, d, ch in trip:
            f += [s, d, hx(ch)]
        creqs.append((" ".join(f), trip))
    impl, model = both([r for r, _ in creqs])
    for (rq, trip), i, m in zip(creqs, impl, model):
        rep.case(key=rq, nontrivial=len(trip) > 1)
        rep.count("coalesce")
        if m is not None:
            rep.corr_case("superimpose.coalesce", i == m, dict(req=rq, impl=i, model=m))
        if i.startswith("ok "):
            out = parse_sections(i)
            txt = "".join(ch for _, _, ch in trip)
            exp = txt[:-1] if txt.endswith("\n") else txt
            if "".join(t for _, t in out) != exp:
                rep.violation("coalesce:text-changed", "coalesce changed the text", dict(oracle="F1c", request=rq, impl=i))

    # --- path parts and language lookup
    tmp = with_files({"qzxab": "#!/usr/bin/env python\nprint(1)\n", "LICENSE": "#!/bin/sh\n", "abcde": "<?php echo 1;\n"})
    try:
        phook = ctx.hook()
        phook.cwd = tmp
        paths = [gen_path(rng) for _ in range(ctx.n(250, 4000))] + ["qzxab", "src/qzxab", "LICENSE", "abcde", "", "/", ".", "..", "a/..", "./a.rs", "a.rs/."]
        impl = phook.ask(["superimpose.pathparts " + hx(p) for p in paths])
        model = mdl.ask(["superimpose.pathparts " + hx(p) for p in paths]) if mdl else [None] * len(paths)
        for p, i, m in zip(paths, impl, model):
            rep.count("pathparts")
            if m is not None:
                rep.corr_case("superimpose.pathparts", i == m, dict(path=p, impl=i, model=m))
        cands = set()
        for p in paths:
            cands |= name_candidates(p)
        cands = sorted(cands)
        byext = {}
        for k, r in zip(cands, phook.ask(["superimpose.byext " + hx(k) for k in cands])):
            byext[k] = None if r == "ok -" else unhxs(r.split()[1])
        defaults = ["txt", "rs", "nosuchlang", "Makefile"]
        fb = {}
        for d, r in zip(defaults, phook.ask(["superimpose.fallback " + hx(d) for d in defaults])):
            fb[d] = unhxs(r.split()[1])
        rep.notes["fallback_syntax"] = fb
        reqs, meta = [], []
        for p in paths + [None]:
            d = rng.choice(defaults)
            keys = sorted(name_candidates(p)) if p is not None else []
            tbl = "T" + ",".join("%s:%s" % (k.encode().hex(), byext[k].encode().hex() if byext[k] is not None else "-") for k in keys)
            reqs.append("superimpose.syntax %s %s %s %s" % (hx(p) if p is not None else "-", hx(d), hx(fb[d]), tbl))
            meta.append((p, d))
        impl = phook.ask(reqs)
        model = mdl.ask(reqs) if mdl else [None] * len(reqs)
        got = {}
        has_name = {p: (r.startswith("ok ") and r.split()[1] != "x") for p, r in
                    zip(paths, phook.ask(["superimpose.pathparts " + hx(p) for p in paths]))}
        for (p, d), rq, i, m in zip(meta, reqs, impl, model):
            rep.case(key=("syntax", p, d), nontrivial=p is not None and "/" in p)
            rep.count("syntax")
            if i.startswith("ok "):
                name = unhxs(i.split()[1])
                got[(p, d)] = name
                rep.count("syntax:default" if name == fb[d] else "syntax:found")
            if m is not None:
                rep.corr_case("superimpose.syntax", i == m, dict(path=p, default=d, impl=i, model=m))
        # direct oracle: a directory prefix never changes the language
        pre_reqs, pre_meta = [], []
        for (p, d), name in list(got.items())[:ctx.n(150, 2000)]:
            if p is None or p.startswith("/") or not has_name.get(p):
                continue   # no file name (".", "..", ""): a prefix would supply one
            q = rng.choice(["zz/", "a.rs/", "/x.py/y/", "./"]) + p
            pre_reqs.append("superimpose.syntax %s %s" % (hx(q), hx(d)))
            pre_meta.append((p, q, d, name))
        for (p, q, d, name), r in zip(pre_meta, phook.ask(pre_reqs)):
            if r.startswith("ok ") and unhxs(r.split()[1]) != name:
                rep.violation("language:directory-changes-language",
                              "language of %r is %s but of %r it is %s" % (p, name, q, unhxs(r.split()[1])),
                              dict(oracle="F2", path=p, prefixed=q, default=d))
    finally:
        shutil.rmtree(tmp, ignore_errors=True)


def pick_name(rng, lang, stem=None):
    pat = rng.choice(LANGS[lang]["names"])
    return pat % (stem or rng.choice(STEMS)) if "%s" in pat else pat


def validate_name_groups(ctx, rep):
    """Keep, per language, only the names that syntect's own table (find_syntax_by_extension,
    trusted) maps to the same syntax as the first one; `plain` = names it does not know."""
    hook = ctx.hook()
    keys = []
    for lang, d in LANGS.items():
        for pat in d["names"]:
            keys.append((lang, pat, pat.split(".")[-1] if "%s" in pat else pat))
    keys += [("plain", s, s) for s in STEMS + LONG_STEMS]
    ans = hook.ask(["superimpose.byext " + hx(k) for _, _, k in keys])
    res = {}
    for (lang, pat, k), r in zip(keys, ans):
        res.setdefault(lang, []).append((pat, None if r == "ok -" else unhxs(r.split()[1])))
    dropped = {}
    for lang, d in LANGS.items():
        if lang == "plain":
            ok = [p for p, syn in res[lang] if syn in (None, "Plain Text")]
        else:
            first = res[lang][0][1]
            ok = [p for p, syn in res[lang] if syn == first and syn is not None]
        bad = [p for p, _ in res[lang] if p not in ok and p in d["names"]]
        if bad:
            dropped[lang] = bad
        d["names"] = [p for p in d["names"] if p in ok] or d["names"][:1]
    rep.notes["name_groups"] = {l: d["names"] for l, d in LANGS.items()}
    if dropped:
        rep.notes["name_groups_dropped"] = dropped


def binary_oracles(ctx, rep):
    rng = ctx.rng
    validate_name_groups(ctx, rep)
    themes = list_themes(ctx)
    rep.notes["themes"] = {k: len(v) for k, v in themes.items()}
    if len(themes["dark"]) < 2 or len(themes["light"]) < 2:
        rep.violation("themes:list-unavailable", "--list-syntax-themes gave too few themes", dict(oracle="setup", themes=themes))
        return
    langs = [l for l in LANGS]
    jobs = []
    n_cases = ctx.n(120, 2500)
    per_case_themes = ctx.n(3, 6)
    for ci in range(n_cases):
        lang = rng.choice(langs)
        nfiles = rng.choice([1, 1, 2])
        kind = rng.choice(["default", "syntax-all", "nosyntax-all", "mixed", "mixed"])
        oargs, tc = gen_opts(rng)
        cargs, meta = gen_config(rng, kind, tc)
        # Lines wider than the (non-tty: 79 column) terminal make the space-fill of
        # paint_lines underflow (DESIGN.md section 6 #5, C03); side-by-side wraps instead.
        long_ok = "-s" in oargs or (kind == "default" and "spaces" not in oargs)
        sections, names = [], []
        for _ in range(nfiles):
            l2 = lang if not sections else rng.choice(langs)
            name = pick_name(rng, l2)
            path = rng.choice(["", "src/", "a b/"]) + name
            names.append((l2, name, path))
            sections.append((l2, path, gen_hunks(rng, l2, long_ok=long_ok)))
        cls = rng.choice(["dark", "dark", "light"])
        explicit = rng.random() < 0.3
        ths = rng.sample(themes[cls], min(per_case_themes, len(themes[cls])))
        labels = list(ths)
        if cls == "dark" or explicit:
            labels.append("none")
        flag = ["--" + cls] if explicit else []

        def mk_diff(secs):
            out = []
            for l2, path, hunks in secs:
                out += gen_file_section(rng, l2, path, path) + hunks
            return ("\n".join(out) + "\n").encode()
        stdin = mk_diff(sections)
        runs = [(flag + ["--syntax-theme", t] + oargs + cargs, stdin, None) for t in labels]
        job = dict(kind=kind, meta=meta, labels=labels, runs=runs, lang=lang, names=names, tc=tc)
        # B4: renamed variant under the first theme
        ren, changed = [], False
        for l2, path, hunks in sections:
            d, base = os.path.split(path)
            alts = [n for n in {pick_name(rng, l2, s) for s in STEMS for _ in range(2)} if n != base]
            if l2 == "plain":
                alts += [s for s in LONG_STEMS]
            if alts:
                nb = rng.choice(sorted(alts))
                changed = True
            else:
                nb = base
            ren.append((l2, os.path.join(d, nb) if d else nb, hunks, base, nb))
        if changed:
            job["rename"] = dict(run=(runs[0][0], mk_diff([(a, b, c) for a, b, c, _, _ in ren]), None),
                                 names=sorted({x for _, _, _, o, n in ren for x in (o, n)}))
            # non-vacuity: a name of another language
            ol = rng.choice([l for l in langs if l != sections[0][0]])
            other = [(sections[0][0], pick_name(rng, ol), sections[0][2])] + [(a, b, c) for a, b, c in sections[1:]]
            job["control"] = dict(run=(runs[0][0], mk_diff(other), None), names=sorted({other[0][1], sections[0][1].split("/")[-1]}))
        jobs.append(job)

    flat = []
    for j in jobs:
        j["idx"] = []
        for r in j["runs"] + ([j["rename"]["run"]] if "rename" in j else []) + ([j["control"]["run"]] if "control" in j else []):
            j["idx"].append(len(flat))
            flat.append(r)
    results = parallel_map(lambda r: run_case(ctx, r[0], r[1], r[2]), flat)

    for j in jobs:
        res = [results[i] for i in j["idx"]]
        nth = len(j["runs"])
        all_runs = [flat[i] for i in j["idx"]]
        rep.count("binary:config:" + j["kind"])
        rep.count("binary:lang:" + j["lang"])

        def evaluate(res, sink, j=j, nth=nth):
            outs = [r[1] for r in res[:nth]]
            rcs = [r[0] for r in res[:nth]]
            if any(rc != 0 for rc in rcs):
                # crashes are C03's subject; here they only make the case unusable — unless
                # the crash depends on the theme, which is a C15 failure as well.
                if len(set(rcs)) > 1:
                    k = next(i for i, rc in enumerate(rcs) if rc != rcs[0])
                    sink.violation("theme:exit-status-differs",
                                   "exit status %s under %s but %s under %s: %s" % (rcs[0], j["labels"][0], rcs[k], j["labels"][k], res[k][2][-200:]),
                                   replay_obj("B1", [j["runs"][0], j["runs"][k]], labels=[j["labels"][0], j["labels"][k]]))
                return
            check_theme_group(sink, outs, j["labels"], j["meta"], j["kind"] == "nosyntax-all", j["runs"])
            if "rename" in j and res[nth][0] == 0:
                compare_rows(sink, "language:rename-same-kind-changes-colouring",
                             "renaming to another name of the same language changed hunk rows (%s)" % j["rename"]["names"],
                             outs[0], res[nth][1], j["rename"]["names"], [j["runs"][0], j["rename"]["run"]])

        if any(r[0] != 0 for r in res[:nth]):
            rep.count("binary:nonzero-exit")
        else:
            outs = [r[1] for r in res[:nth]]
            distinct_fg = len({repr(with_fg(decode(o))) for o in outs}) > 1
            rep.case(key=(sha(j["runs"][0][1]), tuple(j["runs"][0][0])), nontrivial=distinct_fg,
                     sample=dict(op="binary-themes", themes=j["labels"], config=j["kind"], args=j["runs"][0][0][2:],
                                 diff=j["runs"][0][1].decode()[:300]))
            rep.count("binary:theme-runs", nth)
            if "rename" in j:
                rep.count("binary:rename")
                c = res[nth + 1]
                if c[0] == 0 and rows_without(outs[0], j["control"]["names"]) != rows_without(c[1], j["control"]["names"]):
                    rep.count("binary:rename-control-differs")
        confirm(ctx, rep, all_runs, res, evaluate)

    # ---- B5 / B6: which path, and nothing but the path
    n5 = ctx.n(12, 150)
    b5 = []
    for _ in range(n5):
        l_new = rng.choice([l for l in langs if l != "plain"])
        l_old = rng.choice([l for l in langs if l not in (l_new,)])
        new, old = pick_name(rng, l_new, "qzxa"), pick_name(rng, l_old, "wvub")
        if new == old:
            continue
        hunks = gen_hunks(rng, l_new)
        th = rng.choice(themes["dark"])
        oargs, tc = gen_opts(rng)
        cargs, _ = gen_config(rng, "syntax-all", tc)
        args = ["--syntax-theme", th] + oargs + cargs
        ref = ("\n".join(gen_file_section(rng, l_new, new, new) + hunks) + "\n").encode()
        renamed = ("\n".join(gen_file_section(rng, l_new, old, new, "rename") + hunks) + "\n").encode()
        addh = gen_hunks(rng, l_new, "add")
        added = ("\n".join(gen_file_section(rng, l_new, new, new, "add") + addh) + "\n").encode()
        delh = gen_hunks(rng, l_new, "delete")
        deleted = ("\n".join(gen_file_section(rng, l_new, new, new, "delete") + delh) + "\n").encode()
        # references for add/delete: same hunks presented as a modification of the same file
        addref = ("\n".join(gen_file_section(rng, l_new, new, new) + addh) + "\n").encode()
        delref = ("\n".join(gen_file_section(rng, l_new, new, new) + delh) + "\n").encode()
        b5.append(dict(args=args, names=[new, old], ref=ref, renamed=renamed, added=added, addref=addref,
                       deleted=deleted, delref=delref, lang=l_new))
    flat = []
    for j in b5:
        for k in ("ref", "renamed", "added", "addref", "deleted", "delref"):
            flat.append((j["args"], j[k], None))
    results = parallel_map(lambda r: run_case(ctx, r[0], r[1], r[2]), flat)
    for n, j in enumerate(b5):
        res = results[6 * n:6 * n + 6]
        runs = flat[6 * n:6 * n + 6]

        def evaluate(res, sink, j=j):
            ref, renamed, added, addref, deleted, delref = res
            if any(r[0] != 0 for r in res):
                return
            compare_rows(sink, "language:not-from-new-path", "a file renamed from %s to %s is not coloured as %s" % (j["names"][1], j["names"][0], j["names"][0]),
                         ref[1], renamed[1], j["names"] + ["renamed:"], [(j["args"], j["ref"], None), (j["args"], j["renamed"], None)])
            compare_rows(sink, "language:added-file-not-by-name", "an added file %s is not coloured by its name" % j["names"][0],
                         addref[1], added[1], j["names"] + ["added:"], [(j["args"], j["addref"], None), (j["args"], j["added"], None)])
            compare_rows(sink, "language:deleted-file-default-language", "a deleted file %s is coloured with the default language instead of its own" % j["names"][0],
                         delref[1], deleted[1], j["names"] + ["removed:"], [(j["args"], j["delref"], None), (j["args"], j["deleted"], None)])

        if any(r[0] != 0 for r in res):
            rep.count("binary:nonzero-exit")
            continue
        rep.case(key=("b5", sha(j["ref"]), tuple(j["args"])), nontrivial=True)
        rep.count("binary:new-path")
        confirm(ctx, rep, runs, res, evaluate)

    # B6: file contents / first line never matter
    b6 = []
    for _ in range(ctx.n(8, 80)):
        name = rng.choice(LONG_STEMS + ["qzxa.zzq", "LICENSE2"])
        first = rng.choice(["#!/usr/bin/env python", "#!/bin/bash", "<?php", "# -*- mode: ruby -*-", "<?xml version=\"1.0\"?>"])
        body = rng.sample(LANGS["python"]["lines"] + LANGS["sh"]["lines"], 3)
        hunk = ["@@ -1,4 +1,4 @@", " " + first, "-" + body[0], "+" + body[1], " " + body[2], " def f(x): return \"s\" # c"]
        th = rng.choice(themes["dark"])
        oargs, tc = gen_opts(rng, hyperlinks=False)
        cargs, meta6 = gen_config(rng, "syntax-all", tc)
        args = ["--syntax-theme", th] + oargs + cargs
        d_unknown = ("\n".join(gen_file_section(rng, "plain", "src/" + name, "src/" + name) + hunk) + "\n").encode()
        d_txt = ("\n".join(gen_file_section(rng, "plain", "src/kjyd.txt", "src/kjyd.txt") + hunk) + "\n").encode()
        files = {name: first + "\nprint(1)\n", "src/" + name: first + "\nprint(1)\n"}
        b6.append(dict(args=args, name=name, d_unknown=d_unknown, d_txt=d_txt, files=files, bgs=list(meta6)))
    tmpdirs = []
    try:
        flat = []
        for j in b6:
            d1 = with_files(j["files"])
            d0 = with_files({})
            tmpdirs += [d0, d1]
            d2 = with_files({"qzdflt": j["files"][j["name"]]})
            tmpdirs.append(d2)
            dl = j["args"] + ["--default-language", "qzdflt"]
            flat += [(j["args"], j["d_unknown"], d0), (j["args"], j["d_unknown"], d1), (j["args"], j["d_txt"], d0),
                     (dl, j["d_unknown"], d0), (dl, j["d_unknown"], d2)]
        results = parallel_map(lambda r: run_case(ctx, r[0], r[1], r[2]), flat)
    finally:
        for d in tmpdirs:
            shutil.rmtree(d, ignore_errors=True)
    for n, j in enumerate(b6):
        res = results[5 * n:5 * n + 5]
        runs = flat[5 * n:5 * n + 5]

        def evaluate(res, sink, j=j):
            empty, withfile, txt, dl_empty, dl_file = res
            if any(r[0] != 0 for r in res):
                return
            if dl_empty[1] != dl_file[1]:
                dl = j["args"] + ["--default-language", "qzdflt"]
                sink.violation("language:default-language-reads-cwd-file",
                               "with --default-language qzdflt the colouring of %s changes when a file ./qzdflt exists (its first line is read)" % j["name"],
                               replay_obj("B6", [(dl, j["d_unknown"], {}), (dl, j["d_unknown"], {"qzdflt": j["files"][j["name"]]})], names=[]))
            if empty[1] != withfile[1]:
                sink.violation("language:depends-on-file-in-cwd",
                               "output changes when a file named %s exists in the working directory" % j["name"],
                               replay_obj("B6", [(j["args"], j["d_unknown"], {}), (j["args"], j["d_unknown"], j["files"])], names=[]))
            # Plain Text has a single scope: every cell painted by a `syntax` style carries the
            # theme's one base foreground (or none: prefix markers, text beyond the highlighting limit).
            for label, r, data in (("kjyd.txt", txt, j["d_txt"]), (j["name"], empty, j["d_unknown"])):
                fgs = {it[2] for row in decode(r[1]) for it in row if it[0] == "c" and it[3] in j["bgs"]}
                if len(fgs - {None}) > 1:
                    sink.violation("language:plain-text-file-highlighted",
                                   "hunk of %s (no language of its own) shows %d different syntax foregrounds: a language was inferred from its content" % (label, len(fgs - {None})),
                                   replay_obj("B6p", [(j["args"], data, {})], names=[], bgs=[list(b) for b in j["bgs"]]))
                    break
            compare_rows(sink, "language:depends-on-first-line",
                         "a file with an unknown name (%s) whose hunk starts with a shebang/modeline is not coloured as plain text" % j["name"],
                         txt[1], empty[1], [j["name"], "kjyd.txt"], [(j["args"], j["d_txt"], {}), (j["args"], j["d_unknown"], {})])

        if any(r[0] != 0 for r in res):
            rep.count("binary:nonzero-exit")
            continue
        rep.case(key=("b6", sha(j["d_unknown"]), tuple(j["args"])), nontrivial=True)
        rep.count("binary:content-independence")
        confirm(ctx, rep, runs, res, evaluate, cwd_files=[{}, j["files"], {}, {}, {"qzdflt": j["files"][j["name"]]}])


# --------------------------------------------------------------------------- B7: a section alone and after others

FRAGMENTS = {   # hunk-header code fragments (function/class context lines), per language
    "rust": ["pub fn compute(value: u32) -> String {", "impl Foo {", "fn main() {"],
    "python": ["def main(argv=None):", "class Foo(Bar):"],
    "c": ["int main(int argc, char **argv) {"],
    "cpp": ["template <typename T> class Foo : public Bar {"],
    "js": ["function main(argv) {", "export default class Foo extends Bar {"],
    "ruby": ["class Foo < Bar", "  def main(argv = nil)"],
    "sh": ["foo() {"],
    "make": ["all: main.o util.o"],
    # names that map to no syntax (unknown extension, short extensionless name): the default language
    "plain": ["def not_code(x): return \"s\" # c", "pub fn compute(value: u32) -> String {", "class Foo(Bar):"],
}
UNBALANCED = {  # a last line that leaves the parser inside a construct
    "rust": "/* an open comment", "c": "/* an open comment", "cpp": "/* an open comment",
    "js": "let s = `an open template", "python": "    \'\'\'an open docstring", "html": "<!-- an open comment",
    "ruby": "=begin", "sh": "cat <<EOF", "md": "```", "yaml": "key: |", "json": "  \"open", "make": "define X",
    "docker": "RUN echo \\", "plain": "plain",
}


def hunk_code(lines):
    """Event letters for the model: c context, b buffered, f buffered after a flush (minus after plus)."""
    out, prev = "", " "
    for ln in lines:
        k = ln[:1]
        if k == " " or k == "":
            out += "c"
        elif k == "-" and prev == "+":
            out += "f"
        else:
            out += "b"
        prev = k
    return out


def split_hunks(hunk_lines):
    hs = []
    for ln in hunk_lines:
        if ln.startswith("@@"):
            hs.append([])
        else:
            hs[-1].append(ln)
    return hs


def gen_neighbour(rng, langs, avoid_names):
    """One preceding file section: (diff lines, model sections [(minus, plus, hunks code)], kind)."""
    kind = rng.choice(["modify", "modify", "modify-unbalanced", "modify-unbalanced", "delete", "add", "rename",
                       "rename-pure", "mode", "binary"])
    lang = rng.choice(langs)
    name = pick_name(rng, lang, rng.choice(["wvub", "kjyd", "pmre"]))
    while name in avoid_names:
        name = pick_name(rng, rng.choice(langs), rng.choice(["wvub", "kjyd", "pmre", "hgtc"]))
    path = rng.choice(["", "src/"]) + name
    if kind in ("modify", "modify-unbalanced"):
        hunks = gen_hunks(rng, lang)
        if kind == "modify-unbalanced":
            hunks = hunks + [rng.choice([" ", "+"]) + UNBALANCED.get(lang, "x")]
        code = ".".join(hunk_code(h) for h in split_hunks(hunks))
        return gen_file_section(rng, lang, path, path) + hunks, [(path, path, code)], kind + ":" + lang
    if kind == "delete":
        hunks = gen_hunks(rng, lang, "delete")
        return gen_file_section(rng, lang, path, path, "delete") + hunks, \
            [(path, None, ".".join(hunk_code(h) for h in split_hunks(hunks)))], kind + ":" + lang
    if kind == "add":
        hunks = gen_hunks(rng, lang, "add")
        return gen_file_section(rng, lang, path, path, "add") + hunks, \
            [(None, path, ".".join(hunk_code(h) for h in split_hunks(hunks)))], kind + ":" + lang
    if kind == "rename":
        l2 = rng.choice(langs)
        new = rng.choice(["", "lib/"]) + pick_name(rng, l2, "hgtc")
        if new in avoid_names or new == path:
            new = "lib/zz" + name
        hunks = gen_hunks(rng, l2)
        return gen_file_section(rng, l2, path, new, "rename") + hunks, \
            [(path, new, "_"), (path, new, ".".join(hunk_code(h) for h in split_hunks(hunks)))], kind + ":" + lang + ">" + l2
    if kind == "rename-pure":
        new = "lib/zz" + name
        return ["diff --git a/%s b/%s" % (path, new), "similarity index 100%", "rename from " + path, "rename to " + new], \
            [(path, new, "_")], kind + ":" + lang
    if kind == "mode":
        return ["diff --git a/%s b/%s" % (path, path), "old mode 100644", "new mode 100755"], [], kind
    return ["diff --git a/%s b/%s" % (path, path), "index 1111111..2222222 100644",
            "Binary files a/%s and b/%s differ" % (path, path)], [], kind


def section_rows(outb, path):
    """Raw rows of stdout from the file header row of `path` (its visible text is exactly the path) on."""
    raw = outb.split(b"\n")
    dec = decode(outb)
    idx = [i for i, r in enumerate(dec) if row_text(r).strip() in (path, "added: " + path)]
    if not idx:
        return None
    return raw[idx[0]:]


def fg_cells(outb, bg, start_path=None):
    """Rows (after the header row of start_path) as lists of (char, fg) of the cells with background `bg`."""
    dec = decode(outb)
    start = 0
    if start_path is not None:
        idx = [i for i, r in enumerate(dec) if row_text(r).strip() in (start_path, "added: " + start_path)]
        start = idx[0] if idx else 0
    out = []
    for r in dec[start:]:
        cells = [(it[1], it[2]) for it in r if it[0] == "c" and it[3] == bg]
        if cells:
            out.append(cells)
    return out


def strip_cells(cells):
    while cells and cells[0][0] == " ":
        cells = cells[1:]
    while cells and cells[-1][0] == " ":
        cells = cells[:-1]
    return cells


def eval_b7(res, sink, j):
    alone, after, body = res
    if any(r[0] != 0 for r in res):
        return
    a, b = section_rows(alone[1], j["tpath"]), section_rows(after[1], j["tpath"])
    if a is None or b is None:
        sink.violation("lifetime:section-header-missing", "the file header row of %s was not found" % j["tpath"],
                       replay_obj("B7", [j["runs"][0], j["runs"][1]], tpath=j["tpath"]))
        return
    if a != b:
        k = next((i for i in range(min(len(a), len(b))) if a[i] != b[i]), min(len(a), len(b)))
        sink.violation("lifetime:section-depends-on-preceding-sections",
                       "the section of %s is rendered differently after %s than alone: row %d %r vs %r" % (
                           j["tpath"], j["neighbours"], k, a[k][:200].decode("utf-8", "replace") if k < len(a) else None,
                           b[k][:200].decode("utf-8", "replace") if k < len(b) else None),
                       replay_obj("B7", [j["runs"][0], j["runs"][1]], tpath=j["tpath"]))
    # the fragment in the hunk header (after the neighbours) is coloured as the same text is as the
    # first line of a hunk body of the same file
    frag = [strip_cells(c) for c in fg_cells(after[1], j["hh_bg"], j["tpath"])]
    frag = [c for c in frag if "".join(ch for ch, _ in c) == j["fragment"].strip()]
    bodyrows = [strip_cells(c) for c in fg_cells(body[1], j["zero_bg"], j["tpath"])]
    bodyrows = [c for c in bodyrows if "".join(ch for ch, _ in c) == j["fragment"].strip()]
    if frag and bodyrows and frag[0] != bodyrows[0]:
        sink.violation("lifetime:fragment-not-coloured-as-body",
                       "the hunk-header fragment %r of %s (after %s) is not coloured as the same text in a hunk body: %r vs %r" % (
                           j["fragment"], j["tpath"], j["neighbours"], frag[0][:12], bodyrows[0][:12]),
                       replay_obj("B7f", [j["runs"][1], j["runs"][2]], tpath=j["tpath"], fragment=j["fragment"],
                                  hh_bg=list(j["hh_bg"]), zero_bg=list(j["zero_bg"])))


def lifetime_oracles(ctx, rep):
    rng = ctx.rng
    themes = list_themes(ctx)
    langs = list(LANGS)
    hook = ctx.hook()
    mdl = ctx.model("drv_superimpose") if ctx.drivers_ok else None
    jobs = []
    for _ in range(ctx.n(60, 1200)):
        tl = rng.choice(sorted(FRAGMENTS))
        tname = pick_name(rng, tl, "qzxa")
        if tl == "plain" and rng.random() < 0.8:
            tname = rng.choice(["qzxa.zzq", "qzxa", "qz", "qzxa.qqq"])
        tpath = rng.choice(["", "src/"]) + tname
        fragment = rng.choice(FRAGMENTS[tl])
        hunks = []
        start = rng.randint(5, 60)
        for _h in range(rng.randint(1, 2)):
            h = gen_hunk(rng, tl, start)
            h[0] = h[0].split(" @@")[0] + " @@ " + fragment
            hunks += h
            start += 40
        tmode = "add" if rng.random() < 0.2 else "modify"   # `--- /dev/null` + name as a later section
        if tmode == "add":
            hunks = ["@@ -0,0 +1,3 @@ " + fragment] + ["+" + x for x in rng.sample(LANGS[tl]["lines"], 3)]
        tsec = gen_file_section(rng, tl, tpath, tpath, tmode) + hunks
        neigh, msecs, kinds = [], [], []
        for _k in range(rng.randint(1, 3)):
            lines, ms, kind = gen_neighbour(rng, langs, {tname})
            neigh += lines
            msecs += ms
            kinds.append(kind)
        msecs.append((None if tmode == "add" else tpath, tpath, ".".join(hunk_code(h) for h in split_hunks(hunks))))
        body_diff = gen_file_section(rng, tl, tpath, tpath) + ["@@ -1,2 +1,2 @@", " " + fragment, "-a", "+b"]
        th = rng.choice(themes["dark"])
        tc = rng.choice(["always", "never"])
        args = ["--syntax-theme", th, "--true-color", tc, "--width", "200"]
        if rng.random() < 0.3:
            args.append("-n")
        if rng.random() < 0.15:
            args.append("-s")
        cargs, meta = gen_config(rng, "syntax-all", tc)
        # keep the hunk-header row to the fragment alone for the fragment/body comparison
        k = cargs.index("--hunk-header-style")
        cargs[k + 1] = " ".join(w for w in cargs[k + 1].split() if w not in ("file", "line-number"))
        use_default = rng.random() < 0.4     # delta's defaults: hunk-header-style = "line-number syntax"
        a = args + ([] if use_default else cargs)
        bgs = {name: bg for bg, (name, _, _) in meta.items()}
        mk = lambda lines: ("\n".join(lines) + "\n").encode()
        runs = [(a, mk(tsec), None), (a, mk(neigh + tsec), None), (args + cargs, mk(neigh + body_diff), None)]
        jobs.append(dict(tpath=tpath, fragment=fragment, neighbours=kinds, runs=runs, msecs=msecs, lang=tl + ("+added" if tmode == "add" else ""),
                         hh_bg=bgs["hunk_header"], zero_bg=bgs["zero"], default=use_default))
    # model predictions (same sections as events)
    names = sorted({n for j in jobs for m, p, _ in j["msecs"] for n in (m, p) if n})
    cands = sorted({c for n in names for c in name_candidates(n)})
    byext = {}
    for k, r in zip(cands, hook.ask(["superimpose.byext " + hx(k) for k in cands])):
        byext[k] = None if r == "ok -" else unhxs(r.split()[1])
    fb = unhxs(hook.ask(["superimpose.fallback " + hx("txt")])[0].split()[1])
    reqs = []
    for j in jobs:
        keys = sorted({c for m, p, _ in j["msecs"] for n in (m, p) if n for c in name_candidates(n)})
        tbl = "T" + ",".join("%s:%s" % (k.encode().hex(), byext[k].encode().hex() if byext[k] is not None else "-") for k in keys)
        f = ["superimpose.lifetime", hx(fb), tbl, str(len(j["msecs"]))]
        for m, p, code in j["msecs"]:
            f += [hx(m) if m else "-", hx(p) if p else "-", code or "_"]
        reqs.append(" ".join(f))
    model = mdl.ask(reqs) if mdl else [None] * len(reqs)
    flat = [r for j in jobs for r in j["runs"]]
    results = parallel_map(lambda r: run_case(ctx, r[0], r[1], r[2]), flat)
    for n, (j, m) in enumerate(zip(jobs, model)):
        res = results[3 * n:3 * n + 3]
        rep.count("lifetime:target:" + j["lang"])
        for k in j["neighbours"]:
            rep.count("lifetime:neighbour:" + k.split(":")[0])
        if any(r[0] != 0 for r in res):
            rep.count("binary:nonzero-exit")
            continue
        other_lang = any(":" in k and k.split(":")[1].split(">")[-1] != j["lang"].split("+")[0] for k in j["neighbours"])
        rep.case(key=("b7", sha(j["runs"][1][1]), tuple(j["runs"][1][0])), nontrivial=other_lang,
                 sample=dict(op="binary-section-after-neighbours", target=j["tpath"], neighbours=j["neighbours"],
                             fragment=j["fragment"], args=j["runs"][0][0]))
        probe = Probe()
        eval_b7(res, probe, j)
        if m is not None:
            model_ok = m.startswith("ok") and all(x.split(":")[1:3] == x.split(":")[3:5] for x in m.split(" ")[1:])
            # the model claiming "every element goes through the current file's own fresh highlighter"
            # must imply that the binary renders the section independently of its predecessors
            dependent = "lifetime:section-depends-on-preceding-sections" in probe.v
            rep.corr_case("superimpose.lifetime", m.startswith("ok") and ((not model_ok) or not dependent),
                          dict(request=reqs[n][:400], model=m[:400], binary_failures=probe.v))
        confirm(ctx, rep, j["runs"], res, lambda r, sink, j=j: eval_b7(r, sink, j))



# --------------------------------------------------------------------------- B8: side-by-side and `normal …` minus styles

def run_spec(ctx, spec):
    """(args, stdin, files): files are created in a scratch directory that becomes the cwd; a file
    named `~/.gitconfig` makes that directory HOME and lets delta read it (no --no-gitconfig)."""
    args, stdin, files = spec
    files = files or {}
    if not files:
        return run_case(ctx, args, stdin, None)
    d = with_files({k.replace("~/", ""): v for k, v in files.items()})
    try:
        if "~/.gitconfig" in files:
            return ctx.run_delta(list(args), stdin, env={"HOME": d}, cwd=d)
        return run_case(ctx, args, stdin, d)
    finally:
        shutil.rmtree(d, ignore_errors=True)


SBS_DIFF = """diff --git a/src/qzxa.rs b/src/qzxa.rs
index 1111111..2222222 100644
--- a/src/qzxa.rs
+++ b/src/qzxa.rs
@@ -10,6 +10,6 @@ pub fn compute(value: u32) -> String {
     let mut x: u32 = 42; // answer
-    println!("hello {}", x);
-    if x > 10 && y != "a" { return None; }
+    println!("goodbye {}", x);
+    if x > 11 && y != "b" { return Some(1); }
     let s = 'c'; let t = 1.5e3;
-/* block */ struct Foo<'a> { name: &'a str }
+/* block */ struct Bar<'a> { name: &'a str }
 }
"""


def sbs_oracles(ctx, rep):
    rng = ctx.rng
    themes = list_themes(ctx)
    hook_free = True
    mdl = ctx.model("drv_superimpose") if ctx.drivers_ok else None
    # --- correspondence: which of the two styles ask for syntax after set_options (real: --show-config)
    vals = ["normal 52", "normal 88", "normal", "red 52", "syntax 52", "normal bold 52"]
    cases = []
    for sbs in (0, 1):
        for sup in ([], ["minus_style"], ["minus_emph_style"], ["minus_style", "minus_emph_style"]):
            for _ in range(ctx.n(2, 6)):
                cases.append((sbs, sup, rng.choice(vals), rng.choice(vals)))
    def show(c):
        sbs, sup, v1, v2 = c
        args = (["-s"] if sbs else []) + (["--minus-style", v1] if "minus_style" in sup else []) + \
            (["--minus-emph-style", v2] if "minus_emph_style" in sup else []) + ["--show-config"]
        rc, out, _ = run_case(ctx, args, b"")
        txt = re.sub(r"\x1b\[[0-9;]*m", "", out.decode("utf-8", "replace"))
        got = {}
        for ln in txt.splitlines():
            m = re.match(r"\s*(minus-style|minus-emph-style)\s*=\s*(.*)$", ln)
            if m:
                got[m.group(1).replace("-", "_")] = m.group(2).strip()
        return got
    shown = parallel_map(show, cases)
    reqs, meta = [], []
    for c in cases:
        sbs, sup, v1, v2 = c
        for name, v in (("minus_style", v1), ("minus_emph_style", v2)):
            value = v if name in sup else "normal auto"     # the clap default of both options
            reqs.append("superimpose.sbs_rewrite %d %s %s %s" % (sbs, ",".join(sup) or "-", hx(name), hx(value)))
            meta.append((c, name, value))
    model = mdl.ask(reqs) if mdl else [None] * len(reqs)
    for (c, name, value), rq, m in zip(meta, reqs, model):
        got = shown[cases.index(c)].get(name)
        rep.case(key=rq, nontrivial=bool(c[0]) and len(c[1]) == 1)
        rep.count("sbs_rewrite")
        if m is None or got is None:
            continue
        mv = unhxs(m.split()[1]) if m.startswith("ok ") else "?"
        agree = m.startswith("ok ") and (mv.split(" ")[0] == "syntax") == (got.split(" ")[0] == "syntax")
        rep.corr_case("superimpose.sbs_rewrite", agree, dict(request=rq, scenario=c, model=mv, shown=got))
        # direct: a `normal …` style given on the command line is shown as given
        if name in c[1] and value.startswith("normal") and got.split(" ")[0] == "syntax":
            rep.violation("sbs:command-line-normal-style-gets-syntax",
                          "%s given on the command line as %r is turned into %r (side-by-side=%d, also given: %s)" % (
                              name, value, got, c[0], c[1]),
                          dict(oracle="B8c", scenario=list(c), option=name, shown=got))
    # --- binary: text painted by a `normal …` style is identical under every theme
    jobs = []
    scenarios = [("only-minus-style", ["--minus-style", "normal 52"], {("idx", 52): ("minus", False, None)}, None),
                 ("only-minus-emph-style", ["--minus-emph-style", "normal 88"], {("idx", 88): ("minus_emph", False, None)}, None),
                 ("both", ["--minus-style", "normal 52", "--minus-emph-style", "normal 88"],
                  {("idx", 52): ("minus", False, None), ("idx", 88): ("minus_emph", False, None)}, None),
                 ("neither", [], {}, None),
                 ("gitconfig-minus-style", [], {("idx", 52): ("minus", False, None)}, "[delta]\n    minus-style = normal 52\n"),
                 ("gitconfig-both", [], {("idx", 52): ("minus", False, None), ("idx", 88): ("minus_emph", False, None)},
                  "[delta]\n    minus-style = normal 52\n    minus-emph-style = normal 88\n    side-by-side = true\n")]
    for rnd in range(ctx.n(1, 6)):
        for name, sargs, meta_bg, gitconfig in scenarios:
            for layout in (["--side-by-side"], []):
                ths = rng.sample(themes["dark"], ctx.n(2, 4)) + ["none"]
                tc = rng.choice(["always", "never"])
                extra = (["-n"] if rng.random() < 0.3 else []) + (["--keep-plus-minus-markers"] if rng.random() < 0.3 else [])
                files = {"~/.gitconfig": gitconfig} if gitconfig else None
                runs = [(["--dark", "--syntax-theme", t, "--true-color", tc, "--width", "160"] + layout + extra + sargs,
                         SBS_DIFF.encode(), files) for t in ths]
                jobs.append(dict(name=name + ("/sbs" if layout else "/unified"), labels=ths, runs=runs, meta=meta_bg))
    flat = [r for j in jobs for r in j["runs"]]
    results = parallel_map(lambda r: run_spec(ctx, r), flat)
    pos = 0
    for j in jobs:
        res = results[pos:pos + len(j["runs"])]
        pos += len(j["runs"])
        rep.count("sbs:" + j["name"])
        if any(r[0] != 0 for r in res):
            rep.count("binary:nonzero-exit")
            continue
        rep.case(key=("b8", j["name"], tuple(j["runs"][0][0])), nontrivial="sbs" in j["name"] and bool(j["meta"]),
                 sample=dict(op="binary-sbs-normal-styles", scenario=j["name"], themes=j["labels"], args=j["runs"][0][0]))

        def evaluate(res, sink, j=j):
            check_theme_group(sink, [r[1] for r in res], j["labels"], j["meta"], False, j["runs"])
        probe = Probe()
        evaluate(res, probe)
        if probe.v:
            res2 = [run_spec(ctx, r) for r in j["runs"]]
            p2 = Probe()
            evaluate(res2, p2)
            if p2.v:
                evaluate(res2, rep)
            else:
                rep.count("binary:not-reproduced-on-rerun")



# --------------------------------------------------------------------------- B9: names with spaces, quotes, several dots

def git_quote(path):
    """(token for `a/<path>` as git prints it, needs a trailing TAB on ---/+++ lines)"""
    special = any(ch in path for ch in '"\\\t\n') or any(ord(ch) > 127 for ch in path)
    if special:
        out = ""
        for b in path.encode("utf-8"):
            ch = chr(b)
            if ch in '"\\':
                out += "\\" + ch
            elif b > 127 or b < 32:
                out += "\\%03o" % b
            else:
                out += ch
        return out, True, False
    return path, False, " " in path


def git_section(path, mode):
    """Header lines of a git file section for a path that may need quoting / a TAB terminator."""
    body, quoted, tab = git_quote(path)
    tok = (lambda pre: '"%s/%s"' % (pre, body)) if quoted else (lambda pre: "%s/%s" % (pre, body))
    t = "\t" if tab else ""
    lines = ["diff --git %s %s" % (tok("a"), tok("b"))]
    if mode == "add":
        lines += ["new file mode 100644", "index 0000000..2222222", "--- /dev/null", "+++ " + tok("b") + t]
    elif mode == "delete":
        lines += ["deleted file mode 100644", "index 1111111..0000000", "--- " + tok("a") + t, "+++ /dev/null"]
    else:
        lines += ["index 1111111..2222222 100644", "--- " + tok("a") + t, "+++ " + tok("b") + t]
    return lines


WEIRD = ["qz xa", "qz  x a", "my dir/qz xa", 'qz"xa', "qzxa\u00e9\u65e5", "qzxa.tar.min", "qz xa.v1.2", "dir.d/qz\txa"]


def weird_name_oracles(ctx, rep):
    rng = ctx.rng
    themes = list_themes(ctx)
    ext_langs = [(l, pat) for l, d in LANGS.items() if l != "plain" for pat in d["names"] if pat.startswith("%s.")]
    jobs = []
    for _ in range(ctx.n(40, 600)):
        lang, pat = rng.choice(ext_langs)
        mode = rng.choice(["delete", "delete", "add", "modify"])
        stem = rng.choice(WEIRD)
        weird, plain = pat % stem, pat % "wvub"
        hunks = gen_hunks(rng, lang, "modify" if mode == "modify" else mode)
        style = rng.choice(["sbs", "minus-syntax", "palette"])
        tc = rng.choice(["always", "never"])
        args = ["--syntax-theme", rng.choice(themes["dark"]), "--true-color", tc, "--width", "200"]
        if style == "sbs":
            args += ["--side-by-side"]
        elif style == "minus-syntax":
            args += ["--minus-style", "syntax 52", "--minus-emph-style", "syntax 88", "--plus-style", "syntax 22"]
        else:
            args += gen_config(rng, "syntax-all", tc)[0]
        mk = lambda lines: ("\n".join(lines) + "\n").encode()
        runs = [(args, mk(git_section(plain, mode) + hunks), None), (args, mk(git_section(weird, mode) + hunks), None)]
        jobs.append(dict(runs=runs, weird=weird, plain=plain, mode=mode, lang=lang, style=style, kind="git"))
    # plain `diff -u` input: the name comes from the raw header line
    for _ in range(ctx.n(6, 60)):
        lang, pat = rng.choice(ext_langs)
        mode = rng.choice(["delete", "modify"])
        weird, plain = pat % rng.choice(["qz xa", "my dir/qz xa"]), pat % "wvub"
        hunks = gen_hunks(rng, lang, mode)
        ts = "\t2020-01-01 00:00:00.000000000 +0000"
        args = ["--syntax-theme", rng.choice(themes["dark"]), "--true-color", "never", "--width", "200",
                "--minus-style", "syntax 52", "--plus-style", "syntax 22"]
        hdr = lambda n: ["--- " + n + ts, "+++ " + ("/dev/null" if mode == "delete" else n) + ts]
        mk = lambda lines: ("\n".join(lines) + "\n").encode()
        runs = [(args, mk(hdr(plain) + hunks), None), (args, mk(hdr(weird) + hunks), None)]
        jobs.append(dict(runs=runs, weird=weird, plain=plain, mode=mode, lang=lang, style="minus-syntax", kind="diff-u"))
    flat = [r for j in jobs for r in j["runs"]]
    results = parallel_map(lambda r: run_case(ctx, r[0], r[1], r[2]), flat)
    for n, j in enumerate(jobs):
        res = results[2 * n:2 * n + 2]
        rep.count("names:%s:%s" % (j["kind"], j["mode"]))
        if any(r[0] != 0 for r in res):
            rep.count("binary:nonzero-exit")
            continue
        coloured = len({it[2] for row in decode(res[0][1]) for it in row if it[0] == "c"}) > 3
        rep.case(key=("b9", sha(j["runs"][1][1]), tuple(j["runs"][1][0])), nontrivial=coloured,
                 sample=dict(op="binary-name-shapes", name=j["weird"], mode=j["mode"], input=j["kind"], args=j["runs"][0][0]))

        def evaluate(res, sink, j=j):
            if any(r[0] != 0 for r in res):
                return
            if j["kind"] == "diff-u" and j["mode"] == "delete":
                sig = "language:plain-diff-deleted-file-name-with-space"
            elif j["kind"] == "diff-u":
                sig = "language:plain-diff-name-shape-changes-colouring"
            else:
                sig = "language:%s-file-name-shape-changes-colouring" % j["mode"]
            compare_rows(sink, sig,
                         "%s file %r (%s input) is not coloured like the same content named %r" % (
                             j["mode"], j["weird"], j["kind"], j["plain"]),
                         res[0][1], res[1][1], ["qz", "xa", "wvub"], j["runs"], mode=j["mode"])
        confirm(ctx, rep, j["runs"], res, evaluate)



# --------------------------------------------------------------------------- B10: names resolved by WHOLE NAME that share an extension with ordinary files

# Names that syntect's table lists as whole file names although they end in an extension that ordinary
# files carry too (each is validated against `find_syntax_by_extension` at run time: kept only where the
# whole name is known to syntect).
WHOLE_WITH_EXT = ["CMakeLists.txt", "CMakeCache.txt", "requirements.txt", "todo.txt", "done.txt",
                  "Cargo.lock", "Gopkg.lock", "pdm.lock", "poetry.lock", "Pipfile.lock",
                  "nginx.conf", "resolv.conf", "requirements.in", "Makefile.in", "makefile.in",
                  "Makefile.am", "makefile.am", "config.ru", "mime.types"]
# extension-less names that are whole-name entries (> 4 bytes), and dot-files
WHOLE_EXTLESS = ["Makefile", "GNUmakefile", "Rakefile", "Gemfile", "Dockerfile", "Pipfile", "exclude",
                 "ssh_config", "sshd_config", "fastcgi_params", ".bashrc", ".profile", ".gitconfig",
                 ".gitignore", ".editorconfig", ".zshrc"]
# extension-less names of at most 4 bytes that equal an extension: never looked up (default language)
SHORT_EXTLESS = ["rs", "py", "c", "h", "mk", "rb", "js", "sh", "toml", "make", "json", "yaml", "go", "txt", "lock"]
ORDINARY_EXTS = ["txt", "lock", "conf", "in", "am", "ru", "types", "rs", "py", "c", "h", "mk", "rb", "js", "sh",
                 "toml", "json", "cmake", "yaml", "go", "ini", "gitignore", "make", "zzq", "TXT", "Lock", "RS"]
ORDINARY_STEMS = ["notes", "yarn", "app", "qzxa", "readme", "NOTES", "main"]
EXTLESS_PLAIN = ["NOTES", "READMEFIRST", "qzxab", "notes"]        # > 4 bytes, unknown to syntect: default language

# Lines that the grammars involved colour differently (so that a wrong language shows).
POLY_LINES = [
    'set(zq_SOURCES main.c util.c)  # sources', 'add_executable(zq ${zq_SOURCES})', 'if(WIN32)  # win',
    'message(STATUS "zq done")', 'name = "demo" # c', 'version = "1.2.3"', '[package]', '[[bin]]',
    'checksum = "9f86d081884c7d65"', 'dependencies = { serde = "1.0", x = true }',
    'server { listen 80; }', 'location /api { proxy_pass http://127.0.0.1:8080; } # c',
    'nameserver 10.0.0.1', 'search example.org # c', 'options ndots:2',
    'fn main() { let x: u32 = 42; } // c', 'def main(argv=None): return "s" # c',
    'flask==1.0.2  # pin', '-r other.txt', 'requests>=2.0,<3',
    '(A) 2020-01-01 call mom +family @phone', 'x 2020-01-02 done task',
    'CC := gcc', 'all: main.o util.o', '\t$(CC) -o $@ $^ # link',
    '{"name": "demo", "n": 42, "list": [1, 2.5, null, true]}',
    'gem "rails", "~> 6.0" # c', 'run Rack::Builder.new { }', 'text/html html htm;', 'include mime.types;',
    '*.o', '!keep.o # c', '[core]', '\teditor = vim', 'export PATH="$HOME/bin:$PATH" # c',
    'if [ -f ~/.x ]; then . ~/.x; fi', '#include <stdio.h>', 'int main(void) { return 0; } /* c */',
    'plain words only here',
]


def section_body_rows(outb, path):
    """Raw rows of the section of `path` after its file header row, without the box / rule decoration rows
    (their width follows the printed name). None if the header row is not found."""
    raw = outb.split(b"\n")
    dec = decode(outb)
    idx = [i for i, r in enumerate(dec) if row_text(r).strip() in (path, "added: " + path)]
    if not idx:
        return None
    keep = []
    for i in range(idx[0] + 1, len(dec)):
        t = row_text(dec[i])
        if t and all(0x2500 <= ord(ch) <= 0x257f or ch == " " for ch in t):
            continue
        keep.append(raw[i] if i < len(raw) else b"")
    return keep


def name_parts(name):
    """(file_name, extension) of a path as `std::path::Path` sees them (names without `.`/`..` components)."""
    fn = name.rstrip("/").split("/")[-1]
    i = fn.rfind(".")
    return fn, ("" if i <= 0 else fn[i + 1:])


def property_language(name, byext, default_syntax):
    """The language the property assigns to a file name, over syntect's (trusted) table `byext`: the whole
    name if syntect knows it (names with an extension, or longer than 4 bytes), else the extension, else
    the default language."""
    fn, ext = name_parts(name)
    if ext != "" or len(fn.encode("utf-8")) > 4:
        s = byext.get(fn) or byext.get(ext)
        if s:
            return s
    return default_syntax


def coarse_keys(name):
    """Keys under which a cache that is coarser than the file name could file `name`: the (lowercased)
    extension or, without one, the whole name; the stem; the first letter."""
    fn, ext = name_parts(name)
    stem = fn[:len(fn) - len(ext) - 1] if ext else fn
    return {"ext": (ext or fn).lower(), "stem": stem.lower()}


def poly_hunk(rng, start, lines):
    body, old_n, new_n = [], 0, 0
    for ln in lines:
        k = rng.random()
        if k < 0.4:
            body.append(" " + ln); old_n += 1; new_n += 1
        elif k < 0.7:
            body += ["-" + ln, "+" + edit_line(rng, ln)]; old_n += 1; new_n += 1
        elif k < 0.85:
            body.append("-" + ln); old_n += 1
        else:
            body.append("+" + ln); new_n += 1
    frag = rng.choice(["", " " + rng.choice(lines).strip()])
    return ["@@ -%d,%d +%d,%d @@%s" % (start, old_n, start, new_n, frag)] + body


def shared_extension_oracles(ctx, rep):
    rng = ctx.rng
    themes = list_themes(ctx)
    hook = ctx.hook()
    mdl = ctx.model("drv_superimpose") if ctx.drivers_ok else None
    ordinary = ["%s.%s" % (s, e) for s in ORDINARY_STEMS for e in ORDINARY_EXTS]
    cands = sorted(set(WHOLE_WITH_EXT + WHOLE_EXTLESS + SHORT_EXTLESS + EXTLESS_PLAIN + ordinary))
    keys = sorted({k for n in cands for k in name_parts(n)} | {""})
    byext = {}
    for k, r in zip(keys, hook.ask(["superimpose.byext " + hx(k) for k in keys])):
        byext[k] = None if r == "ok -" else unhxs(r.split()[1])
    fb = unhxs(hook.ask(["superimpose.fallback " + hx("txt")])[0].split()[1])
    lang = {n: property_language(n, byext, fb) for n in cands}
    whole = [n for n in WHOLE_WITH_EXT + WHOLE_EXTLESS if byext.get(n)]
    rep.notes["whole_name_entries"] = {n: lang[n] for n in whole}
    dropped = [n for n in WHOLE_WITH_EXT + WHOLE_EXTLESS if not byext.get(n)]
    if dropped:
        rep.notes["whole_name_entries_unknown_to_syntect"] = dropped
    # the rule used here (whole name, then extension, then the default) against the Lean model and the
    # implementation's get_syntax, on every candidate name with and without a directory
    reqs, meta = [], []
    for n in cands:
        for p in (n, "src/" + n):
            ks = sorted({k for k in name_parts(p)} | {""})
            tbl = "T" + ",".join("%s:%s" % (k.encode().hex(), byext[k].encode().hex() if byext.get(k) else "-") for k in ks)
            reqs.append("superimpose.syntax %s %s %s %s" % (hx(p), hx("txt"), hx(fb), tbl))
            meta.append((p, n))
    impl = hook.ask(reqs)
    model = mdl.ask(reqs) if mdl else [None] * len(reqs)
    for (p, n), i, m in zip(meta, impl, model):
        rep.count("names:rule-checked")
        if m is not None:
            rep.corr_case("superimpose.syntax", i == m, dict(path=p, default="txt", impl=i, model=m))
            got = unhxs(m.split()[1]) if m.startswith("ok ") else None
            rep.corr_case("superimpose.syntax-rule", got == lang[n], dict(path=p, model=got, oracle_rule=lang[n]))
    # pairs of names that a cache keyed more coarsely than the file name would confuse
    by_key = {}
    for n in cands:
        for kind, k in coarse_keys(n).items():
            by_key.setdefault((kind, k), []).append(n)
    pairs = []
    for (kind, k), ns in sorted(by_key.items()):
        for a in ns:
            for b in ns:
                if a != b and lang[a] != lang[b]:
                    cls = "shared-extension" if kind == "ext" and name_parts(a)[1] and name_parts(b)[1] else \
                        ("short-name-equals-extension" if kind == "ext" else "shared-stem")
                    pairs.append((cls, a, b))
    by_cls = {}
    for c, a, b in pairs:
        by_cls.setdefault(c, []).append((a, b))
    rep.notes["confusable_name_pairs"] = {c: len(v) for c, v in by_cls.items()}
    same_kind = {}
    for n in cands:
        same_kind.setdefault(lang[n], []).append(n)
    jobs = []
    for _ in range(ctx.n(48, 700)):
        cls = rng.choice(["shared-extension"] * 4 + ["short-name-equals-extension", "shared-stem"])
        if not by_cls.get(cls):
            continue
        pool = by_cls[cls]
        # favour pairs with a whole-name entry (the everyday collisions: CMakeLists.txt / notes.txt …)
        wpool = [p for p in pool if p[0] in whole or p[1] in whole]
        target, sibling = rng.choice(wpool if wpool and rng.random() < 0.7 else pool)
        d = rng.choice(["", "", "src/", "cfg/"])
        tpath = d + target
        lines = rng.sample(POLY_LINES, rng.randint(3, 6))
        thunks, start = [], rng.randint(1, 40)
        for _h in range(rng.randint(1, 2)):
            thunks += poly_hunk(rng, start, rng.sample(lines, rng.randint(2, len(lines))))
            start += 30
        # neighbours: the sibling plus 0-2 others, in random order, all before the target
        nnames = [sibling]
        for _k in range(rng.randint(0, 2)):
            c = rng.choice(cands)
            if c != target and c not in nnames:
                nnames.append(c)
        rng.shuffle(nnames)
        neigh = []
        for nn in nnames:
            npath = rng.choice(["", "lib/"]) + nn
            nl = rng.sample(POLY_LINES, rng.randint(2, 4))
            neigh += gen_file_section(rng, "plain", npath, npath) + poly_hunk(rng, rng.randint(1, 40), nl)
        # a name of the same kind (same language by the rule) that shares neither extension nor stem
        tk = coarse_keys(target)
        alts = [n for n in same_kind[lang[target]] if n != target and n not in nnames
                and coarse_keys(n)["ext"] != tk["ext"] and coarse_keys(n)["stem"] != tk["stem"]]
        alt = rng.choice(sorted(alts)) if alts else None
        th = rng.choice(themes["dark"])
        tc = rng.choice(["always", "never"])
        args = ["--syntax-theme", th, "--true-color", tc, "--width", "200"]
        if rng.random() < 0.3:
            args.append("-n")
        if rng.random() < 0.5:
            cargs = gen_config(rng, "syntax-all", tc)[0]
            k = cargs.index("--hunk-header-style")
            cargs[k + 1] = " ".join(w for w in cargs[k + 1].split() if w != "file")
            args += cargs
        mk = lambda ls: ("\n".join(ls) + "\n").encode()
        sec = lambda p: gen_file_section(rng, "plain", p, p) + thunks
        runs = [(args, mk(sec(tpath)), None), (args, mk(neigh + sec(tpath)), None),
                (args, mk(sec(d + sibling)), None)]
        if alt:
            runs.append((args, mk(neigh + sec(d + alt)), None))
        jobs.append(dict(cls=cls, target=target, sibling=sibling, tpath=tpath, spath=d + sibling, alt=alt, apath=(d + alt) if alt else None,
                         neighbours=nnames, runs=runs, langs=(lang[target], lang[sibling])))
    flat, pos = [], []
    for j in jobs:
        pos.append(len(flat))
        flat += j["runs"]
    results = parallel_map(lambda r: run_case(ctx, r[0], r[1], r[2]), flat)
    for j, p0 in zip(jobs, pos):
        res = results[p0:p0 + len(j["runs"])]
        rep.count("names:%s" % j["cls"])
        if any(r[0] != 0 for r in res):
            rep.count("binary:nonzero-exit")
            continue
        # non-trivial: the two languages really colour this body differently (the sibling's name on the same body)
        differs = section_body_rows(res[0][1], j["tpath"]) != section_body_rows(res[2][1], j["spath"])
        rep.case(key=("b10", sha(j["runs"][1][1]), tuple(j["runs"][1][0])), nontrivial=differs,
                 sample=dict(op="binary-shared-extension", cls=j["cls"], target=j["tpath"], languages=j["langs"],
                             neighbours=j["neighbours"], same_kind_name=j["alt"], args=j["runs"][0][0]))
        rep.count("names:languages-colour-differently" if differs else "names:languages-colour-alike")

        def evaluate(res, sink, j=j):
            eval_b10(res, sink, j)
        confirm(ctx, rep, j["runs"], res, evaluate)


def eval_b10(res, sink, j):
    if any(r[0] != 0 for r in res):
        return
    a, b = section_rows(res[0][1], j["tpath"]), section_rows(res[1][1], j["tpath"])
    if a is None or b is None:
        sink.violation("names:section-header-missing", "the file header row of %s was not found" % j["tpath"],
                       replay_obj("B10s", [j["runs"][0], j["runs"][1]], tpath=j["tpath"], cls=j["cls"]))
        return
    if a != b:
        k = next((i for i in range(min(len(a), len(b))) if a[i] != b[i]), min(len(a), len(b)))
        sink.violation("language:%s:section-colouring-depends-on-other-files" % j["cls"],
                       "the section of %s (%s) is coloured differently after sections of %s than alone (%s is %s): row %d %r vs %r" % (
                           j["tpath"], j["langs"][0], j["neighbours"], j["sibling"], j["langs"][1], k,
                           a[k][:160].decode("utf-8", "replace") if k < len(a) else None,
                           b[k][:160].decode("utf-8", "replace") if k < len(b) else None),
                       replay_obj("B10s", [j["runs"][0], j["runs"][1]], tpath=j["tpath"], cls=j["cls"]))
    if j["alt"] and len(res) > 3:
        x, y = section_body_rows(res[1][1], j["tpath"]), section_body_rows(res[3][1], j["apath"])
        if x is not None and y is not None and x != y:
            k = next((i for i in range(min(len(x), len(y))) if x[i] != y[i]), min(len(x), len(y)))
            sink.violation("language:%s:rename-same-kind-changes-colouring" % j["cls"],
                           "renaming %s to %s (both %s by name) after sections of %s changed the colouring of its hunks: row %d %r vs %r" % (
                               j["target"], j["alt"], j["langs"][0], j["neighbours"], k,
                               x[k][:160].decode("utf-8", "replace") if k < len(x) else None,
                               y[k][:160].decode("utf-8", "replace") if k < len(y) else None),
                           replay_obj("B10r", [j["runs"][1], j["runs"][3]], tpath=j["tpath"], apath=j["apath"], cls=j["cls"]))



# --------------------------------------------------------------------------- B11: a file boundary while lines are still buffered

STAMP = "\t2024-03-01 10:00:00.000000000 +0000"
B11_FLAVOURS = ["plain-diff", "plain-diff-separated", "git"]
B11_FOLLOWERS = ["other-language", "same-language", "unknown-name"]
B11_TAILS = ["removed+added", "added", "removed", "context", "no-newline-marker"]
B11_UNKNOWN = ["%s.zzq", "%s", "%s.qqq"]      # names syntect does not know: the default language


def b11_name(rng, kind, tlang, stem):
    """File name of a neighbour of a `tlang` file: (name, language key of LANGS or 'unknown')."""
    if kind == "same-language":
        return pick_name(rng, tlang, stem), tlang
    if kind == "unknown-name":
        return rng.choice(B11_UNKNOWN) % stem, "unknown"
    other = rng.choice([l for l in LANGS if l not in (tlang, "plain")])
    return pick_name(rng, other, stem), other


def b11_hunks(rng, lang, tail):
    """1-2 hunks of `lang` lines whose last hunk ends as `tail` says. -> (lines, number of trailing changed rows)"""
    src = LANGS[lang if lang in LANGS else "plain"]["lines"]
    hunks, start = [], rng.randint(1, 40)
    for _ in range(rng.randint(0, 1)):
        hunks += gen_hunk(rng, lang if lang in LANGS else "plain", start)
        start += 40
    body, old_n, new_n = [], 0, 0
    for _ in range(rng.randint(0, 2)):
        body.append(" " + rng.choice(src)); old_n += 1; new_n += 1
    if tail in ("removed+added", "removed", "no-newline-marker"):
        olds = rng.sample(src, rng.randint(1, 3))
    else:
        olds = []
    if tail in ("removed+added", "no-newline-marker"):
        news = [edit_line(rng, o) for o in olds][:rng.randint(1, len(olds))] + rng.sample(src, rng.randint(0, 1))
    elif tail == "added":
        news = rng.sample(src, rng.randint(1, 3))
    else:
        news = []
    if tail == "context":
        o = rng.choice(src)
        body += ["-" + o, "+" + edit_line(rng, o), " " + rng.choice(src)]
        old_n += 2; new_n += 2
    body += ["-" + o for o in olds] + ["+" + x for x in news]
    old_n += len(olds); new_n += len(news)
    if tail == "no-newline-marker":
        body.append("\\ No newline at end of file")
    n_tail = len(olds) + len(news) if tail in ("removed+added", "added", "removed") else 0
    return hunks + ["@@ -%d,%d +%d,%d @@" % (start, old_n, start, new_n)] + body, n_tail


def b11_section(flavour, rng_dirs, name, hunks):
    """One file section of a stream of the given flavour."""
    da, db = rng_dirs[:2]
    if flavour == "git":
        return ["diff --git a/%s b/%s" % (name, name), "index 1111111..2222222 100644",
                "--- a/" + name, "+++ b/" + name] + hunks
    head = ["--- %s%s%s" % (da, name, STAMP), "+++ %s%s%s" % (db, name, STAMP)]
    if flavour == "plain-diff-separated":
        head = [rng_dirs[2] % dict(a=da + name, b=db + name, n=name)] + head
    return head + hunks


def b11_rows(outb, name, stop_names):
    """Raw rows of the section of `name`: from its file header row (first row whose visible text contains the
    name) up to the first row that mentions one of `stop_names`; trailing empty rows dropped. Also the decoded rows."""
    raw = outb.split(b"\n")
    dec = decode(outb)
    start = next((i for i, r in enumerate(dec) if name in row_text(r)), None)
    if start is None:
        return None, None
    end = next((i for i in range(start + 1, len(dec)) if any(n in row_text(dec[i]) for n in stop_names)), len(dec))
    rows = list(range(start, end))
    while rows and not row_text(dec[rows[-1]]).strip():
        rows.pop()
    return [raw[i] if i < len(raw) else b"" for i in rows], [dec[i] for i in rows]


def b11_body(raw, dec, name):
    """The rows of a section without those that show the file name and without box / rule decoration."""
    keep = []
    for r, d in zip(raw, dec):
        t = row_text(d)
        if name in t or (t and all(0x2500 <= ord(ch) <= 0x257f or ch == " " for ch in t)):
            continue
        keep.append(r)
    return keep


def eval_b11(res, sink, j):
    if any(r[0] != 0 for r in res):
        return
    others = [n for n in j["names"] if n != j["tname"]]
    a_raw, a_dec = b11_rows(res[0][1], j["tname"], others)
    b_raw, b_dec = b11_rows(res[1][1], j["tname"], others)
    if a_raw is None or b_raw is None:
        sink.violation("boundary:section-header-missing", "the file header row of %s was not found" % j["tname"],
                       replay_obj("B11s", [j["runs"][0], j["runs"][1]], tname=j["tname"], names=j["names"], flavour=j["flavour"],
                                  n_tail=j["n_tail"]))
        return
    if a_raw != b_raw:
        k = next((i for i in range(min(len(a_raw), len(b_raw))) if a_raw[i] != b_raw[i]), min(len(a_raw), len(b_raw)))
        sig = "language:%s:section-colouring-depends-on-other-files" % j["flavour"]
        detail = ""
        if len(a_raw) == len(b_raw):
            bad = [i for i in range(len(a_raw)) if a_raw[i] != b_raw[i]]
            only_fg = erase_fg([a_dec[i] for i in bad]) == erase_fg([b_dec[i] for i in bad])
            cells = sum(1 for i in bad for x, y in zip(a_dec[i], b_dec[i]) if x != y)
            detail = "; %d rows differ (%d cells), only in foreground colours: %s" % (len(bad), cells, only_fg)
            # the rows of the removed / added lines that end the last hunk (still buffered when the next
            # file's `--- ` line arrives), possibly paired up side by side
            if only_fg and j["n_tail"] and all(i >= len(a_raw) - j["n_tail"] for i in bad):
                sig = "language:%s:buffered-lines-coloured-by-next-file" % j["flavour"]
        sink.violation(sig,
                       "the section of %s (%s) is coloured differently in the stream %s than alone (last hunk ends: %s): row %d %r vs %r%s" % (
                           j["tname"], j["tlang"], j["stream"], j["tail"], k,
                           a_raw[k][:160].decode("utf-8", "replace") if k < len(a_raw) else None,
                           b_raw[k][:160].decode("utf-8", "replace") if k < len(b_raw) else None, detail),
                       replay_obj("B11s", [j["runs"][0], j["runs"][1]], tname=j["tname"], names=j["names"],
                                  flavour=j["flavour"], n_tail=j["n_tail"]))
    if len(res) > 2:
        others2 = [n for n in j["names"] if n != j["tname"]]
        c_raw, c_dec = b11_rows(res[2][1], j["aname"], others2)
        if c_raw is not None:
            x, y = b11_body(b_raw, b_dec, j["tname"]), b11_body(c_raw, c_dec, j["aname"])
            if x != y:
                k = next((i for i in range(min(len(x), len(y))) if x[i] != y[i]), min(len(x), len(y)))
                sink.violation("language:%s:rename-same-kind-changes-colouring" % j["flavour"],
                               "renaming %s to %s (both %s by name) inside the stream %s changed the colouring of its hunks: row %d %r vs %r" % (
                                   j["tname"], j["aname"], j["tlang"], j["stream"], k,
                                   x[k][:160].decode("utf-8", "replace") if k < len(x) else None,
                                   y[k][:160].decode("utf-8", "replace") if k < len(y) else None),
                               replay_obj("B11r", [j["runs"][1], j["runs"][2]], tname=j["tname"], aname=j["aname"],
                                          names=j["names"], flavour=j["flavour"]))


def boundary_oracles(ctx, rep):
    """Streams of several file sections in which a file's last hunk ends with removed / added lines, so that they
    are still buffered when the next file's `--- ` line arrives (plain `diff -u` output of several files with
    nothing between them; the same with `diff -u a b` / `Index:` / `Only in` lines between; git diffs), the next
    file being of another language / the same language / an unknown name. Required: the section of the target is
    rendered as it is alone, and as the same hunks are under another name of the same kind in the same place."""
    rng = ctx.rng
    themes = list_themes(ctx)
    hook = ctx.hook()
    mdl = ctx.model("drv_superimpose") if ctx.drivers_ok else None
    combos = [(f, k, t) for f in B11_FLAVOURS for k in B11_FOLLOWERS for t in B11_TAILS[:3]]
    rng.shuffle(combos)
    jobs = []
    for n_case in range(ctx.n(45, 900)):
        if n_case < len(combos):
            flavour, fkind, tail = combos[n_case]
        else:
            flavour = rng.choice(B11_FLAVOURS[:1] * 3 + B11_FLAVOURS)
            fkind = rng.choice(B11_FOLLOWERS[:1] * 2 + B11_FOLLOWERS)
            tail = rng.choice(B11_TAILS[:3] * 2 + B11_TAILS)
        tlang = rng.choice([l for l in LANGS if l != "plain"] + ["unknown"])
        if tlang == "unknown":
            tname, aname = "qzxa.zzq", "vmqk.qqq"
        else:
            tname = pick_name(rng, tlang, "qzxa")
            aname = pick_name(rng, tlang, "vmqk")
        if flavour == "plain-diff":
            dirs = rng.choice([("a/", "b/", None), ("", "", None), ("old/", "new/", None), ("a/src/", "b/src/", None)])
        elif flavour == "plain-diff-separated":
            dirs = rng.choice([("a/", "b/"), ("old/", "new/")]) + (rng.choice(
                ["diff -u %(a)s %(b)s", "diff -ru %(a)s %(b)s", "diff -r -u %(a)s %(b)s", "Only in b: zz-%(n)s.orig"]),)
        else:
            dirs = ("a/", "b/", None)
        thunks, n_tail = b11_hunks(rng, tlang, tail)
        msecs = []
        for _attempt in range(8):
            stems = ["wvub", "kjyd", "pmre", "hgtc"]
            rng.shuffle(stems)
            before, after = [], []
            if rng.random() < 0.4:
                nm, nl = b11_name(rng, rng.choice(B11_FOLLOWERS), tlang if tlang != "unknown" else "rust", stems.pop())
                h, _ = b11_hunks(rng, nl, rng.choice(B11_TAILS))
                before.append((nm, nl, h))
            for k in range(rng.randint(1, 2)):
                nm, nl = b11_name(rng, fkind if k == 0 else rng.choice(B11_FOLLOWERS), tlang if tlang != "unknown" else "rust", stems.pop())
                if tlang == "unknown" and fkind == "same-language" and k == 0:
                    nm, nl = "%s.zzq" % nm.split(".")[0], "unknown"
                h, _ = b11_hunks(rng, nl, rng.choice(B11_TAILS))
                after.append((nm, nl, h))
            names = [x[0] for x in before] + [tname, aname] + [x[0] for x in after]
            if len(set(names)) == len(names) and not any(a != b and a in b for a in names for b in names):
                break
        else:
            continue
        sec = lambda nm, h: b11_section(flavour, dirs, nm, h)
        mk = lambda ls: ("\n".join(ls) + "\n").encode()
        pre = [l for nm, _, h in before for l in sec(nm, h)]
        post = [l for nm, _, h in after for l in sec(nm, h)]
        th = rng.choice(themes["dark"])
        tc = rng.choice(["always", "never"])
        args = ["--syntax-theme", th, "--true-color", tc, "--width", "200"]
        if rng.random() < 0.25:
            args.append("-n")
        if rng.random() < 0.12:
            args.append("-s")
        if rng.random() < 0.5:
            cargs = gen_config(rng, "syntax-all", tc)[0]
            k = cargs.index("--hunk-header-style")
            cargs[k + 1] = " ".join(w for w in cargs[k + 1].split() if w != "file")
            args += cargs
        runs = [(args, mk(sec(tname, thunks)), None), (args, mk(pre + sec(tname, thunks) + post), None),
                (args, mk(pre + sec(aname, thunks) + post), None)]
        pa, pb = ("a/", "b/") if flavour == "git" else dirs[:2]
        for nm, _, h in before + [(tname, tlang, thunks)] + after:
            msecs.append((pa + nm, pb + nm, ".".join(hunk_code([l for l in hh if not l.startswith("\\")]) or "_"
                                                       for hh in split_hunks(h))))
        jobs.append(dict(flavour=flavour, fkind=fkind, tail=tail, n_tail=n_tail, tname=tname, aname=aname, tlang=tlang,
                         names=[n for n in names if n != aname], runs=runs, msecs=msecs,
                         stream="%s | %s | %s" % (",".join(x[0] for x in before) or "-", tname, ",".join(x[0] for x in after)),
                         follower_lang=after[0][1]))
    # the lifetime model on the same sections
    allnames = sorted({n for j in jobs for m, p, _ in j["msecs"] for n in (m, p)})
    cands = sorted({c for n in allnames for c in name_candidates(n)})
    byext = {}
    for k, r in zip(cands, hook.ask(["superimpose.byext " + hx(k) for k in cands])):
        byext[k] = None if r == "ok -" else unhxs(r.split()[1])
    fb = unhxs(hook.ask(["superimpose.fallback " + hx("txt")])[0].split()[1])
    reqs = []
    for j in jobs:
        keys = sorted({c for m, p, _ in j["msecs"] for n in (m, p) for c in name_candidates(n)})
        tbl = "T" + ",".join("%s:%s" % (k.encode().hex(), byext[k].encode().hex() if byext[k] is not None else "-") for k in keys)
        f = ["superimpose.lifetime", hx(fb), tbl, str(len(j["msecs"]))]
        for m, p, code in j["msecs"]:
            f += [hx(m), hx(p), code or "_"]
        reqs.append(" ".join(f))
    model = mdl.ask(reqs) if mdl else [None] * len(reqs)
    flat = [r for j in jobs for r in j["runs"]]
    results = parallel_map(lambda r: run_case(ctx, r[0], r[1], r[2]), flat)
    for n, (j, m) in enumerate(zip(jobs, model)):
        res = results[3 * n:3 * n + 3]
        rep.count("boundary:%s" % j["flavour"])
        rep.count("boundary:follower:%s" % j["fkind"])
        rep.count("boundary:tail:%s" % j["tail"])
        if any(r[0] != 0 for r in res):
            rep.count("binary:nonzero-exit")
            continue
        nontrivial = j["n_tail"] > 0 and j["follower_lang"] != j["tlang"]
        rep.case(key=("b11", sha(j["runs"][1][1]), tuple(j["runs"][1][0])), nontrivial=nontrivial,
                 sample=dict(op="binary-file-boundary", flavour=j["flavour"], stream=j["stream"], target_language=j["tlang"],
                             next_file_language=j["follower_lang"], last_hunk_ends=j["tail"], args=j["runs"][0][0]))
        probe = Probe()
        eval_b11(res, probe, j)
        if m is not None:
            model_ok = m.startswith("ok") and all(x.split(":")[1:3] == x.split(":")[3:5] for x in m.split(" ")[1:])
            dependent = any(v.startswith("language:") and not v.endswith("rename-same-kind-changes-colouring") for v in probe.v)
            rep.corr_case("superimpose.lifetime", m.startswith("ok") and ((not model_ok) or not dependent),
                          dict(request=reqs[n][:400], model=m[:400], binary_failures=probe.v))
        confirm(ctx, rep, j["runs"], res, lambda r, sink, j=j: eval_b11(r, sink, j))



def run(ctx, rep):
    rep.rule = ("hook level: random (syntect sections, diff sections) over an alphabet with non-ASCII, zero-width, "
                "tab and newline characters, random partitions incl. empty sections, trailing-newline variants, "
                "mismatching / shorter / longer syntect text, plus real syntect partitions of code lines; "
                "non-trivial = more than one section on a side. Binary level: generated git diffs in 14 languages "
                "(within-line edits, long lines, empty lines, 1-2 files) x style configurations "
                "(default / all-syntax / no-syntax / mixed, random attributes) x options x several themes of one "
                "class (+ none); non-trivial = the themes really gave different foregrounds. Section independence: a "
                "target file section with hunk-header fragments rendered alone and after 1-3 neighbour sections "
                "(modify in any of 14 languages, ending inside an open comment/string, delete, add, rename with and "
                "without hunks, mode-only, binary); non-trivial = a neighbour of another language. Names a cache "
                "coarser than the file name would confuse (shared extension with a whole-name entry of syntect's "
                "table such as CMakeLists.txt / Cargo.lock / resolv.conf, extension-less names equal to an "
                "extension, shared stems; pairs computed from syntect's table, both orders, 1-3 neighbours, "
                "polyglot hunk lines): section alone vs after the others, and vs a same-kind name in the same "
                "place; non-trivial = the two languages colour the hunks differently. File boundaries with "
                "lines still buffered: streams of 2-4 file sections (plain `diff -u` output with nothing between "
                "the files, the same with `diff -u a b` / `diff -ru` / `Only in` lines between, git diffs) in which "
                "the target's last hunk ends with removed+added / added / removed lines (controls: a context line, "
                "a `\\ No newline` marker), the next file of another language / the same language / an unknown "
                "name, 0-1 preceding and 1-2 following sections, every (flavour, follower, ending) combination "
                "first: the target's section alone vs inside the stream, and vs the same hunks under another "
                "name of the same kind inside the stream; non-trivial = changed lines are buffered at the "
                "boundary and the next file has another language. Distinct by request / (diff hash, args).")
    rep.extra_trusted += [
        "syntect: highlight_line returns sections that partition the line (checked on the sampled lines, not proved)",
        "syntect/bat assets: which colours a theme assigns; find_syntax_by_extension; ansi_colours::ansi256_from_rgb",
        "light/dark class of a theme as delta reports it (--list-syntax-themes); the class selects the diff styles",
        "ansi_term: SGR emission of a Style (decoded by the harness's own SGR interpreter)",
    ]
    rep.assumptions += ["text syn = text diff (syntect partitions its input) for superimpose_text / theme_independent_modulo_fg"]
    correspondence(ctx, rep)
    binary_oracles(ctx, rep)
    lifetime_oracles(ctx, rep)
    sbs_oracles(ctx, rep)
    weird_name_oracles(ctx, rep)
    shared_extension_oracles(ctx, rep)
    boundary_oracles(ctx, rep)


def replay(ctx, rep, obj):
    """Re-run one stored case against the current tree."""
    case = obj.get("case", obj)
    oracle = case.get("oracle")
    if oracle in ("F1", "F1c"):
        r = ctx.hook().ask([case["request"]])[0]
        rep.case(key=case["request"], nontrivial=True, sample=dict(request=case["request"][:200], impl=r[:200]))
        if oracle == "F1":
            f = case["request"].split(" ")
            tc, null = int(f[1]), f[2]
            i = 4
            ns = int(f[i]); i += 1
            syn = [(f[i + 2 * k], unhx(f[i + 1 + 2 * k]).decode()) for k in range(ns)]
            i += 2 * ns
            nd = int(f[i]); i += 1
            diff = [(f[i + 2 * k], unhx(f[i + 1 + 2 * k]).decode()) for k in range(nd)]
            bad = f1_oracle(dict(tc=tc, null=null, syn=syn, diff=diff, kind="replay"), r)
            if bad:
                rep.violation(bad[0], bad[1], case)
        return
    if "runs" in case:
        outs = [run_spec(ctx, (r["args"], base64.b64decode(r["stdin_b64"]), r.get("files") or {"_": ""}))
                for r in case["runs"]]
        runs = [(r["args"], base64.b64decode(r["stdin_b64"]), r.get("files")) for r in case["runs"]]
        rep.case(key=repr(case["runs"])[:500], nontrivial=True, sample=dict(oracle=oracle, args=case["runs"][0]["args"]))
        if oracle in ("B1", "B2", "B3"):
            meta = {tuple(b): tuple(tuple(x) if isinstance(x, list) else x for x in m) for b, m in case.get("meta", [])}
            check_theme_group(rep, [o[1] for o in outs], case.get("labels", ["a", "b"]), meta, oracle == "B2", runs)
        elif oracle == "B7":
            a, b = section_rows(outs[0][1], case["tpath"]), section_rows(outs[1][1], case["tpath"])
            if a != b:
                rep.violation("lifetime:section-depends-on-preceding-sections",
                              "the section of %s is rendered differently after other sections than alone" % case["tpath"], case)
        elif oracle == "B7f":
            fr = [strip_cells(c) for c in fg_cells(outs[0][1], tuple(case["hh_bg"]), case["tpath"])]
            fr = [c for c in fr if "".join(ch for ch, _ in c) == case["fragment"].strip()]
            bo = [strip_cells(c) for c in fg_cells(outs[1][1], tuple(case["zero_bg"]), case["tpath"])]
            bo = [c for c in bo if "".join(ch for ch, _ in c) == case["fragment"].strip()]
            if fr and bo and fr[0] != bo[0]:
                rep.violation("lifetime:fragment-not-coloured-as-body", "fragment not coloured as in a hunk body", case)
        elif oracle == "B10s":
            a, b = section_rows(outs[0][1], case["tpath"]), section_rows(outs[1][1], case["tpath"])
            if a != b:
                rep.violation("language:%s:section-colouring-depends-on-other-files" % case.get("cls", "shared-extension"),
                              "the section of %s is coloured differently after other sections than alone" % case["tpath"], case)
        elif oracle == "B10r":
            a, b = section_body_rows(outs[0][1], case["tpath"]), section_body_rows(outs[1][1], case["apath"])
            if a != b:
                rep.violation("language:%s:rename-same-kind-changes-colouring" % case.get("cls", "shared-extension"),
                              "renaming %s to %s (same kind) changed the colouring of its hunks" % (case["tpath"], case["apath"]), case)
        elif oracle in ("B11s", "B11r"):
            j = dict(case, runs=runs, tlang="?", stream="(replay)", tail="?", n_tail=case.get("n_tail", 0),
                     aname=case.get("aname"))
            res = [(o[0], o[1], o[2]) for o in outs]
            if oracle == "B11r":
                # stored as (stream with the target, stream with the renamed target): put a placeholder first
                res = [res[0]] + res
                j["runs"] = [runs[0]] + runs
            eval_b11(res, rep, j)
        elif oracle == "B6p":
            bgs = [tuple(b) for b in case.get("bgs", [])]
            fgs = {it[2] for row in decode(outs[0][1]) for it in row if it[0] == "c" and it[3] in bgs}
            if len(fgs - {None}) > 1:
                rep.violation("language:plain-text-file-highlighted", "a language was inferred from the content", case)
        elif oracle == "B6":
            if outs[0][1] != outs[1][1]:
                rep.violation(obj.get("signature") or "language:depends-on-file-in-cwd", "output changes with a file in the working directory", case)
        else:
            compare_rows(rep, oracle, "replayed rows differ", outs[0][1], outs[1][1], case.get("names", []), runs)
        return
    run(ctx, rep)
