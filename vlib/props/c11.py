"""C11 — output is streamed: bounded lag behind the input, never revised."""
import fcntl
import os
import subprocess
import time

from .. import machine as M
from ..core import parallel_map

DRIVERS = ["drv_machine"]
GENERATED = ["Handlers", "Markers", "InputPath", "ViewSites"]


def prefix_run(ctx, args, lines, ks, pager=False, expect=None):
    """Feed the real binary line by line; after each k in ks wait until it blocks in read(0)
    and return what it has written so far. Returns ({k: bytes}, final bytes, rc).
    pager: the output goes through a pager process (`cat`, inheriting our pipe) as under `--paging always`;
    expect: {k: rows that must be visible after k lines} — what arrives is awaited for a while (the pager copies
    asynchronously) before the snapshot is taken."""
    env = dict(os.environ, HOME=os.path.join(os.path.dirname(ctx.delta), "..", "..", "home"), GIT_CONFIG_NOSYSTEM="1",
               DELTA_VERIF_FORCE_GUESS="none")
    for k in ("GIT_CONFIG_PARAMETERS", "DELTA_FEATURES", "DELTA_PAGER", "PAGER", "BAT_PAGER", "DELTA_VERIF_HOOK", "LESS"):
        env.pop(k, None)
    if pager:
        args = [a for a in args if not a.startswith("--paging")] + ["--paging=always"]
        env["DELTA_PAGER"] = "cat"
    p = subprocess.Popen([ctx.delta] + args, stdin=subprocess.PIPE, stdout=subprocess.PIPE, stderr=subprocess.PIPE, env=env)
    fd = p.stdout.fileno()
    fcntl.fcntl(fd, fcntl.F_SETFL, fcntl.fcntl(fd, fcntl.F_GETFL) | os.O_NONBLOCK)
    got = b""
    snaps = {}

    def drain():
        nonlocal got
        while True:
            try:
                b = os.read(fd, 65536)
            except BlockingIOError:
                return
            if not b:
                return
            got += b

    def wait_blocked():
        # blocked in read(0): /proc/<pid>/syscall starts with "0 0x0 "
        for _ in range(2000):
            try:
                s = open(f"/proc/{p.pid}/syscall").read()
            except OSError:
                return
            if s.startswith("0 0x0 ") and open(f"/proc/{p.pid}/stat").read().split()[2] == "S":
                return
            time.sleep(0.0005)
    for i, ln in enumerate(lines):
        p.stdin.write(ln + b"\n")
        p.stdin.flush()
        if i + 1 in ks:
            wait_blocked()
            time.sleep(0.001)
            drain()
            if expect is not None:
                for _ in range(300 if pager else 40):
                    if got.count(b"\n") >= expect.get(i + 1, 0):
                        break
                    time.sleep(0.002)
                    drain()
            snaps[i + 1] = got
    p.stdin.close()
    p.wait(timeout=20)
    fcntl.fcntl(fd, fcntl.F_SETFL, fcntl.fcntl(fd, fcntl.F_GETFL) & ~os.O_NONBLOCK)
    got += p.stdout.read()
    return snaps, got, p.returncode


def chunk_run(ctx, args, chunks, expect, pager=False):
    """Feed the real binary the given chunks (arbitrary byte strings: parts of lines, several lines); after every chunk wait
    until it blocks in read(0) and take what has arrived. expect: [rows that must be visible after chunk j].
    Returns ([bytes after chunk j], final bytes, rc)."""
    env = dict(os.environ, HOME=os.path.join(os.path.dirname(ctx.delta), "..", "..", "home"), GIT_CONFIG_NOSYSTEM="1",
               DELTA_VERIF_FORCE_GUESS="none")
    for k in ("GIT_CONFIG_PARAMETERS", "DELTA_FEATURES", "DELTA_PAGER", "PAGER", "BAT_PAGER", "DELTA_VERIF_HOOK", "LESS"):
        env.pop(k, None)
    if pager:
        args = [a for a in args if not a.startswith("--paging")] + ["--paging=always"]
        env["DELTA_PAGER"] = "cat"
    p = subprocess.Popen([ctx.delta] + args, stdin=subprocess.PIPE, stdout=subprocess.PIPE, stderr=subprocess.PIPE, env=env)
    fd = p.stdout.fileno()
    fcntl.fcntl(fd, fcntl.F_SETFL, fcntl.fcntl(fd, fcntl.F_GETFL) | os.O_NONBLOCK)
    got = b""
    snaps = []

    def drain():
        nonlocal got
        while True:
            try:
                b = os.read(fd, 65536)
            except BlockingIOError:
                return
            if not b:
                return
            got += b

    def wait_blocked():
        for _ in range(2000):
            try:
                st = open(f"/proc/{p.pid}/syscall").read()
            except OSError:
                return
            if st.startswith("0 0x0 ") and open(f"/proc/{p.pid}/stat").read().split()[2] == "S":
                return
            time.sleep(0.0005)
    try:
        for j, c in enumerate(chunks):
            p.stdin.write(c)
            p.stdin.flush()
            wait_blocked()
            time.sleep(0.001)
            drain()
            for _ in range(300 if pager else 40):
                if got.count(b"\n") >= expect[j]:
                    break
                time.sleep(0.002)
                drain()
            snaps.append(got)
        p.stdin.close()
        p.wait(timeout=20)
    finally:
        if p.poll() is None:
            p.kill()
    fcntl.fcntl(fd, fcntl.F_SETFL, fcntl.fcntl(fd, fcntl.F_GETFL) & ~os.O_NONBLOCK)
    got += p.stdout.read()
    return snaps, got, p.returncode


CHUNKINGS = ["mid-line", "several-lines", "line-and-a-bit", "byte-trickle", "newline-first"]


def make_chunks(rng, data, kind, limit=28):
    """cut the input bytes into chunks; every class ends chunks at places a line-by-line feeder never does"""
    n = len(data)
    cuts = set()
    nl = [i + 1 for i, b in enumerate(data) if b == 10]          # positions just after a newline
    if kind == "mid-line":
        cuts = {rng.randrange(1, n) for _ in range(limit)} if n > 1 else set()
    elif kind == "several-lines":
        i = 0
        while i < len(nl) - 1:
            i += rng.choice([2, 3, 5])
            if i < len(nl):
                cuts.add(nl[i - 1])
    elif kind == "line-and-a-bit":
        for q in rng.sample(nl, min(len(nl), limit)):
            if q + 1 < n:
                cuts.add(min(n - 1, q + rng.choice([1, 2, 5])))
    elif kind == "byte-trickle":
        start = rng.choice(nl[:-1]) if len(nl) > 1 else 0
        for q in range(start, min(n, start + 12)):
            cuts.add(q)
        cuts |= set(rng.sample(nl, min(len(nl), limit - 12)))
    elif kind == "newline-first":
        for q in rng.sample(nl, min(len(nl), limit)):
            if q - 1 > 0:
                cuts.add(q - 1)                                      # the chunk ends just before the newline: the next begins with it
    cuts = sorted(c for c in cuts if 0 < c < n)
    if len(cuts) > limit:
        cuts = sorted(rng.sample(cuts, limit))
    out, prev = [], 0
    for c in cuts + [n]:
        out.append(data[prev:c]); prev = c
    return [c for c in out if c]


def run(ctx, rep):
    rep.rule = ("git/plain/combined diffs x unified configurations with line-buffer-size in {0,1,2,4,32}: after every input line "
                "the implementation's written bytes, output buffer and line buffers are observed (hook) and, for a sample, the real "
                "binary is fed through a pipe line by line; non-trivial = has a run of >= 2 changed lines; distinct by (config, input)")
    rng = ctx.rng
    cases, meta = [], []
    for i in range(ctx.n(150, 3000)):
        cfg = M.gen_cfg(rng, color_only=False)
        r = rng.random()
        if r < 0.7:
            lines, files = M.gen_git_diff(rng)
        elif r < 0.85:
            lines, files = M.gen_plain_diff(rng)
        else:
            lines, files = M.gen_combined_diff(rng)
        cases.append((cfg, [l.encode() for l in lines]))
        meta.append((cfg, lines))
    res = M.observe(ctx, cases)
    for (cfg, lines), (impl, model) in zip(meta, res):
        case = dict(args=cfg.args(), model_cfg=cfg.d, input="\n".join(lines))
        runs = 0
        best = 0
        for l in lines:
            runs = runs + 1 if l[:1] in ("-", "+") else 0
            best = max(best, runs)
        rep.case(key=(cfg.key(), tuple(lines)), nontrivial=best >= 2,
                 sample=dict(bufSize=cfg.d["bufSize"], n_lines=len(lines), head=lines[:5]))
        if impl.panic:
            rep.violation("panic:" + impl.msg[:60], impl.msg[:200], case); continue
        if not impl.ok:
            continue
        dis = M.compare(cfg, impl, model)
        rep.corr_case("machine.run", not dis, dict(case, disagreement=dis[:2]))
        B = cfg.d["bufSize"]
        held = 0
        prev_written = 0
        for k, o in enumerate(impl.obs[:-1]):
            # never revised: bytes written so far are a prefix of the final output (same buffer: only its length is observed,
            # so check monotonicity here; byte-level prefix is checked on the real binary below)
            if o["written"] < prev_written:
                rep.violation("written-decreased", f"line {k}: written bytes went down", case)
            prev_written = o["written"]
            if o["minus"] > B + 1 or o["plus"] > B + 1:
                rep.violation("lag-exceeds-buffer", f"line {k}: {o['minus']} minus / {o['plus']} plus lines held, buffer size {B}", case)
            if o["state"] in ("HunkZero", "HunkMinus", "HunkPlus") and o["buffered"] != 0:
                rep.violation("painted-rows-not-emitted", f"line {k}: {o['buffered']} bytes left in the output buffer after a hunk line", case)
            if o["state"] == "HunkZero" and (o["minus"] or o["plus"]):
                rep.violation("context-line-did-not-flush", f"line {k}: line buffers not empty after an unchanged line", case)
            if o["state"] == "MergeConflict":
                held += 1
                if held >= 3:
                    rep.violation("merge-conflict-region-held", f"line {k}: merge-conflict region lines are held until the closing marker", case)
            else:
                held = 0
            rep.count("state:" + o["state"])
    # side-by-side mode: the same streaming oracle on the implementation (the machine model is unified-view only)
    sbs_cases = []
    for cfg, lines in meta[: ctx.n(60, 1500)]:
        sbs_cases.append((cfg, lines, rng.choice(["60", "81", "120", "33"])))
    reqs, sticky = [], []
    for cfg, lines, w in sbs_cases:
        sticky.append(len(reqs))
        args = [a for a in cfg.args() if not a.startswith("--width")] + ["--side-by-side", "--width=" + w]
        reqs.append("cfg " + " ".join(M.hx(a) for a in args))
        reqs.append("machine.run " + " ".join(M.hx(l.encode()) for l in lines))
    resp = ctx.hook().ask(reqs, sticky=sticky) if reqs else []
    for i, (cfg, lines, w) in enumerate(sbs_cases):
        impl = M.ImplRun(resp[2 * i + 1])
        case = dict(args=cfg.args() + ["--side-by-side", "--width=" + w], model_cfg=cfg.d, input="\n".join(lines), mode="side-by-side")
        rep.case(key=("sbs", cfg.key(), tuple(lines), w), nontrivial=True)
        rep.count("side-by-side-runs")
        if impl.panic:
            rep.count("sbs-panic:" + impl.msg[:40])      # crashes are C03's / C07's business; not judged here
            continue
        if not impl.ok:
            continue
        B = cfg.d["bufSize"]
        # both views: the machine model says nothing about what a row looks like in side-by-side mode, but its emission
        # points and line buffers are those of the side-by-side run too (C11.view_does_not_change_emission_points)
        model = res[i][1]
        uni = res[i][0]
        if model is not None and model.ok and uni.ok and not M.compare(cfg, uni, model) and len(model.obs) == len(impl.obs) \
                and not any(o["blame"] == "1" or o["grep"] != "0" for o in impl.obs[:-1]):
            dis, pw, pm = [], 0, 0
            for k, (a, b) in enumerate(zip(impl.obs, model.obs)):
                if a["state"] != b["state"]:
                    dis.append(f"line {k}: state {a['state']} vs model {b['state']}"); break
                if (a["minus"], a["plus"]) != (b["minus"], b["plus"]):
                    dis.append(f"line {k}: held minus/plus {(a['minus'], a['plus'])} vs model {(b['minus'], b['plus'])}"); break
                if (a["buffered"] > 0) != (b["buf"] > 0):
                    dis.append(f"line {k}: output buffer non-empty {a['buffered'] > 0} vs model {b['buf'] > 0}"); break
                if (a["written"] > pw) != (b["out"] > pm):
                    dis.append(f"line {k}: something written at this line {a['written'] > pw} vs model {b['out'] > pm}"); break
                pw, pm = a["written"], b["out"]
            rep.corr_case("machine.run:side-by-side-emission-points", not dis, dict(case, disagreement=dis[:2]))
        prev = 0
        for k, o in enumerate(impl.obs[:-1]):
            if o["written"] < prev:
                rep.violation("written-decreased", f"line {k}: written bytes went down (side-by-side)", case)
            prev = o["written"]
            if o["minus"] > B + 1 or o["plus"] > B + 1:
                rep.violation("lag-exceeds-buffer", f"line {k}: {o['minus']}/{o['plus']} lines held, buffer size {B} (side-by-side)", case)
            if o["state"] in ("HunkZero", "HunkMinus", "HunkPlus") and o["buffered"] != 0:
                rep.violation("painted-rows-not-emitted", f"line {k}: output buffer not emitted after a hunk line (side-by-side)", case)
            if o["state"] == "HunkZero" and (o["minus"] or o["plus"]):
                rep.violation("context-line-did-not-flush", f"line {k}: line buffers not empty after an unchanged line (side-by-side)", case)
    # the real binary through a pipe, every prefix
    # (rows the model has written after k lines: the model agreed with the hooked implementation above, one row = one
    #  output line; so after k lines the real binary must have written at least that many lines — directly and through a
    #  pager process)
    sample = []
    for (cfg, lines), (impl, model) in zip(meta, res):
        if len(lines) <= 60 and impl.ok and model.ok and not M.compare(cfg, impl, model) and len(sample) < ctx.n(16, 240):
            sample.append((cfg, lines, {k + 1: o["out"] for k, o in enumerate(model.obs[:len(lines)])}, len(sample) % 2 == 1))

    def one(mt):
        cfg, lines, expect, pager = mt
        lb = [l.encode() for l in lines]
        try:
            return prefix_run(ctx, cfg.args(), lb, set(range(1, len(lb) + 1)), pager=pager, expect=expect)
        except Exception as e:  # noqa
            return ("error", str(e), None)
    for (cfg, lines, expect, pager), r in zip(sample, parallel_map(one, sample, workers=8)):
        case = dict(args=cfg.args(), model_cfg=cfg.d, input="\n".join(lines), pipe=True, pager=pager)
        rep.count("pipe:" + ("through-pager" if pager else "direct"))
        if r[0] == "error":
            rep.count("pipe-driver-error"); continue
        snaps, final, rc = r
        rep.case(key=("pipe", cfg.key(), tuple(lines)), nontrivial=True)
        rep.count("pipe-prefixes", len(snaps))
        if rc != 0:
            rep.violation("exit-status", f"exit status {rc}", case)
        prev = b""
        for k in sorted(snaps):
            if not final.startswith(snaps[k]):
                rep.violation("output-revised", f"after {k} lines the bytes written are not a prefix of the final output", dict(case, k=k))
                break
            if not snaps[k].startswith(prev):
                rep.violation("output-revised", f"after {k} lines the bytes written do not extend those after the previous line", dict(case, k=k))
                break
            prev = snaps[k]
        # lag in rows: what the model says has been written after k lines is visible at that point
        for k in sorted(snaps):
            have, want = snaps[k].count(b"\n"), expect.get(k, 0)
            if have < want:
                rep.violation("pipe-lag" + (":through-pager" if pager else ""),
                              f"after {k} input lines {have} output lines have arrived, {want} have been rendered and emitted", dict(case, k=k))
                break

    # the input side: arbitrary chunking (C11.line_consumed_as_soon_as_written). The producer writes pieces that end in the
    # middle of lines, hold several lines, start with the newline of the previous line, ... and pauses after each; the pipe /
    # reader-stack model (drv_machine `input.run`, program compiled from Generated/InputPath.lean) says how many lines the
    # state machine has been handed at each pause; the machine model says how many rows are out after that many lines.
    csample = []
    for (cfg, lines), (impl, model) in zip(meta, res):
        if 4 <= len(lines) <= 80 and impl.ok and model is not None and model.ok and not M.compare(cfg, impl, model) \
                and len(csample) < ctx.n(15, 200):
            kind = CHUNKINGS[len(csample) % len(CHUNKINGS)]
            sbs = len(csample) % 3 == 2
            data = "\n".join(lines).encode() + b"\n"
            chunks = make_chunks(rng, data, kind)
            csample.append((cfg, lines, chunks, kind, sbs, rng.randrange(0, 1000), len(csample) % 4 == 3))
    mdl = ctx.model("drv_machine") if ctx.drivers_ok else None
    mresp = mdl.ask(["input.run stdin " + " ".join("w" + M.hx(c) + " p" + str(seed) for c in chunks)
                     for _, _, chunks, _, _, seed, _ in csample]) if (mdl and csample) else []
    input_model = bool(mresp) and all(r.startswith("ok ") for r in mresp)
    if mresp and not input_model:
        rep.count("input.run:driver-does-not-know-the-op")

    def cone(mt):
        cfg, lines, chunks, kind, sbs, seed, pager = mt
        rows_after = [0] + [o["out"] for o in res_model_obs[id(lines)]]
        sent, exp = b"", []
        for c in chunks:
            sent += c
            w = rows_after[min(sent.count(b"\n"), len(rows_after) - 1)]
            exp.append(min(w, 1) if sbs else w)
        args = cfg.args() + (["--side-by-side", "--width=100"] if sbs else [])
        try:
            return chunk_run(ctx, args, chunks, exp, pager=pager)
        except Exception as e:  # noqa
            return ("error", str(e), None)
    res_model_obs = {}
    for (cfg, lines), (impl, model) in zip(meta, res):
        if model is not None and model.ok:
            res_model_obs[id(lines)] = model.obs[:len(lines)]
    for j, (mt, r) in enumerate(zip(csample, parallel_map(cone, csample, workers=4))):
        cfg, lines, chunks, kind, sbs, seed, pager = mt
        view = "side-by-side" if sbs else "unified"
        case = dict(args=cfg.args() + (["--side-by-side", "--width=100"] if sbs else []), model_cfg=cfg.d, input="\n".join(lines),
                    chunked=True, chunks=[c.hex() for c in chunks], chunking=kind, view=view, pager=pager, hint_seed=seed)
        rep.count("chunked:" + kind + ":" + view + (":through-pager" if pager else ""))
        if r[0] == "error":
            rep.count("pipe-driver-error"); continue
        snaps, final, rc = r
        rep.case(key=("chunked", cfg.key(), tuple(lines), tuple(chunks), view), nontrivial=any(c[-1:] != b"\n" for c in chunks[:-1]),
                 sample=dict(chunking=kind, n_chunks=len(chunks), view=view))
        rep.count("chunked-pauses", len(snaps))
        if rc != 0:
            rep.violation("exit-status", f"exit status {rc}", case)
        rows_after = [0] + [o["out"] for o in res_model_obs[id(lines)]]
        handed = None
        if input_model:
            obs = [o.split(",") for o in mresp[j].split(" ")[1].split(";")]
            handed = [int(o[0]) for o in obs]
            if any(o[2] != "1" or o[4] != "0" or o[5] != "0" for o in obs):
                rep.corr_case("input.run", False, dict(case, disagreement="the model's consumer is not at rest with empty buffers at a pause"))
        sent, prev = b"", b""
        for q, c in enumerate(chunks):
            sent += c
            k = sent.count(b"\n")                        # complete lines among the bytes written so far
            snap = snaps[q] if q < len(snaps) else final
            if not final.startswith(snap) or not snap.startswith(prev):
                rep.violation("output-revised", f"after chunk {q} the bytes written are not a prefix of what follows", dict(case, q=q))
                break
            prev = snap
            have = snap.count(b"\n")
            if sbs:
                # side-by-side rows are not the model's rows: the oracle is on *whether* the input so far has produced what the
                # complete run produces for it: everything the unified model has emitted after k lines is non-empty iff ...
                want_some = rows_after[min(k, len(rows_after) - 1)] > 0
                if want_some and have == 0:
                    rep.violation("pipe-lag:chunked:" + kind + ":side-by-side",
                                  f"after chunk {q} ({len(sent)} bytes, {k} complete lines) nothing has arrived; the rows of these lines have been emitted", dict(case, q=q))
                    break
                continue
            want = rows_after[min(k, len(rows_after) - 1)]
            if have < want:
                rep.violation("pipe-lag:chunked:" + kind + (":through-pager" if pager else ""),
                              f"after chunk {q} ({len(sent)} bytes written, {k} complete lines) {have} output lines have arrived, "
                              f"{want} have been rendered and emitted for these lines", dict(case, q=q))
                break
            if handed is not None and not pager:
                hk = handed[q]
                rep.corr_case("input.run", have == rows_after[min(hk, len(rows_after) - 1)],
                              dict(case, q=q, disagreement=f"after chunk {q}: the reader model has handed on {hk} lines = "
                                   f"{rows_after[min(hk, len(rows_after) - 1)]} rows out, {have} rows have arrived"))


def replay(ctx, rep, obj):
    c = obj["case"]
    cfg = M.VCfg(**c["model_cfg"])
    lines = c["input"].split("\n")
    if c.get("chunked"):
        res = M.observe(ctx, [(cfg, [l.encode() for l in lines])])
        impl, model = res[0]
        chunks = [bytes.fromhex(x) for x in c["chunks"]]
        rows_after = [0] + [o["out"] for o in model.obs[:len(lines)]]
        sbs = c.get("view") == "side-by-side"
        sent, exp = b"", []
        for ch in chunks:
            sent += ch
            w = rows_after[min(sent.count(b"\n"), len(rows_after) - 1)]
            exp.append(min(w, 1) if sbs else w)
        snaps, final, rc = chunk_run(ctx, c["args"], chunks, exp, pager=bool(c.get("pager")))
        rep.case(key=("chunked-replay", tuple(lines)), nontrivial=True)
        sent = b""
        for q, ch in enumerate(chunks):
            sent += ch
            k = sent.count(b"\n")
            have, want = snaps[q].count(b"\n"), rows_after[min(k, len(rows_after) - 1)]
            print(f"chunk {q}: {len(sent)} bytes written, {k} complete lines, {have} output lines arrived, {want} emitted per model")
            if (have == 0 and want > 0) if sbs else have < want:
                rep.violation(obj.get("signature", "pipe-lag:chunked"), f"after chunk {q}: {have} output lines arrived, {want} emitted", c)
                break
        return
    res = M.observe(ctx, [(cfg, [l.encode() for l in lines])])
    impl, model = res[0]
    if c.get("pipe") and model.ok:
        expect = {k + 1: o["out"] for k, o in enumerate(model.obs[:len(lines)])}
        lb = [l.encode() for l in lines]
        snaps, final, rc = prefix_run(ctx, cfg.args(), lb, set(range(1, len(lb) + 1)), pager=bool(c.get("pager")), expect=expect)
        rep.case(key=("pipe-replay", tuple(lines)), nontrivial=True)
        for k in sorted(snaps):
            have, want = snaps[k].count(b"\n"), expect.get(k, 0)
            print(k, "arrived", have, "emitted per model", want)
            if have < want:
                rep.violation(obj.get("signature", "pipe-lag"), f"after {k} input lines {have} output lines have arrived, {want} emitted", c)
                break
        return
    for k, o in enumerate(impl.obs):
        print(k, o["state"], o["written"], o["buffered"], o["minus"], o["plus"])
