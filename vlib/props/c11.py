"""C11 — output is streamed: bounded lag behind the input, never revised."""
import fcntl
import os
import subprocess
import time

from .. import machine as M
from ..core import parallel_map

DRIVERS = ["drv_machine"]
GENERATED = ["Handlers", "Markers"]


def prefix_run(ctx, args, lines, ks, pager=False, expect=None):
    """Feed the real binary line by line; after each k in ks wait until it blocks in read(0)
    and return what it has written so far. Returns ({k: bytes}, final bytes, rc).
    pager: the output goes through a pager process (`cat`, inheriting our pipe) as under `--paging always`;
    expect: {k: rows that must be visible after k lines} — what arrives is awaited for a while (the pager copies
    asynchronously) before the snapshot is taken."""
    env = dict(os.environ, HOME=os.path.join(os.path.dirname(ctx.delta), "..", "..", "home"), GIT_CONFIG_NOSYSTEM="1",
               DELTA_VERIF_FORCE_GUESS="none")
    for k in ("GIT_CONFIG_PARAMETERS", "DELTA_FEATURES", "DELTA_PAGER", "PAGER", "BAT_PAGER", "DELTA_VERIF_HOOK", "LESS"):
        env.pop(k, None)
    if pager:
        args = [a for a in args if not a.startswith("--paging")] + ["--paging=always"]
        env["DELTA_PAGER"] = "cat"
    p = subprocess.Popen([ctx.delta] + args, stdin=subprocess.PIPE, stdout=subprocess.PIPE, stderr=subprocess.PIPE, env=env)
    fd = p.stdout.fileno()
    fcntl.fcntl(fd, fcntl.F_SETFL, fcntl.fcntl(fd, fcntl.F_GETFL) | os.O_NONBLOCK)
    got = b""
    snaps = {}

    def drain():
        nonlocal got
        while True:
            try:
                b = os.read(fd, 65536)
            except BlockingIOError:
                return
            if not b:
                return
            got += b

    def wait_blocked():
        # blocked in read(0): /proc/<pid>/syscall starts with "0 0x0 "
        for _ in range(2000):
            try:
                s = open(f"/proc/{p.pid}/syscall").read()
            except OSError:
                return
            if s.startswith("0 0x0 ") and open(f"/proc/{p.pid}/stat").read().split()[2] == "S":
                return
            time.sleep(0.0005)
    for i, ln in enumerate(lines):
        p.stdin.write(ln + b"\n")
        p.stdin.flush()
        if i + 1 in ks:
            wait_blocked()
            time.sleep(0.001)
            drain()
            if expect is not None:
                for _ in range(300 if pager else 40):
                    if got.count(b"\n") >= expect.get(i + 1, 0):
                        break
                    time.sleep(0.002)
                    drain()
            snaps[i + 1] = got
    p.stdin.close()
    p.wait(timeout=20)
    fcntl.fcntl(fd, fcntl.F_SETFL, fcntl.fcntl(fd, fcntl.F_GETFL) & ~os.O_NONBLOCK)
    got += p.stdout.read()
    return snaps, got, p.returncode


def run(ctx, rep):
    rep.rule = ("git/plain/combined diffs x unified configurations with line-buffer-size in {0,1,2,4,32}: after every input line "
                "the implementation's written bytes, output buffer and line buffers are observed (hook) and, for a sample, the real "
                "binary is fed through a pipe line by line; non-trivial = has a run of >= 2 changed lines; distinct by (config, input)")
    rng = ctx.rng
    cases, meta = [], []
    for i in range(ctx.n(150, 3000)):
        cfg = M.gen_cfg(rng, color_only=False)
        r = rng.random()
        if r < 0.7:
            lines, files = M.gen_git_diff(rng)
        elif r < 0.85:
            lines, files = M.gen_plain_diff(rng)
        else:
            lines, files = M.gen_combined_diff(rng)
        cases.append((cfg, [l.encode() for l in lines]))
        meta.append((cfg, lines))
    res = M.observe(ctx, cases)
    for (cfg, lines), (impl, model) in zip(meta, res):
        case = dict(args=cfg.args(), model_cfg=cfg.d, input="\n".join(lines))
        runs = 0
        best = 0
        for l in lines:
            runs = runs + 1 if l[:1] in ("-", "+") else 0
            best = max(best, runs)
        rep.case(key=(cfg.key(), tuple(lines)), nontrivial=best >= 2,
                 sample=dict(bufSize=cfg.d["bufSize"], n_lines=len(lines), head=lines[:5]))
        if impl.panic:
            rep.violation("panic:" + impl.msg[:60], impl.msg[:200], case); continue
        if not impl.ok:
            continue
        dis = M.compare(cfg, impl, model)
        rep.corr_case("machine.run", not dis, dict(case, disagreement=dis[:2]))
        B = cfg.d["bufSize"]
        held = 0
        prev_written = 0
        for k, o in enumerate(impl.obs[:-1]):
            # never revised: bytes written so far are a prefix of the final output (same buffer: only its length is observed,
            # so check monotonicity here; byte-level prefix is checked on the real binary below)
            if o["written"] < prev_written:
                rep.violation("written-decreased", f"line {k}: written bytes went down", case)
            prev_written = o["written"]
            if o["minus"] > B + 1 or o["plus"] > B + 1:
                rep.violation("lag-exceeds-buffer", f"line {k}: {o['minus']} minus / {o['plus']} plus lines held, buffer size {B}", case)
            if o["state"] in ("HunkZero", "HunkMinus", "HunkPlus") and o["buffered"] != 0:
                rep.violation("painted-rows-not-emitted", f"line {k}: {o['buffered']} bytes left in the output buffer after a hunk line", case)
            if o["state"] == "HunkZero" and (o["minus"] or o["plus"]):
                rep.violation("context-line-did-not-flush", f"line {k}: line buffers not empty after an unchanged line", case)
            if o["state"] == "MergeConflict":
                held += 1
                if held >= 3:
                    rep.violation("merge-conflict-region-held", f"line {k}: merge-conflict region lines are held until the closing marker", case)
            else:
                held = 0
            rep.count("state:" + o["state"])
    # side-by-side mode: the same streaming oracle on the implementation (the machine model is unified-view only)
    sbs_cases = []
    for cfg, lines in meta[: ctx.n(60, 1500)]:
        sbs_cases.append((cfg, lines, rng.choice(["60", "81", "120", "33"])))
    reqs, sticky = [], []
    for cfg, lines, w in sbs_cases:
        sticky.append(len(reqs))
        args = [a for a in cfg.args() if not a.startswith("--width")] + ["--side-by-side", "--width=" + w]
        reqs.append("cfg " + " ".join(M.hx(a) for a in args))
        reqs.append("machine.run " + " ".join(M.hx(l.encode()) for l in lines))
    resp = ctx.hook().ask(reqs, sticky=sticky) if reqs else []
    for i, (cfg, lines, w) in enumerate(sbs_cases):
        impl = M.ImplRun(resp[2 * i + 1])
        case = dict(args=cfg.args() + ["--side-by-side", "--width=" + w], model_cfg=cfg.d, input="\n".join(lines), mode="side-by-side")
        rep.case(key=("sbs", cfg.key(), tuple(lines), w), nontrivial=True)
        rep.count("side-by-side-runs")
        if impl.panic:
            rep.count("sbs-panic:" + impl.msg[:40])      # crashes are C03's / C07's business; not judged here
            continue
        if not impl.ok:
            continue
        B = cfg.d["bufSize"]
        prev = 0
        for k, o in enumerate(impl.obs[:-1]):
            if o["written"] < prev:
                rep.violation("written-decreased", f"line {k}: written bytes went down (side-by-side)", case)
            prev = o["written"]
            if o["minus"] > B + 1 or o["plus"] > B + 1:
                rep.violation("lag-exceeds-buffer", f"line {k}: {o['minus']}/{o['plus']} lines held, buffer size {B} (side-by-side)", case)
            if o["state"] in ("HunkZero", "HunkMinus", "HunkPlus") and o["buffered"] != 0:
                rep.violation("painted-rows-not-emitted", f"line {k}: output buffer not emitted after a hunk line (side-by-side)", case)
            if o["state"] == "HunkZero" and (o["minus"] or o["plus"]):
                rep.violation("context-line-did-not-flush", f"line {k}: line buffers not empty after an unchanged line (side-by-side)", case)
    # the real binary through a pipe, every prefix
    # (rows the model has written after k lines: the model agreed with the hooked implementation above, one row = one
    #  output line; so after k lines the real binary must have written at least that many lines — directly and through a
    #  pager process)
    sample = []
    for (cfg, lines), (impl, model) in zip(meta, res):
        if len(lines) <= 60 and impl.ok and model.ok and not M.compare(cfg, impl, model) and len(sample) < ctx.n(16, 240):
            sample.append((cfg, lines, {k + 1: o["out"] for k, o in enumerate(model.obs[:len(lines)])}, len(sample) % 2 == 1))

    def one(mt):
        cfg, lines, expect, pager = mt
        lb = [l.encode() for l in lines]
        try:
            return prefix_run(ctx, cfg.args(), lb, set(range(1, len(lb) + 1)), pager=pager, expect=expect)
        except Exception as e:  # noqa
            return ("error", str(e), None)
    for (cfg, lines, expect, pager), r in zip(sample, parallel_map(one, sample, workers=8)):
        case = dict(args=cfg.args(), model_cfg=cfg.d, input="\n".join(lines), pipe=True, pager=pager)
        rep.count("pipe:" + ("through-pager" if pager else "direct"))
        if r[0] == "error":
            rep.count("pipe-driver-error"); continue
        snaps, final, rc = r
        rep.case(key=("pipe", cfg.key(), tuple(lines)), nontrivial=True)
        rep.count("pipe-prefixes", len(snaps))
        if rc != 0:
            rep.violation("exit-status", f"exit status {rc}", case)
        prev = b""
        for k in sorted(snaps):
            if not final.startswith(snaps[k]):
                rep.violation("output-revised", f"after {k} lines the bytes written are not a prefix of the final output", dict(case, k=k))
                break
            if not snaps[k].startswith(prev):
                rep.violation("output-revised", f"after {k} lines the bytes written do not extend those after the previous line", dict(case, k=k))
                break
            prev = snaps[k]
        # lag in rows: what the model says has been written after k lines is visible at that point
        for k in sorted(snaps):
            have, want = snaps[k].count(b"\n"), expect.get(k, 0)
            if have < want:
                rep.violation("pipe-lag" + (":through-pager" if pager else ""),
                              f"after {k} input lines {have} output lines have arrived, {want} have been rendered and emitted", dict(case, k=k))
                break


def replay(ctx, rep, obj):
    c = obj["case"]
    cfg = M.VCfg(**c["model_cfg"])
    lines = c["input"].split("\n")
    res = M.observe(ctx, [(cfg, [l.encode() for l in lines])])
    impl, model = res[0]
    if c.get("pipe") and model.ok:
        expect = {k + 1: o["out"] for k, o in enumerate(model.obs[:len(lines)])}
        lb = [l.encode() for l in lines]
        snaps, final, rc = prefix_run(ctx, cfg.args(), lb, set(range(1, len(lb) + 1)), pager=bool(c.get("pager")), expect=expect)
        rep.case(key=("pipe-replay", tuple(lines)), nontrivial=True)
        for k in sorted(snaps):
            have, want = snaps[k].count(b"\n"), expect.get(k, 0)
            print(k, "arrived", have, "emitted per model", want)
            if have < want:
                rep.violation(obj.get("signature", "pipe-lag"), f"after {k} input lines {have} output lines have arrived, {want} emitted", c)
                break
        return
    for k, o in enumerate(impl.obs):
        print(k, o["state"], o["written"], o["buffered"], o["minus"], o["plus"])
