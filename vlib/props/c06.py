"""C06 — within-line emphasis marks exactly what changed between paired lines.

Correspondence: the hooked `tokenize`, `Alignment::new(..).operations()`, `annotate` (through
`edits::verif_annotate`) and `infer_edits` against the Lean model driver `drv_edits`, on
(a) exhaustive pairs of short strings / token sequences over a small alphabet incl. whitespace,
(b) random realistic lines (code-like, Unicode, repeated tokens, whitespace-only edits),
(c) subhunks up to 6x6 lines under several thresholds and tokenisation regexes.
Direct oracle: the C06 statement evaluated on the implementation's own output.
Optional end-to-end: emphasis decoded from the real binary's stdout.
"""
import itertools
import re
import struct

from ..core import hx, unhx, parallel_map

DRIVERS = ["drv_edits"]
GENERATED = ["AlignCosts", "HunkFlush", "EmphPaint", "PairThresholds"]

REGEXES = [r"\w+", r".", r"\S+", r"[a-z]+|\d+"]
EXTRA_REGEXES = [r"b*", r"\w"]          # empty matches; single-character tokens
THRESHOLDS = ["0", "0.3", "0.6", "1.0"]
ND, D, NI, I = 0, 1, 2, 3                # noop-deletion, deletion, noop-insertion, insertion
# Unicode White_Space (what Rust's `char::is_whitespace` / `str::trim` use)
WS = set("\t\n\x0b\x0c\r \x85\xa0          "
         "      　")


def rtrim_ws(s):
    return s.rstrip("".join(WS))


def trim_ws(s):
    return s.strip("".join(WS))


def zero_width(c):
    import unicodedata
    return unicodedata.category(c) in ("Mn", "Me", "Cf")


def f64bits(n, d):
    x = (float(n) / float(d)) if d > 0 else 0.0
    return struct.pack(">d", x).hex()


# --------------------------------------------------------------------------- generators

WORDS = ["foo", "bar", "x", "i", "self", "fn", "let", "mut", "return", "value", "Vec", "len", "0", "1", "42",
         "résumé", "日本", "語", "naïve", "a", "b", "ab", "foo_bar", "λ", "Ω", "é", "👍", "ｗ"]
PUNCT = [" ", " ", " ", "  ", "(", ")", ",", ", ", ";", ".", "::", " = ", " + ", "->", "{", "}", "[", "]", "\t",
         " ", "　", "-", "\"", "'", "&", "*", "//", "​"]


def gen_tokens(rng, n=None):
    n = rng.randint(0, 10) if n is None else n
    toks = []
    if rng.random() < 0.3:
        toks.append(" " * rng.choice([1, 2, 4, 8]))
    for k in range(n):
        toks.append(rng.choice(WORDS))
        if k < n - 1 or rng.random() < 0.3:
            toks.append(rng.choice(PUNCT))
    return toks


def mutate_tokens(rng, toks):
    toks = list(toks)
    for _ in range(rng.choice([1, 1, 1, 2, 3])):
        kind = rng.choice(["replace", "insert", "delete", "ws", "dup", "swap", "indent", "trail", "case"])
        if kind == "replace" and toks:
            toks[rng.randrange(len(toks))] = rng.choice(WORDS + PUNCT)
        elif kind == "insert":
            i = rng.randint(0, len(toks))
            toks[i:i] = gen_tokens(rng, rng.randint(1, 3))
        elif kind == "delete" and toks:
            i = rng.randrange(len(toks))
            del toks[i:i + rng.randint(1, 3)]
        elif kind == "ws":
            idx = [k for k, t in enumerate(toks) if t.strip() == ""]
            if idx:
                k = rng.choice(idx)
                toks[k] = rng.choice(["", " ", "  ", "\t", "   "])
            else:
                toks.insert(rng.randint(0, len(toks)), " ")
        elif kind == "dup" and toks:
            i = rng.randrange(len(toks))
            toks.insert(i, toks[i])
        elif kind == "swap" and len(toks) > 1:
            i, j = rng.randrange(len(toks)), rng.randrange(len(toks))
            toks[i], toks[j] = toks[j], toks[i]
        elif kind == "indent":
            toks.insert(0, rng.choice([" ", "  ", "    ", "\t"]))
        elif kind == "trail":
            toks.append(rng.choice([" ", "  ", "\t"]))
        elif kind == "case" and toks:
            i = rng.randrange(len(toks))
            toks[i] = toks[i].upper()
    return toks


def finish_line(rng, toks):
    s = "".join(toks)
    r = rng.random()
    return s + ("\n" if r < 0.9 else ("" if r < 0.985 else "\r\n"))


def gen_pair(rng):
    a = gen_tokens(rng)
    r = rng.random()
    if r < 0.1:
        b = list(a)
    elif r < 0.2:
        b = gen_tokens(rng)
    else:
        b = mutate_tokens(rng, a)
    return finish_line(rng, a), finish_line(rng, b)


def gen_subhunk(rng):
    m, p = rng.randint(0, 6), rng.randint(0, 6)
    if rng.random() < 0.4:
        p = m
    pool = [gen_tokens(rng) for _ in range(rng.randint(1, 4))]

    def one():
        base = rng.choice(pool)
        r = rng.random()
        t = base if r < 0.25 else (mutate_tokens(rng, base) if r < 0.85 else gen_tokens(rng))
        return finish_line(rng, t)
    minus = [one() for _ in range(m)]
    plus = [one() for _ in range(p)]
    if rng.random() < 0.15 and minus and plus:            # whitespace-only partner
        k = rng.randrange(len(minus))
        plus[rng.randrange(len(plus))] = "  " + minus[k].replace(" ", "  ")
    return minus, plus


def exhaustive_strings(alphabet, maxlen):
    out = [""]
    for n in range(1, maxlen + 1):
        out.extend("".join(t) for t in itertools.product(alphabet, repeat=n))
    return out


# --------------------------------------------------------------------------- protocol helpers

class Domain:
    """`edits.domain` answers of the implementation: segmentation, widths, match spans and the
    DESIGN 3.1 domain conditions, per (regex, line)."""

    def __init__(self, ctx):
        self.ctx, self.cache = ctx, {}

    def fetch(self, pairs, chunk=4000):
        todo = sorted({p for p in pairs if p not in self.cache})
        if not todo:
            return
        reqs = [f"edits.domain {hx(r)} {hx(l)}" for r, l in todo]
        for (r, l), a in zip(todo, ask_parallel(self.ctx.hook, reqs, chunk)):
            f = a.split(" ")
            if f[0] == "ok" and len(f) == 7:
                self.cache[(r, l)] = (f[1], all(x == "1" for x in f[2:]), f[2:])
            else:
                self.cache[(r, l)] = ("L;", False, ["err"])

    def field(self, r, l):
        return self.cache[(r, l)][0]

    def ok(self, r, l):
        return self.cache[(r, l)][1]


def ask_parallel(mk, reqs, chunk=4000):
    """Answers for `reqs` from fresh LineProcs made by `mk()`, chunked over worker threads."""
    if not reqs:
        return []
    chunks = [reqs[i:i + chunk] for i in range(0, len(reqs), chunk)]
    res = parallel_map(lambda c: mk().ask(c, timeout=600), chunks)
    return [a for r in res for a in r]


def parse_sections(s):
    if s == "":
        return []
    out = []
    for part in s.split(","):
        tag, h = part.split(":")
        out.append((int(tag), bytes.fromhex(h).decode("utf-8", "replace")))
    return out


def parse_kv(ans):
    """`ok K=v K=v …` -> dict"""
    d = {}
    for f in ans.split(" ")[1:]:
        k, _, v = f.partition("=")
        d[k] = v
    return d


def canon_model(ans):
    """Model answers carry distances as numer/denom; turn them into the f64 bit pattern the
    implementation prints (IEEE division, DESIGN 3.3)."""
    if ans is None or not ans.startswith("ok "):
        return "PANIC" if (ans or "").startswith("PANIC") else ans
    def repl(m):
        return m.group(1) + f64bits(int(m.group(2)), int(m.group(3)))
    return re.sub(r"((?:D=|:)(?=\d+/\d+))(\d+)/(\d+)", repl, ans)


def canon_impl(ans):
    if ans.startswith("PANIC") or ans.startswith("DIED"):
        return "PANIC"
    return ans


# --------------------------------------------------------------------------- cases

def req_of(case, dom):
    k = case["op"]
    if k == "tokenize":
        return f"edits.tokenize {hx(case['regex'])} {hx(case['line'])} {dom.field(case['regex'], case['line'])}"
    if k == "align":
        x, y = case["x"], case["y"]
        return "edits.align " + " ".join([str(len(x))] + [hx(t) for t in x] + [str(len(y))] + [hx(t) for t in y])
    if k == "annotate":
        r = case["regex"]
        return (f"edits.annotate {hx(r)} {hx(case['minus'])} {hx(case['plus'])} {ND} {D} {NI} {I} "
                f"{dom.field(r, case['minus'])} {dom.field(r, case['plus'])}")
    if k == "infer":
        r = case["regex"]
        parts = [f"edits.infer {hx(r)} {case['max']} {case['naive']} {D} {I}", str(len(case["minus"]))]
        for l, t in zip(case["minus"], case["mtags"]):
            parts += [hx(l), str(t), dom.field(r, l)]
        parts.append(str(len(case["plus"])))
        for l, t in zip(case["plus"], case["ptags"]):
            parts += [hx(l), str(t), dom.field(r, l)]
        return " ".join(parts)
    raise ValueError(k)


def lines_of(case):
    k = case["op"]
    if k == "tokenize":
        return [(case["regex"], case["line"])]
    if k == "annotate":
        return [(case["regex"], case["minus"]), (case["regex"], case["plus"])]
    if k == "infer":
        return [(case["regex"], l) for l in case["minus"] + case["plus"]]
    return []


def in_domain(case, dom):
    if case["op"] == "infer":
        try:
            float(case["max"]), float(case["naive"])
        except ValueError:
            return False
    return all(dom.ok(r, l) for r, l in lines_of(case))


def joined(secs):
    return "".join(s for _, s in secs)


def kept(secs, emph):
    return "".join(s for t, s in secs if t != emph)


def emph_runs(secs, emph):
    """Maximal stretches of consecutive emphasised sections, as texts (empty sections ignored)."""
    runs, cur = [], None
    for t, s in secs:
        if s == "":
            continue
        if t == emph:
            cur = (cur or "") + s
        elif cur is not None:
            runs.append(cur)
            cur = None
    if cur is not None:
        runs.append(cur)
    return runs


def oracle_pair(rep, case, minus, plus, am, ap, toks=None, where="annotate"):
    """C06 on one paired (minus, plus) with the implementation's annotated sections."""
    bad = False
    replay = dict(case)
    if joined(am) != minus or joined(ap) != plus:
        bad |= rep.violation(f"{where}:sections-do-not-partition-line",
                             "annotated sections do not concatenate to the line", replay)
    if kept(am, D) != kept(ap, I):
        bad |= rep.violation(f"{where}:unsound-emphasis",
                             "deleting the emphasised sections leaves different text on the two lines", replay)
    if minus == plus and (any(t == D for t, _ in am) or any(t == I for t, _ in ap)):
        bad |= rep.violation(f"{where}:identical-lines-emphasised", "identical paired lines carry emphasis", replay)
    if toks is not None:
        tx, ty = toks
        # pure insertion / pure deletion of one contiguous run of tokens
        for (short, long_, short_secs, long_secs, e_short, e_long, name) in (
                (tx, ty, am, ap, D, I, "insertion"), (ty, tx, ap, am, I, D, "deletion")):
            if len(long_) > len(short):
                lcp = 0
                while lcp < len(short) and short[lcp] == long_[lcp]:
                    lcp += 1
                lcs = 0
                while lcs < len(short) - lcp and short[-1 - lcs] == long_[-1 - lcs]:
                    lcs += 1
                if lcp + lcs == len(short):
                    rep.count("single-run-" + name)
                    run = long_[lcp:len(long_) - lcs]
                    want = sum(len(t) for t in run)
                    runs_long = emph_runs(long_secs, e_long)
                    runs_short = emph_runs(short_secs, e_short)
                    if runs_short or len(runs_long) > 1 or sum(len(r) for r in runs_long) != want:
                        bad |= rep.violation(f"{where}:single-run-not-contiguous",
                                             f"pure {name} of one run of tokens is not emphasised as one stretch of that size",
                                             replay)
    return bad


def eval_case(rep, case, impl, model, dom, tok_ans=None):
    """Correspondence + direct oracle for one case."""
    op = case["op"]
    ci = canon_impl(impl)
    indom = model is not None
    if indom:
        cm = canon_model(model)
        rep.corr_case("edits." + op, ci == cm, dict(case=case, impl=impl, model=model))
    if ci == "PANIC":
        rep.count("impl-panic:" + op)
        if op != "align":
            rep.violation(f"panic:edits.{op}", "the implementation panicked", dict(case, got=impl))
        return
    if not impl.startswith("ok"):
        rep.count("impl-err:" + op)
        return
    if op == "tokenize":
        toks = [unhx(f).decode("utf-8", "replace") for f in impl.split(" ")[1:]]
        nontrivial = len(toks) > 2
        rep.case(key=("tok", case["regex"], case["line"]), nontrivial=nontrivial,
                 sample=dict(case, impl=impl))
        if "".join(toks) != case["line"] or not toks or toks[0] != "":
            rep.violation("tokenize:not-a-partition", "tokens do not concatenate to the line / first token not empty",
                          dict(case, got=impl))
    elif op == "align":
        f = impl.split(" ")
        ops, cost = f[1], int(f[2])
        x, y = case["x"], case["y"]
        rep.case(key=("align", tuple(x), tuple(y)), nontrivial=len(set(ops)) > 1, sample=dict(case, impl=impl))
        if x and y and x[0] == y[0]:
            # valid edit script; cost = script cost; minimal among a brute-force enumeration (small sizes)
            i = j = 0
            ok = True
            for o in ops:
                if o == "N":
                    ok &= i < len(x) and j < len(y) and x[i] == y[j]
                    i += 1; j += 1
                elif o == "D":
                    i += 1
                else:
                    j += 1
            ok &= i == len(x) and j == len(y)
            if not ok:
                rep.violation("align:invalid-script", "operations are not a valid edit script", dict(case, got=impl))
            elif script_cost(ops) != cost:
                rep.violation("align:cost-mismatch", "final cell cost differs from the cost of the script read back",
                              dict(case, got=impl))
            elif len(x) + len(y) <= 9 and best_cost(tuple(x), tuple(y)) != cost:
                rep.violation("align:not-optimal", "a cheaper valid edit script exists", dict(case, got=impl))
    elif op == "annotate":
        kv = parse_kv(impl)
        am, ap = parse_sections(kv["M"]), parse_sections(kv["P"])
        toks = None
        if tok_ans is not None and all(t.startswith("ok") for t in tok_ans):
            toks = tuple([unhx(f).decode("utf-8", "replace") for f in t.split(" ")[1:]] for t in tok_ans)
        emph = any(t == D for t, _ in am) or any(t == I for t, _ in ap)
        rep.case(key=("ann", case["regex"], case["minus"], case["plus"]), nontrivial=emph,
                 sample=dict(case, impl=impl))
        rep.count("annotate:" + ("emph" if emph else "no-emph"))
        oracle_pair(rep, case, case["minus"], case["plus"], am, ap, toks)
    elif op == "infer":
        eval_infer(rep, case, impl, tok_ans)


COSTS = dict(D=2, I=2, P=1)


def load_costs():
    """The cost constants as the translator read them from src/align.rs on this run (the oracle
    states 'cost of the read-back script = stored cost = minimum' for the *current* constants)."""
    import os
    from ..core import LEAN
    try:
        src = open(os.path.join(LEAN, "DeltaModel", "Generated", "AlignCosts.lean")).read()
        for key, name in (("D", "deletionCost"), ("I", "insertionCost"), ("P", "initialMismatchPenalty")):
            COSTS[key] = int(re.search(r"def %s : Nat := (\d+)" % name, src).group(1))
    except (OSError, AttributeError):
        pass


def script_cost(ops):
    c, prev = 0, "N"
    for o in ops:
        if o != "N":
            c += COSTS[o] + (COSTS["P"] if prev == "N" else 0)
        prev = o
    return c


def best_cost(x, y):
    """Minimum script cost by exhaustive recursion over (i, j, previous-op-is-NoOp)."""
    from functools import lru_cache

    @lru_cache(maxsize=None)
    def go(i, j, prev_noop):
        if i == len(x) and j == len(y):
            return 0
        best = 10 ** 9
        pen = COSTS["P"] if prev_noop else 0
        if i < len(x) and j < len(y) and x[i] == y[j]:
            best = min(best, go(i + 1, j + 1, True))
        if i < len(x):
            best = min(best, COSTS["D"] + pen + go(i + 1, j, False))
        if j < len(y):
            best = min(best, COSTS["I"] + pen + go(i, j + 1, False))
        return best
    return go(0, 0, True)


def eval_infer(rep, case, impl, dist=None):
    kv = parse_kv(impl)
    minus, plus = case["minus"], case["plus"]
    al = []
    for e in (kv["A"].split(",") if kv["A"] else []):
        a, b = e.split(":")
        al.append((None if a == "-" else int(a), None if b == "-" else int(b)))

    def lines(v):
        n, _, body = v.partition(";")
        ls = [parse_sections(x) for x in body.split("|")] if int(n) > 0 else []
        return ls
    am, ap = lines(kv["M"]), lines(kv["P"])
    pairs = [(a, b) for a, b in al if a is not None and b is not None]
    rep.case(key=("inf", case["regex"], case["max"], case["naive"], tuple(minus), tuple(plus)),
             nontrivial=len(pairs) > 0 and len(al) > len(pairs), sample=dict(case, impl=impl))
    rep.count(f"infer:pairs={min(len(pairs), 3)}{'+' if len(pairs) > 3 else ''}")
    replay = dict(case, got=impl)
    # pairing is monotone: every index once, in order, on both sides
    if [a for a, _ in al if a is not None] != list(range(len(minus))) or \
            [b for _, b in al if b is not None] != list(range(len(plus))) or \
            len(am) != len(minus) or len(ap) != len(plus):
        rep.violation("infer:pairing-not-monotone", "line alignment does not list every line once in order", replay)
        return
    # pairing honours the distance: replay the greedy rule of the statement on the implementation's own
    # distances (`annotate` of each candidate pair): the first not yet used added line within the threshold
    # (or, for equally long runs, within the naive threshold) is the partner
    if dist is not None and all((a, b) in dist for a in minus for b in plus):
        try:
            mxf, nvf = float(case["max"]), float(case["naive"])
        except ValueError:
            mxf = None
        if mxf is not None:
            want, pi = [], 0
            for i_, a in enumerate(minus):
                hit = None
                for j_ in range(pi, len(plus)):
                    d_ = dist[(a, plus[j_])]
                    if (len(minus) == len(plus) and d_ <= nvf) or d_ <= mxf:
                        hit = j_
                        break
                if hit is not None:
                    want.append((i_, hit))
                    pi = hit + 1
            if want != pairs:
                missed = [q for q in want if q not in pairs][:1]
                extra = [q for q in pairs if q not in want][:1]
                what = ("two lines whose distance is within the threshold, and which the greedy order reaches, are not paired"
                        if missed else "lines are paired although their distance exceeds the threshold")
                q = (missed or extra)[0]
                rep.violation("infer:pairing-ignores-distance" if missed else "infer:pairing-beyond-distance",
                              what, dict(replay, expected_pairs=want, pair=list(q),
                                         distance=dist[(minus[q[0]], plus[q[1]])]))
    hm, hp = kv["H"].split(":")
    if hm != "".join("1" if b is not None else "0" for a, b in al if a is not None) or \
            hp != "".join("1" if a is not None else "0" for a, b in al if b is not None):
        rep.violation("infer:homolog-flags", "make_lines_have_homolog disagrees with the alignment", replay)
    for a, b in al:
        if a is not None and b is None:
            if joined(am[a]) != minus[a] or any(t == D or t == I for t, _ in am[a]):
                rep.violation("infer:unpaired-emphasised", "an unpaired removed line carries emphasis / is altered", replay)
        elif a is None:
            if joined(ap[b]) != plus[b] or any(t == D or t == I for t, _ in ap[b]):
                rep.violation("infer:unpaired-emphasised", "an unpaired added line carries emphasis / is altered", replay)
        else:
            oracle_pair(rep, replay, minus[a], plus[b], am[a], ap[b], where="infer")
    mx, nv = float(case["max"]), float(case["naive"])
    if mx >= 1.0:
        want = [(k, k) for k in range(min(len(minus), len(plus)))]
        if pairs != want:
            rep.violation("infer:distance-one-not-positional",
                          "with max-line-distance >= 1 the i-th removed line is not paired with the i-th added line", replay)
    if mx == 0.0 and nv == 0.0:
        for a, b in pairs:
            for secs, e in ((am[a], D), (ap[b], I)):
                for t, s in secs:
                    if t == e and trim_ws(s) != "":
                        # since /repo 31540bd a non-blank changed section counts at least 1, zero-width or not
                        rep.violation("infer:distance-zero-pairs-differing-lines",
                                      "with max-line-distance 0 a paired line has a non-whitespace emphasised section"
                                      + (" (zero-width characters only)" if all(zero_width(c) for c in trim_ws(s) if c not in WS) else ""),
                                      replay)


# --------------------------------------------------------------------------- runs

def run_cases(ctx, rep, cases):
    dom = Domain(ctx)
    need = [p for c in cases for p in lines_of(c)]
    dom.fetch(need)
    reqs = [req_of(c, dom) for c in cases]
    impl = ask_parallel(ctx.hook, reqs)
    have_model = ctx.drivers_ok and ctx.model("drv_edits") is not None
    idx = [k for k, c in enumerate(cases) if in_domain(c, dom)] if have_model else []
    manswers = ask_parallel(lambda: ctx.model("drv_edits"), [reqs[k] for k in idx])
    model = [None] * len(cases)
    for k, a in zip(idx, manswers):
        model[k] = a
    # token lists (implementation) for the single-run oracle of annotate cases
    tokreq, tokidx = [], {}
    for c in cases:
        if c["op"] == "annotate":
            for l in (c["minus"], c["plus"]):
                key = (c["regex"], l)
                if key not in tokidx:
                    tokidx[key] = len(tokreq)
                    tokreq.append(f"edits.tokenize {hx(c['regex'])} {hx(l)}")
    tokans = ask_parallel(ctx.hook, tokreq)
    # the implementation's own distance (`annotate`) for every candidate pair of every subhunk: the direct
    # oracle replays the greedy pairing rule of the property on them
    pairreq, pairidx = [], {}
    for c in cases:
        if c["op"] == "infer":
            for a in c["minus"]:
                for b in c["plus"]:
                    key = (c["regex"], a, b)
                    if key not in pairidx:
                        pairidx[key] = len(pairreq)
                        pairreq.append(f"edits.annotate {hx(c['regex'])} {hx(a)} {hx(b)} {ND} {D} {NI} {I}")
    pairans = ask_parallel(ctx.hook, pairreq)
    for c, i, m in zip(cases, impl, model):
        if m is None and c["op"] != "align":
            rep.count("domain-skipped:" + c["op"])
        ta = None
        if c["op"] == "annotate":
            ta = [tokans[tokidx[(c["regex"], c["minus"])]], tokans[tokidx[(c["regex"], c["plus"])]]]
        if c["op"] == "infer":
            ta = {}
            for a in c["minus"]:
                for b in c["plus"]:
                    ans = pairans[pairidx[(c["regex"], a, b)]]
                    if ans.startswith("ok"):
                        ta[(a, b)] = struct.unpack(">d", bytes.fromhex(parse_kv(ans)["D"]))[0]
        try:
            eval_case(rep, c, i, m, dom, ta)
        except Exception as ex:   # an answer the oracle cannot even parse is a failure of the implementation
            rep.violation("oracle-exception:edits." + c["op"], f"unparseable answer ({type(ex).__name__}: {ex})",
                          dict(c, got=i))


def gen_cases(ctx):
    rng = ctx.rng
    cases = []
    # (a) exhaustive: strings over {a, b, c, ' '}; every char is a token under `\w`, letter runs merge under `\w+`
    strs = exhaustive_strings("ab ", ctx.n(3, 4)) if ctx.quick() else exhaustive_strings("abc ", 4)
    for r in ([r"\w", r"\w+"] if ctx.quick() else [r"\w", r"\w+", r"b*", r"\S+"]):
        for s in strs:
            cases.append(dict(op="tokenize", regex=r, line=s + "\n"))
        for a in strs:
            for b in strs:
                cases.append(dict(op="annotate", regex=r, minus=a + "\n", plus=b + "\n"))
    # exhaustive token sequences for the table itself (first tokens equal or not; empty tokens inside)
    alpha = ["", "a", "b", " "]
    seqs = [list(t) for n in range(0, ctx.n(3, 4) + 1) for t in itertools.product(alpha, repeat=n)]
    for x in seqs:
        for y in seqs:
            cases.append(dict(op="align", x=x, y=y))
    # (b) random realistic lines
    def nfc_mostly(r, line):
        # a regex that matches single scalar values splits decomposed clusters (outside the model's
        # domain, DESIGN 3.1): keep a few such cases for the oracle, compose the rest
        if r in (".", r"\w") and rng.random() < 0.9:
            return line.replace("e\u0301", "\u00e9")
        return line
    for _ in range(ctx.n(1500, 100000)):
        a, b = gen_pair(rng)
        r = rng.choice(REGEXES + (EXTRA_REGEXES if rng.random() < 0.3 else []))
        a, b = nfc_mostly(r, a), nfc_mostly(r, b)
        cases.append(dict(op="annotate", regex=r, minus=a, plus=b))
        if rng.random() < 0.2:
            cases.append(dict(op="tokenize", regex=r, line=a))
    # (c) subhunks
    for _ in range(ctx.n(600, 30000)):
        minus, plus = gen_subhunk(rng)
        r = rng.choice(REGEXES)
        if rng.random() < 0.9:
            minus, plus = [nfc_mostly(r, l) for l in minus], [nfc_mostly(r, l) for l in plus]
        mx = rng.choice(THRESHOLDS) if rng.random() < 0.85 else ("0.%d" % rng.randint(1, 999))
        nv = "0.0" if rng.random() < 0.8 else rng.choice(["0.5", "1.0", "0.25"])
        cases.append(dict(op="infer", regex=r, max=mx, naive=nv, minus=minus, plus=plus,
                          mtags=[ND] * len(minus), ptags=[NI] * len(plus)))
    # whitespace-only interior changes (1x, 3x, 10x blanks) and changes in wide / multi-byte tokens, under
    # thresholds 0 / 0.05 / 0.6 / 1 and thresholds next to the pair's own distance
    WIDE = ["日本語", "résumé", "ｗｉｄｅ", "👍👍", "Ωμέγα", "naïveté", "данные", "データ", "x"]
    for k in range(ctx.n(240, 8000)):
        words = [rng.choice(["alpha", "beta", "name", "value", "x", "timeout", "42"] + WIDE) for _ in range(rng.randint(2, 5))]
        sep = rng.choice([" ", " = ", ", "])
        base = sep.join(words)
        if k % 2 == 0:
            n = rng.choice([1, 3, 10, 44])
            other = base.replace(" ", " " * (n + 1)) if rng.random() < 0.8 else (" " * n).join(words)
            if rng.random() < 0.3:
                other = rng.choice(["  ", "\t", ""]) + other + rng.choice(["", " ", "  "])
        else:
            w2 = list(words)
            w2[rng.randrange(len(w2))] = rng.choice(WIDE)
            if rng.random() < 0.4:
                w2.insert(rng.randrange(len(w2) + 1), rng.choice(WIDE))
            other = sep.join(w2)
        mx = rng.choice(["0", "0.05", "0.6", "1", "0", "0.%02d" % rng.randint(1, 99)])
        minus, plus = [base + "\n"], [other + "\n"]
        if rng.random() < 0.4:      # more lines around, equal or unequal run lengths
            extra = finish_line(rng, gen_tokens(rng))
            if rng.random() < 0.5:
                plus.insert(0, extra)
            else:
                minus.append(extra)
                if rng.random() < 0.5:
                    plus.append(finish_line(rng, gen_tokens(rng)))
        cases.append(dict(op="infer", regex=rng.choice([r"\w+", r"\w+", r"\S+"]), max=mx,
                          naive=rng.choice(["0.0", "0.0", "0.5"]), minus=minus, plus=plus,
                          mtags=[ND] * len(minus), ptags=[NI] * len(plus)))
    # per-line noop tags differ (what the API allows; delta itself passes one style per side)
    for _ in range(ctx.n(100, 2000)):
        minus, plus = gen_subhunk(rng)
        cases.append(dict(op="infer", regex=r"\w+", max=rng.choice(THRESHOLDS), naive="0.0", minus=minus, plus=plus,
                          mtags=[rng.choice([ND, 4]) for _ in minus], ptags=[rng.choice([NI, 5]) for _ in plus]))
    return cases


def run(ctx, rep):
    rep.rule = ("exhaustive: all pairs of strings of length <= 3 (quick; <= 4 thorough) over {a,b,' '} "
                "({a,b,c,' '} thorough) + '\\n' under several regexes, and all pairs of token sequences of length <= 3 (4) "
                "over {'',a,b,' '} for the alignment table; random: code-like lines with Unicode, repeated tokens and "
                "whitespace-only edits, and subhunks up to 6x6 under thresholds {0,0.3,0.6,1.0,random} x 4-6 regexes. "
                "Non-trivial: tokenize: > 2 tokens; align: > 1 kind of operation; annotate: some emphasis; "
                "infer: at least one pair and one unpaired line. Distinct by the full input. "
                "Painted emphasis: one-subhunk diffs on the real binary with each of the 8 hunk styles supplied directly / by "
                "reference to a user-defined name / to another option / through a chain, on the command line / in the [delta] "
                "section of a --config file / in a custom feature (the two within-line styles cycle through all 12 combinations); "
                "hook-level: style flags under references between options, chains and defaults. Non-trivial: emphasis displayed "
                "(binary), a within-line style given by reference (flags). "
                "Configured thresholds: one-subhunk diffs (1x1, 2x2, 1x2, 2x1) on the real binary whose designed pair differs by one "
                "token / by whitespace only / by both / not at all, on lines of 1-8, 10-120 and 400-2900 columns (distances from 1 down "
                "to 1/6000), with --max-line-distance = 0 (5 spellings) / 1 / exactly the pair's distance / the next decimal above / "
                "below it (4-12 places) / 0.001-like values / common values / not given, written on the command line (2 spellings), in "
                "[delta] of a --config file, in a feature, or passed as git -c; the naive-pairing environment variable unset / 0 / "
                "unparseable / positive; unified and side-by-side view; --max-line-length default / 0 / just enough. Non-trivial: "
                "a pair is displayed.")
    rep.extra_trusted += [
        "unicode-segmentation / unicode-width / str::trim / regex spans: taken from the implementation per case "
        "(edits.domain); cases violating the DESIGN 3.1 domain conditions go to the oracle only",
        "f64 comparison `distance <= max` modelled on rationals (DESIGN 3.3); distances compared as IEEE bit patterns",
    ]
    load_costs()
    rep.notes["cost_constants"] = dict(COSTS)
    cases = CORPUS + gen_cases(ctx)
    rep.exhaustive = dict(strings="len<=%d" % ctx.n(3, 4), token_sequences="len<=%d" % ctx.n(3, 4))
    run_cases(ctx, rep, cases)
    end_to_end(ctx, rep)
    end_to_end_hunks(ctx, rep)
    end_to_end_supply(ctx, rep)
    emph_flags_hook(ctx, rep)
    end_to_end_thresholds(ctx, rep)


CORPUS = [
    # fixed in /repo 31540bd: a zero-width difference must not be paired at threshold 0 (notes/C06.md)
    dict(op="infer", regex=r"\w+", max="0", naive="0.0", minus=["a b\n"], plus=["a \u200bb\n"], mtags=[ND], ptags=[NI]),
    # whitespace-only difference is paired at threshold 0
    dict(op="infer", regex=r"\w+", max="0", naive="0.0", minus=["a b\n"], plus=["a  b\n"], mtags=[ND], ptags=[NI]),
    # rejected candidates before a pair; per-line no-op tags
    dict(op="infer", regex=r"\w+", max="0.6", naive="0.0", minus=["x y\n"], plus=["zzz\n", "x w\n"], mtags=[ND], ptags=[NI, 5]),
    # interior-whitespace-only change at threshold 0, and a 4x longer whitespace-only change at 0.6
    dict(op="infer", regex=r"\w+", max="0", naive="0.0", minus=["alpha = beta\n"], plus=["alpha   =   beta\n"], mtags=[ND], ptags=[NI]),
    dict(op="infer", regex=r"\w+", max="0.6", naive="0.0", minus=["name value\n"], plus=["name" + " " * 44 + "value\n"], mtags=[ND], ptags=[NI]),
    # delta's own examples (edits.rs tests)
    dict(op="annotate", regex=r"\w+", minus="aaa bbb\n", plus="aaa ccc\n"),
    dict(op="annotate", regex=r"\w+", minus="fn coalesce_edits<'a, EditOperation>(\n", plus="fn coalesce_edits<'a, 'b, EditOperation>(\n"),
    dict(op="annotate", regex=r"\w+", minus="for _ in range(0, options[\"count\"]):\n",
         plus="for _ in range(0, int(options[\"count\"])):\n"),
    dict(op="annotate", regex=r"\w+", minus=" a a\n", plus=" a b a\n"),
]


def replay(ctx, rep, obj):
    load_costs()
    case = obj.get("case") or {}
    case = {k: v for k, v in case.items() if k not in ("got", "stderr")}
    if case.get("op") == "e2e-hunk":
        return end_to_end_hunks(ctx, rep, [([(k, t) for k, t in case["seq"]], case["max"], case["buf"])])
    if case.get("op") == "e2e-supply":
        return end_to_end_supply(ctx, rep, [(case["minus"], case["plus"], case["max"], case["plan"])])
    if case.get("op") == "emph-flags":
        return emph_flags_hook(ctx, rep, [case["plan"]])
    if case.get("op") == "e2e-thr":
        return end_to_end_thresholds(ctx, rep, [{k: case[k] for k in THR_JOB_KEYS}])
    if case.get("op") == "e2e":
        body = "".join("-" + l + "\n" for l in case["minus"]) + "".join("+" + l + "\n" for l in case["plus"])
        diff = "diff --git a/f b/f\n--- a/f\n+++ b/f\n@@ -1,%d +1,%d @@\n" % (len(case["minus"]), len(case["plus"])) + body
        return end_to_end(ctx, rep, [(case["minus"], case["plus"], case["max"], diff)])
    if "op" not in case:
        # a tie-broken replay names theorems / correspondence ops: re-run the whole check
        return run(ctx, rep)
    run_cases(ctx, rep, [case])


# --------------------------------------------------------------------------- end to end

# one reserved background colour per role (DESIGN 3.4 verification palette)
BG = dict(minus=1, minus_emph=2, minus_non_emph=3, plus=4, plus_emph=5, plus_non_emph=6, zero=7, ws_error=9)
E2E_ARGS = ["--no-gitconfig",
            "--minus-style", "normal 1", "--minus-emph-style", "normal 2", "--minus-non-emph-style", "normal 3",
            "--plus-style", "normal 4", "--plus-emph-style", "normal 5", "--plus-non-emph-style", "normal 6",
            "--zero-style", "normal 7", "--whitespace-error-style", "normal 9", "--syntax-theme", "none",
            "--file-style", "omit", "--hunk-header-style", "omit", "--width", "variable", "--true-color", "never",
            "--tabs", "0"]
SGR = re.compile(r"\x1b\[([0-9;]*)([mK])")


def decode_row(row):
    """[(background colour index or None, char)] of one output row (16/256-colour backgrounds)."""
    out, bg, pos = [], None, 0
    for m in SGR.finditer(row):
        out.extend((bg, ch) for ch in row[pos:m.start()])
        pos = m.end()
        if m.group(2) == "K":
            continue
        ps = m.group(1).split(";")
        k = 0
        while k < len(ps):
            q = ps[k]
            if q == "" or q == "0":
                bg = None
            elif q == "48" and k + 2 < len(ps) and ps[k + 1] == "5":
                bg = int(ps[k + 2]); k += 2
            elif q == "38" and k + 2 < len(ps) and ps[k + 1] == "5":
                k += 2
            elif q == "49":
                bg = None
            elif q.isdigit() and 40 <= int(q) <= 47:
                bg = int(q) - 40
            elif q.isdigit() and 100 <= int(q) <= 107:
                bg = int(q) - 100 + 8
            k += 1
    out.extend((bg, ch) for ch in row[pos:])
    return out


def e2e_line(rng):
    while True:
        s = "".join(gen_tokens(rng, rng.randint(1, 6)))
        s = re.sub(r"[\r\n\t​́]", "", s)
        if s.strip() and s[0] not in "-+\\" :
            return s


def e2e_job(rng):
    m, p = rng.randint(0, 4), rng.randint(0, 4)
    if m + p == 0:
        m = 1
    pool = [e2e_line(rng) for _ in range(3)]

    def one():
        r = rng.random()
        base = rng.choice(pool)
        if r < 0.3:
            return base
        if r < 0.8:
            toks = re.findall(r"\w+|\W", base)
            s = re.sub(r"[\r\n\t​́]", "", "".join(mutate_tokens(rng, toks)))
            return s if (s.strip() and s[0] not in "-+\\") else base
        return e2e_line(rng)
    minus, plus = [one() for _ in range(m)], [one() for _ in range(p)]
    mx = rng.choice(THRESHOLDS)
    body = "".join("-" + l + "\n" for l in minus) + "".join("+" + l + "\n" for l in plus)
    diff = "diff --git a/f b/f\n--- a/f\n+++ b/f\n@@ -1,%d +1,%d @@\n" % (len(minus), len(plus)) + body
    return minus, plus, mx, diff


def end_to_end(ctx, rep, jobs=None):
    """The real binary on one-subhunk diffs: emphasis decoded from stdout (one reserved background
    colour per role), then the C06 statement on what is displayed."""
    rng = ctx.rng
    if jobs is None:
        jobs = [e2e_job(rng) for _ in range(ctx.n(150, 8000))]

    def one(job):
        minus, plus, mx, diff = job
        return ctx.run_delta(E2E_ARGS + ["--max-line-distance", mx], diff.encode())
    for (minus, plus, mx, diff), (rc, out, err) in zip(jobs, parallel_map(one, jobs)):
        replay = dict(op="e2e", minus=minus, plus=plus, max=mx)
        e2e_oracle(rep, replay, minus, plus, mx, rc, out, err, "e2e", "e2e")


def viol(rep, sig, what, replay):
    """`rep.violation`, once per signature (the report keeps at most 50 violations: a family that fails on every
    case must not crowd out the others); every further hit is only counted."""
    seen = rep.__dict__.setdefault("_c06_seen", set())
    rep.count("violations:" + sig)
    if sig in seen:
        return False
    seen.add(sig)
    return rep.violation(sig, what, replay)


def e2e_oracle(rep, replay, minus, plus, mx, rc, out, err, sig, fam):
    """The C06 statement on what the real binary displays for one subhunk (`minus` then `plus`), decoded with
    the palette `BG`. `sig`: prefix of violation signatures (names the input class), `fam`: key of the case
    counters. Returns (decoded rows of removed lines, of added lines) or None when rows could not be decoded."""
    M, ME, MN = BG["minus"], BG["minus_emph"], BG["minus_non_emph"]
    P, PE, PN, WE = BG["plus"], BG["plus_emph"], BG["plus_non_emph"], BG["ws_error"]
    if True:
        if rc != 0:
            viol(rep, f"{sig}:exit-status", f"delta exited with {rc}",
                          dict(replay, stderr=err.decode("utf-8", "replace")[-300:]))
            return None
        rows = [decode_row(r) for r in out.decode("utf-8", "replace").split("\n")]
        mrows = [r for r in rows if any(bg in (M, ME, MN) for bg, _ in r)]
        prows = [r for r in rows if any(bg in (P, PE, PN, WE) for bg, _ in r)]

        def vis(r, cols):
            return "".join(ch for bg, ch in r if bg in cols)
        decoded = [vis(r, (M, ME, MN)) for r in mrows] == minus and [vis(r, (P, PE, PN, WE)) for r in prows] == plus
        emph_seen = any(bg in (ME, PE) for r in rows for bg, _ in r)
        rep.case(key=(fam, mx, tuple(minus), tuple(plus), repr(replay.get("plan"))), nontrivial=emph_seen,
                 sample=dict(replay, rows=len(rows)) if emph_seen else None)
        rep.count(fam + ":" + ("rows-decoded" if decoded else "rows-not-decoded"))
        if not decoded:
            return None
        # a line has a partner iff delta used the non-emph or emph style on it
        mp = [(k, r) for k, r in enumerate(mrows) if any(bg in (ME, MN) for bg, _ in r)]
        pp = [(k, r) for k, r in enumerate(prows) if any(bg in (PE, PN) for bg, _ in r)]
        # a plus line made of whitespace-error cells only cannot be classified: skip such cases
        if any(all(bg == WE for bg, _ in r if bg is not None) for r in prows):
            rep.count(fam + ":ws-error-only-line")
            return None
        for _, r in mp:
            if any(bg == M for bg, _ in r):
                viol(rep, f"{sig}:mixed-styles", "a removed line mixes the unpaired style with emph/non-emph", replay)
        for _, r in pp:
            if any(bg == P for bg, _ in r):
                viol(rep, f"{sig}:mixed-styles", "an added line mixes the unpaired style with emph/non-emph", replay)
        if len(mp) != len(pp):
            viol(rep, f"{sig}:pair-count", "different numbers of paired removed and added lines are displayed", replay)
            return None
        rep.count(fam + ":pairs=%d" % min(len(mp), 3))
        for (ka, a), (kb, b) in zip(mp, pp):
            keep_a = vis(a, (MN,))
            keep_b = vis(b, (PN,))
            # whitespace-error cells are trailing whitespace (emphasised or not): compare modulo trailing blanks
            if rtrim_ws(keep_a) != rtrim_ws(keep_b):
                if not any(bg == ME for bg, _ in a) and not any(bg == PE for bg, _ in b):
                    viol(rep, f"{sig}:paired-differing-lines-not-emphasised",
                                  "two paired lines differ but neither shows any emphasis (what is displayed as "
                                  "unchanged is not common to both lines)", replay)
                else:
                    viol(rep, f"{sig}:unsound-emphasis",
                                  "displayed non-emphasised text differs between the two lines of a pair", replay)
            if minus[ka] == plus[kb] and (any(bg == ME for bg, _ in a) or any(bg == PE for bg, _ in b)):
                viol(rep, f"{sig}:identical-lines-emphasised", "identical paired lines show emphasis", replay)
        if float(mx) >= 1.0:
            want = list(range(min(len(minus), len(plus))))
            if [k for k, _ in mp] != want or [k for k, _ in pp] != want:
                viol(rep, f"{sig}:distance-one-not-positional",
                              "with max-line-distance >= 1 the displayed pairs are not (i, i)", replay)
        return mrows, prows


# --------------------------------------------------------------------------- end to end: subhunk formation

def hunk_job(rng, k):
    """One hunk given as [(kind, text)], kind in '-', '+', ' ': families with '+' directly followed by '-'
    (similar texts), alternating '+ - + -', the same around context lines, and random sequences."""
    base = e2e_line(rng)

    def near(s):
        toks = re.findall(r"\w+|\W", s)
        for _ in range(8):
            t = re.sub(r"[\r\n\t​́]", "", "".join(mutate_tokens(rng, toks)))
            if t.strip() and t[0] not in "-+\\" and t != s:
                return t
        return s + " x"
    fam = k % 6
    if fam == 0:      # context, '+', '-' (similar), context
        seq = [(" ", e2e_line(rng)), ("+", base), ("-", near(base)), (" ", e2e_line(rng))]
        if rng.random() < 0.5:
            seq = seq[1:]          # directly after the hunk header
    elif fam == 1:    # alternating + - + -
        seq = []
        for _ in range(rng.randint(2, 4)):
            seq += [("+", near(base)), ("-", near(base))]
    elif fam == 2:    # alternating - + - +
        seq = []
        for _ in range(rng.randint(2, 4)):
            seq += [("-", near(base)), ("+", near(base))]
    elif fam == 3:    # '+' run, then '-' run, then '+' run
        seq = [("+", near(base)) for _ in range(rng.randint(1, 3))] + \
              [("-", near(base)) for _ in range(rng.randint(1, 3))] + \
              [("+", near(base)) for _ in range(rng.randint(0, 3))]
    elif fam == 4:    # context lines between similar lines
        seq = [("-", base), (" ", e2e_line(rng)), ("+", near(base)), ("-", near(base)), (" ", e2e_line(rng)), ("+", near(base))]
    else:
        seq = [(rng.choice("-+ -+"), near(base) if rng.random() < 0.8 else e2e_line(rng)) for _ in range(rng.randint(1, 9))]
    mx = rng.choice(["0.6", "1.0", "0.3", "0.6"])
    buf = rng.choice([32, 32, 32, 1, 2])
    return seq, mx, buf


def hunk_diff(seq):
    a = sum(1 for k, _ in seq if k in "- ")
    b = sum(1 for k, _ in seq if k in "+ ")
    return "diff --git a/f b/f\n--- a/f\n+++ b/f\n@@ -1,%d +1,%d @@\n" % (a, b) + "".join(k + t + "\n" for k, t in seq)


def end_to_end_hunks(ctx, rep, jobs=None):
    """Subhunk formation on the real binary: which lines get paired and in which order rows appear,
    against (1) the model's blocks (`edits.subhunks`) + the hooked `infer_edits` per block, and
    (2) the statement itself: a pair is a removed line followed, within one run of changed lines and
    with no added->removed boundary between them, by an added line; rows appear in input order."""
    rng = ctx.rng
    if jobs is None:
        jobs = [hunk_job(rng, k) for k in range(ctx.n(180, 6000))]
    M, ME, MN = BG["minus"], BG["minus_emph"], BG["minus_non_emph"]
    P, PE, PN, WE, Z = BG["plus"], BG["plus_emph"], BG["plus_non_emph"], BG["ws_error"], BG["zero"]

    def one(job):
        seq, mx, buf = job
        return ctx.run_delta(E2E_ARGS + ["--max-line-distance", mx, "--line-buffer-size", str(buf)],
                             hunk_diff(seq).encode())
    outs = parallel_map(one, jobs)
    # model prediction: blocks, then the hooked infer_edits per block
    mdl = ctx.model("drv_edits") if ctx.drivers_ok else None
    kindch = {"-": "m", "+": "p", " ": "z"}
    blocks_ans = mdl.ask([f"edits.subhunks {buf} " + "".join(kindch[k] for k, _ in seq) for seq, mx, buf in jobs]) if mdl else []
    infer_reqs = []
    parsed_blocks = []
    for (seq, mx, buf), ans in zip(jobs, blocks_ans):
        blocks = []
        if ans.startswith("ok"):
            body = ans[3:]
            for blk in (body.split(";") if body else []):
                ms, _, ps = blk.partition(":")
                blocks.append(([int(x) for x in ms.split(",") if x], [int(x) for x in ps.split(",") if x]))
        parsed_blocks.append(blocks)
        for ms, ps in blocks:
            parts = [f"edits.infer {hx(chr(92) + 'w+')} {mx} 0.0 {D} {I}", str(len(ms))]
            for i in ms:
                parts += [hx(seq[i][1] + "\n"), str(ND), "L;"]
            parts.append(str(len(ps)))
            for i in ps:
                parts += [hx(seq[i][1] + "\n"), str(NI), "L;"]
            infer_reqs.append(" ".join(parts))
    infer_ans = ask_parallel(ctx.hook, infer_reqs)
    it = iter(infer_ans)
    for (seq, mx, buf), (rc, out, err), blocks in zip(jobs, outs, parsed_blocks if mdl else [None] * len(jobs)):
        replay = dict(op="e2e-hunk", seq=[[k, t] for k, t in seq], max=mx, buf=buf)
        if rc != 0:
            viol(rep, "e2e:exit-status", f"delta exited with {rc}",
                          dict(replay, stderr=err.decode("utf-8", "replace")[-300:]))
            if blocks:
                for _ in blocks:
                    next(it)
            continue
        rows = []
        for r in (decode_row(x) for x in out.decode("utf-8", "replace").split("\n")):
            bgs = {bg for bg, _ in r if bg is not None}
            if bgs & {M, ME, MN}:
                rows.append(("-", "".join(ch for bg, ch in r if bg in (M, ME, MN)), bool(bgs & {ME, MN}), r))
            elif bgs & {P, PE, PN, WE}:
                rows.append(("+", "".join(ch for bg, ch in r if bg in (P, PE, PN, WE)), bool(bgs & {PE, PN}), r))
            elif Z in bgs:
                rows.append((" ", "".join(ch for bg, ch in r if bg == Z), False, r))
        decoded = sorted((k, t) for k, t, _, _ in rows) == sorted(seq) and \
            not any(k == "+" and all(bg == WE for bg, _ in r if bg is not None) for k, _, _, r in rows)
        npairs = sum(1 for k, _, pd, _ in rows if k == "-" and pd)
        plus_then_minus = any(a[0] == "+" and b[0] == "-" for a, b in zip(seq, seq[1:]))
        rep.case(key=("e2e-hunk", mx, buf, tuple(seq)), nontrivial=plus_then_minus and npairs > 0,
                 sample=dict(replay, pairs=npairs) if plus_then_minus and npairs else None)
        rep.count("e2e-hunk:" + ("decoded" if decoded else "not-decoded"))
        rep.count("e2e-hunk:plus-then-minus" if plus_then_minus else "e2e-hunk:ordinary")
        # --- correspondence with the model's blocks + hooked infer_edits
        if blocks is not None:
            units = [(i, [(" ", seq[i][1], False)]) for i, (k, _) in enumerate(seq) if k == " "]
            okpred = True
            for ms, ps in blocks:
                ans = next(it)
                if not ans.startswith("ok"):
                    okpred = False
                    continue
                al = parse_kv(ans)["A"]
                pm, pp = set(), set()
                for e in (al.split(",") if al else []):
                    a, b = e.split(":")
                    if a != "-" and b != "-":
                        pm.add(int(a)); pp.add(int(b))
                units.append((max(ms + ps), [("-", seq[i][1], k in pm) for k, i in enumerate(ms)] +
                              [("+", seq[i][1], k in pp) for k, i in enumerate(ps)]))
            if decoded and okpred:
                pred = [x for _, u in sorted(units, key=lambda t: t[0]) for x in u]
                got = [(k, t, pd) for k, t, pd, _ in rows]
                rep.corr_case("e2e.subhunks", pred == got, dict(case=replay, model=pred, impl=got))
        if not decoded:
            continue
        # --- the statement itself, on what is displayed
        pos, nxt = [], {"-": 0, "+": 0, " ": 0}
        where = {k: [i for i, (kk, _) in enumerate(seq) if kk == k] for k in "-+ "}
        for k, t, pd, r in rows:       # the j-th displayed row of a kind is the j-th input line of that kind
            pos.append(where[k][nxt[k]]); nxt[k] += 1
        if pos != sorted(pos):
            viol(rep, "e2e:rows-out-of-input-order", "hunk lines are not displayed in input order", replay)
        pm = [(p_, r) for p_, (k, t, pd, r) in zip(pos, rows) if k == "-" and pd]
        ppl = [(p_, r) for p_, (k, t, pd, r) in zip(pos, rows) if k == "+" and pd]
        if len(pm) != len(ppl):
            viol(rep, "e2e:pair-count", "different numbers of paired removed and added lines are displayed", replay)
            continue
        for (m_, ra), (p_, rb) in zip(pm, ppl):
            kinds = [k for k, _ in seq]
            between = kinds[min(m_, p_):max(m_, p_) + 1]
            if not (m_ < p_) or " " in between or any(a == "+" and b == "-" for a, b in zip(between, between[1:])):
                viol(rep, "e2e:pair-across-subhunk-boundary",
                              "a removed and an added line are paired although the added line comes first, or a context "
                              "line / an added->removed boundary lies between them", dict(replay, pair=[m_, p_]))
            ka = "".join(ch for bg, ch in ra if bg == MN)
            kb = "".join(ch for bg, ch in rb if bg == PN)
            if rtrim_ws(ka) != rtrim_ws(kb):
                viol(rep, "e2e:unsound-emphasis",
                              "displayed non-emphasised text differs between the two lines of a pair", replay)


# --------------------------------------------------------------------------- emphasis for every way a style is supplied
#
# `infer_edits` annotates sections with styles; whether a section is *displayed* emphasised is decided by
# Painter::update_diff_style_sections (sections whose style lacks `is_emph` are repainted non-emph on paired
# lines) and by where parse_styles() sets `is_emph` (src/parse_styles.rs). Both are in the Lean model
# (DeltaModel/EmphPaint.lean, tables regenerated into Generated/EmphPaint.lean); here the styles reach delta
# in every way the option machinery allows, and the C06 statement is evaluated on what is displayed.

ROLES = [("minus-style", BG["minus"]), ("minus-emph-style", BG["minus_emph"]), ("minus-non-emph-style", BG["minus_non_emph"]),
         ("plus-style", BG["plus"]), ("plus-emph-style", BG["plus_emph"]), ("plus-non-emph-style", BG["plus_non_emph"]),
         ("zero-style", BG["zero"]), ("whitespace-error-style", BG["ws_error"])]
EMPH_ROLES = ("minus-emph-style", "plus-emph-style")
# options that play no part in rendering a plain diff: they carry a style that a hunk style refers to
CARRIERS = ["inline-hint-style", "grep-file-style", "grep-line-number-style", "line-numbers-minus-style",
            "line-numbers-plus-style", "line-numbers-zero-style", "line-numbers-left-style", "line-numbers-right-style"]
SUPPLY_KINDS = ["direct", "ref-user", "ref-option", "ref-chain"]
SUPPLY_PLACES = ["cli", "main", "feature"]
SUPPLY_BASE_ARGS = ["--syntax-theme", "none", "--file-style", "omit", "--hunk-header-style", "omit", "--width", "variable",
                    "--true-color", "never", "--tabs", "0"]


def supply_plan(rng, k):
    """How each of the eight hunk styles reaches delta. Per role: [kind, place, carrier place]:
    kind `direct` (a style string), `ref-user` (a reference to a user-defined name of the [delta] section),
    `ref-option` (a reference to another delta option that holds the style), `ref-chain` (option -> option ->
    user-defined name); place = where the role's own option is written: command line, [delta] section of the
    --config file, or a custom feature's section. The two within-line styles cycle through all kinds x places
    (job number `k`), the others are drawn at random."""
    roles = {}
    combos = [(a, b) for a in SUPPLY_KINDS for b in SUPPLY_PLACES]
    for i, (name, _) in enumerate(ROLES):
        if name == "minus-emph-style":
            kind, place = combos[k % len(combos)]
        elif name == "plus-emph-style":
            kind, place = combos[(k // len(combos) + k * 5 + 7) % len(combos)] if k % 3 else ("direct", rng.choice(SUPPLY_PLACES))
        else:
            kind = rng.choice(["direct", "direct", "ref-user", "ref-option", "ref-chain"])
            place = rng.choice(SUPPLY_PLACES)
        roles[name] = [kind, place, rng.choice(SUPPLY_PLACES)]
    return dict(roles=roles, feature_on=rng.choice(["cli", "main"]))


def supply_class(plan):
    """Input class named in violation signatures: is a within-line style given as a reference?"""
    return "emph-by-reference" if any(plan["roles"][r][0] != "direct" for r in EMPH_ROLES) else "emph-direct"


def supply_materialise(plan):
    """(command-line args, text of the --config file, model `supplied`, model `git`) of a plan."""
    args, main, feat, sup, git = [], [], [], [], []

    def put(place, opt, val):
        if place == "cli":
            args.extend(["--" + opt, val])
        elif place == "main":
            main.append(f"    {opt} = {val}")
        else:
            feat.append(f"    {opt} = {val}")
    for i, (name, look) in enumerate(ROLES):
        kind, place, cplace = plan["roles"][name]
        style = f"normal {look}"
        if kind == "direct":
            put(place, name, style); sup.append(f"{name}=D{look}")
        elif kind == "ref-user":
            user = f"vx-{name[:-6]}-word-style"
            put(place, name, user); main.append(f"    {user} = {style}")
            sup.append(f"{name}=R{user}"); git.append(f"{user}={look}")
        elif kind == "ref-option":
            put(place, name, CARRIERS[i]); put(cplace, CARRIERS[i], style)
            sup += [f"{name}=R{CARRIERS[i]}", f"{CARRIERS[i]}=D{look}"]
        else:
            user = f"vc-{i}-style"
            put(place, name, CARRIERS[i]); put(cplace, CARRIERS[i], user); main.append(f"    {user} = {style}")
            sup += [f"{name}=R{CARRIERS[i]}", f"{CARRIERS[i]}=R{user}"]; git.append(f"{user}={look}")
    if feat:
        if plan["feature_on"] == "cli":
            args.extend(["--features", "vfeat"])
        else:
            main.append("    features = vfeat")
    text = "[delta]\n" + "\n".join(main) + "\n"
    if feat:
        text += '[delta "vfeat"]\n' + "\n".join(feat) + "\n"
    return args, text, ",".join(sup), (",".join(git) or "-")


def emph_model(ctx):
    """The model side of the `emph.*` ops: DeltaModel/EmphPaintProto.lean, interpreted (`lean --run`) until a
    lean_exe is registered for it."""
    import os
    from ..core import LEAN, LineProc, lake_build
    ok, _ = lake_build(["DeltaModel.EmphPaint", "DeltaModel.PairThresholds", "DeltaModel.Proto"])
    if not ok or not os.path.exists(os.path.join(LEAN, "DeltaModel", "EmphPaintProto.lean")):
        return None
    return LineProc(["lake", "env", "lean", "--run", "DeltaModel/EmphPaintProto.lean"], cwd=LEAN)


def parse_infer_lines(v):
    n, _, body = v.partition(";")
    return [parse_sections(x) for x in body.split("|")] if int(n) > 0 else []


def end_to_end_supply(ctx, rep, jobs=None):
    """Real binary; the hunk styles arrive directly or as references, from the command line, the [delta] section
    of a --config file or a custom feature. Direct oracle: the C06 statement on the decoded rows (`e2e_oracle`),
    and: the characters displayed emphasised are exactly those of the sections `infer_edits` annotated as changed
    (hooked `edits.infer` on the same lines), trailing whitespace aside. Correspondence `e2e.paint`: the
    displayed style of every character against the model (`emph.line`: parse_styles -> Config ->
    update_diff_style_sections) fed with that annotation."""
    import os
    from ..core import BUILD, sha
    rng = ctx.rng
    if jobs is None:
        jobs = []
        for k in range(ctx.n(144, 6000)):
            minus, plus, mx, _ = e2e_job(rng)
            jobs.append((minus, plus, mx, supply_plan(rng, k)))
    cdir = os.path.join(BUILD, "c06-supply", str(os.getpid()))     # per process: concurrent checks of other trees
    os.makedirs(cdir, exist_ok=True)
    mats = [supply_materialise(plan) for _, _, _, plan in jobs]

    def one(jm):
        (minus, plus, mx, plan), (args, text, _, _) = jm
        path = os.path.join(cdir, sha(text)[:16] + ".gitconfig")
        if not os.path.exists(path):
            with open(path + ".%d" % os.getpid(), "w") as f:
                f.write(text)
            os.replace(path + ".%d" % os.getpid(), path)
        body = "".join("-" + l + "\n" for l in minus) + "".join("+" + l + "\n" for l in plus)
        diff = "diff --git a/f b/f\n--- a/f\n+++ b/f\n@@ -1,%d +1,%d @@\n" % (len(minus), len(plus)) + body
        return ctx.run_delta(["--config", path] + SUPPLY_BASE_ARGS + ["--max-line-distance", mx] + args, diff.encode())
    outs = parallel_map(one, list(zip(jobs, mats)))
    for f in os.listdir(cdir):           # the config files are rebuilt from the plan by a replay
        try:
            os.remove(os.path.join(cdir, f))
        except OSError:
            pass
    try:
        os.rmdir(cdir)
    except OSError:
        pass
    # the implementation's own annotation of the same lines
    reqs = []
    for minus, plus, mx, plan in jobs:
        parts = [f"edits.infer {hx(chr(92) + 'w+')} {mx} 0.0 {D} {I}", str(len(minus))]
        for l in minus:
            parts += [hx(l + "\n"), str(ND), "L;"]
        parts.append(str(len(plus)))
        for l in plus:
            parts += [hx(l + "\n"), str(NI), "L;"]
        reqs.append(" ".join(parts))
    infer = ask_parallel(ctx.hook, reqs)
    mdl = emph_model(ctx) if ctx.drivers_ok else None
    M, ME, MN = BG["minus"], BG["minus_emph"], BG["minus_non_emph"]
    P, PE, PN, WE = BG["plus"], BG["plus_emph"], BG["plus_non_emph"], BG["ws_error"]
    pending = []      # (job index, side, line index, sections, homolog, decoded row)
    for k, ((minus, plus, mx, plan), (args, text, sup, git), (rc, out, err), ians) in enumerate(zip(jobs, mats, outs, infer)):
        cls = supply_class(plan)
        replay = dict(op="e2e-supply", minus=minus, plus=plus, max=mx, plan=plan, args=args, config=text)
        rep.count("e2e-supply:" + cls)
        for r in EMPH_ROLES:
            rep.count("e2e-supply:%s:%s@%s" % (r, plan["roles"][r][0], plan["roles"][r][1]))
        got = e2e_oracle(rep, replay, minus, plus, mx, rc, out, err, "e2e-supply:" + cls, "e2e-supply")
        if got is None or not ians.startswith("ok"):
            continue
        mrows, prows = got
        kv = parse_kv(ians)
        am, ap = parse_infer_lines(kv["M"]), parse_infer_lines(kv["P"])
        hm, hp = kv["H"].split(":")
        if len(am) != len(minus) or len(ap) != len(plus):
            continue
        for side, secs_l, rows, hs, emph_tag, cols, ecol in (("Minus", am, mrows, hm, D, (M, ME, MN), ME),
                                                             ("Plus", ap, prows, hp, I, (P, PE, PN, WE), PE)):
            for li, (secs, row, h) in enumerate(zip(secs_l, rows, hs)):
                cells = [(bg, ch) for bg, ch in row if bg in cols]
                # annotated ranges: characters of the sections tagged as changed, the line's trailing whitespace aside
                text_l = "".join(t for _, t in secs)
                body_len = len(rtrim_ws(text_l))
                want, pos = [], 0
                for tag, t in secs:
                    for ch in t:
                        if pos < body_len:
                            want.append(tag == emph_tag)
                        pos += 1
                shown = [bg == ecol for bg, _ in cells][:body_len]
                if h == "1" and shown != want:
                    missing = sum(1 for a, b in zip(want, shown) if a and not b)
                    viol(rep, f"e2e-supply:{cls}:" + ("annotated-change-not-emphasised" if missing else "emphasis-outside-annotated-change"),
                                  "on a paired line the characters displayed with the within-line style are not exactly those "
                                  "of the sections infer_edits annotated as changed",
                                  dict(replay, side=side, line=li, annotated="".join("^" if w else "." for w in want),
                                       displayed="".join("^" if w else "." for w in shown)))
                if h == "0" and any(shown):
                    viol(rep, f"e2e-supply:{cls}:unpaired-line-emphasised", "a line without partner shows emphasis",
                                  dict(replay, side=side, line=li))
                pending.append((k, side, li, secs, h, cells, sup, git, emph_tag, replay))
    if mdl is not None and pending:
        mreq = []
        for k, side, li, secs, h, cells, sup, git, emph_tag, replay in pending:
            ss = ",".join(("E" if tag == emph_tag else "N") + ("1" if trim_ws(t) == "" else "0") for tag, t in secs) or "-"
            mreq.append(f"emph.line {side} {sup} {git} {h} {ss}")
        mans = mdl.ask(mreq, timeout=600)
        for (k, side, li, secs, h, cells, sup, git, emph_tag, replay), req, ans in zip(pending, mreq, mans):
            pred = None
            if ans.startswith("ok"):
                looks = [int(x.split(":")[0]) for x in ans[3:].split(",")] if len(ans) > 3 else []
                if len(looks) == len(secs):
                    pred = [(lk, ch) for lk, (_, t) in zip(looks, secs) for ch in t]
                    while pred and pred[-1][1] == "\n":
                        pred.pop()
            rep.corr_case("e2e.paint", pred == cells,
                          dict(case=dict(replay, side=side, line=li), request=req, model=ans,
                               impl="".join("%s:%s " % (bg, ch) for bg, ch in cells)))


def emph_flags_hook(ctx, rep, plans=None):
    """Correspondence `emph.parse_styles` (hooked `style.config_style` against the model's `parse_styles`): the
    hunk styles are given on the command line directly, as references to other options (carriers, other hunk
    styles, chains of them) or left at their defaults; compared per style: what it looks like (background) and
    the `is_emph` flag. Direct oracle on the flag: the two within-line styles carry it, no other hunk style does."""
    rng = ctx.rng
    names = [n for n, _ in ROLES]
    if plans is None:
        plans = []
        for k in range(ctx.n(120, 3000)):
            vals = {}
            for i, (name, look) in enumerate(ROLES):
                r = rng.random()
                if name in EMPH_ROLES:
                    r = (k % 5) / 5.0 + 0.01 if name == "minus-emph-style" else ((k // 5) % 5) / 5.0 + 0.01
                if r < 0.2:
                    vals[name] = ["D", look]
                elif r < 0.4:
                    vals[name] = ["R", CARRIERS[i]]; vals[CARRIERS[i]] = ["D", look]
                elif r < 0.6:      # chain of two options
                    j = (i + 1) % len(CARRIERS)
                    vals[name] = ["R", CARRIERS[i]]; vals[CARRIERS[i]] = ["R", "blame-code-style"]
                    vals["blame-code-style"] = ["D", look + 100]
                elif r < 0.8:      # another hunk style (direct there)
                    other = rng.choice([n for n in names if n != name])
                    vals[name] = ["R", other]
                else:
                    if name.endswith("non-emph-style"):
                        vals[name] = ["default"]
                    else:
                        vals[name] = ["D", look]
            # references to hunk styles must end in a directly given style (no cycles, no chains through defaults)
            for name in names:
                v = vals[name]
                if v[0] == "R" and v[1] in names and vals[v[1]][0] != "D":
                    vals[v[1]] = ["D", dict(ROLES)[v[1]]]
            plans.append(vals)
    hook_reqs, sticky, idx = [], [], []
    for vals in plans:
        cfg = []
        for opt, v in vals.items():
            if v[0] == "D":
                cfg += ["--" + opt, f"normal {v[1]}"]
            elif v[0] == "R":
                cfg += ["--" + opt, v[1]]
        sticky.append(len(hook_reqs))
        hook_reqs.append("cfg " + " ".join(hx(a) for a in cfg))
        idx.append(len(hook_reqs))
        hook_reqs += [f"style.config_style {n}" for n in names]
    hans = ctx.hook().ask(hook_reqs, sticky=sticky)
    mdl = emph_model(ctx) if ctx.drivers_ok else None
    mreq = []
    for vals in plans:
        sup = []
        for opt, v in vals.items():
            if v[0] == "D":
                sup.append(f"{opt}=D{v[1]}")
            elif v[0] == "R":
                sup.append(f"{opt}=R{v[1]}")
            else:       # default of the non-emph styles: a reference to the side's plain style
                sup.append(f"{opt}=R{opt.replace('-non-emph', '')}")
        mreq.append("emph.parse " + ",".join(sup) + " -")
    mans = mdl.ask(mreq, timeout=600) if mdl is not None else [None] * len(plans)
    for vals, i0, ma, mr in zip(plans, idx, mans, mreq):
        impl = {}
        for n, a in zip(names, hans[i0:i0 + len(names)]):
            f = a.split(" ")
            if f[0] == "ok" and len(f) >= 4:
                bg = f[1].split(":")[1]
                # `b<n>`: one of the 8 named colours (numbers 0..7 parse to them), `f<n>`: 256-colour palette
                impl[n] = (int(bg[1:]) if bg[:1] in ("f", "b") and bg[1:].isdigit() else bg, f[2][0] == "1")
            else:
                impl[n] = ("?", a[:40])
        kinds = {n: ("ref" if vals[n][0] != "D" else "direct") for n in EMPH_ROLES}
        cls = "emph-" + "+".join(sorted(set(kinds.values())))
        replay = dict(op="emph-flags", plan=vals)
        rep.case(key=("emph-flags", repr(sorted(vals.items()))), nontrivial=cls != "emph-direct",
                 sample=dict(replay, impl={n: list(v) for n, v in impl.items()}) if cls != "emph-direct" else None)
        rep.count("emph-flags:" + cls)
        for n in names:
            flag = impl[n][1]
            how = "style-direct" if vals[n][0] == "D" else ("style-by-default" if vals[n][0] == "default" else "style-by-reference")
            if n in EMPH_ROLES and flag is False:
                viol(rep, f"emph-flags:{how}:within-line-style-without-flag",
                     f"{n} does not carry is_emph: paired lines cannot show emphasis with it", dict(replay, style=n))
            if n not in EMPH_ROLES and flag is True:
                viol(rep, f"emph-flags:{how}:flag-on-other-style",
                     f"{n} carries is_emph: it is never replaced by the non-emph style", dict(replay, style=n))
        if ma is not None:
            model = {}
            if ma.startswith("ok"):
                for e in ma[3:].split(","):
                    kk, _, v = e.partition("=")
                    lk, _, fl = v.partition(":")
                    model[kk] = (int(lk), fl == "1")
            rep.corr_case("emph.parse_styles", all(model.get(n) == impl[n] for n in names),
                          dict(case=replay, request=mr, model=ma, impl={n: list(v) for n, v in impl.items()}))


# --------------------------------------------------------------------------- end to end: the configured thresholds
#
# `infer_edits` gets its two thresholds from its only caller, `get_diff_style_sections` (src/paint.rs), which reads
# them from `Config`; `Config::from` computes them from `--max-line-distance` and from an environment variable.
# That path is in the Lean model (DeltaModel/PairThresholds.lean; the argument expressions of the call and the
# field expressions of `Config::from` are regenerated as expression trees into Generated/PairThresholds.lean).
# Here the option reaches the real binary in every way the option machinery allows, with thresholds 0, 1 and values
# just below / exactly at / just above the distance of the line pair, on lines from a few columns (distances near 1)
# to thousands of columns (distances near 0), and the C06 statement is evaluated on what is displayed.

NAIVE_VAR = "DELTA_EXPERIMENTAL_MAX_LINE_DISTANCE_FOR_NAIVELY_PAIRED_LINES"
THR_PLACES = ["cli", "cli-eq", "main", "feature", "git-c"]
THR_JOB_KEYS = ("minus", "plus", "thr", "place", "env", "cls", "sbs", "maxlen", "kind", "thr_kind")
THR_KINDS = ["zero", "at", "above", "zero", "below", "one", "fixed", "zero", "default", "tiny"]
ZEROS = ["0", "0.0", "0.00", "0e0", "00"]
ONES = ["1", "1.0", "1.00", "1e0", "2", "inf"]        # `inf`: an f64 like any other to clap; every pair is within it
NOSPACE = re.compile("[" + "".join(WS) + "]")


def thr_word(rng, lo, hi, wide=0.0):
    n = rng.randint(lo, hi)
    if rng.random() < wide:
        return "".join(rng.choice("日本語データ") for _ in range(max(1, n // 2)))
    return "".join(rng.choice("abcdefghklmnoprstuvw") for _ in range(n))


def thr_body(rng, cls):
    """The unchanged words of a line. `long`: 400 .. 2900 columns (the distance of a one-token change gets close
    to 0), `short`: 1 .. 8 columns (close to 1), `mid`: in between."""
    if cls == "long":
        target = rng.choice([rng.randint(400, 560), rng.randint(505, 1100), rng.randint(1000, 2900)])
        lo, hi = rng.choice([(3, 12), (8, 60), (40, 200)])
        words, width = [], 0
        while width < target:
            w = thr_word(rng, lo, hi, 0.05)
            words.append(w); width += len(w) + 1
        return words
    if cls == "short":
        return [thr_word(rng, 1, 3, 0.1) for _ in range(rng.randint(1, 2))]
    return [thr_word(rng, 1, 9, 0.1) for _ in range(rng.randint(3, 14))]


def thr_pair(rng, cls):
    """(removed line, added line, kind of difference)."""
    words = thr_body(rng, cls)
    seps = [rng.choice([" ", " ", " ", ", ", " = ", "(", ".", "  "]) for _ in words[1:]] + [""]
    kind = rng.choice(["token-append", "token-append", "token-insert", "token-replace", "token-delete", "ws-only",
                       "ws-only", "ws+token", "identical", "unrelated", "token-replace"])
    tok = rng.choice([";", "!", "x", "?", ",y", " z", "ok", "日", "0", "_"])

    def join(ws, ss):
        return "".join(w + s for w, s in zip(ws, ss))
    a = join(words, seps)
    w2, s2 = list(words), list(seps)
    if kind in ("token-append", "token-delete"):
        b = a + tok
    elif kind == "token-insert":
        i = rng.randrange(len(w2))
        b = join(w2[:i], s2[:i]) + tok.strip() + " " + join(w2[i:], s2[i:])
    elif kind == "token-replace":
        i = rng.randrange(len(w2))
        w2[i] = rng.choice([thr_word(rng, 1, 3), w2[i][:-1] + ("q" if w2[i][-1] != "q" else "z"), w2[i].upper()])
        b = join(w2, s2)
    elif kind in ("ws-only", "ws+token"):
        for _ in range(rng.randint(1, 3)):
            r = rng.random()
            if r < 0.4 and len(s2) > 1:
                i = rng.randrange(len(s2) - 1)
                s2[i] = s2[i].replace(" ", rng.choice(["  ", "   ", "    "])) if " " in s2[i] else s2[i] + " "
            elif r < 0.7:
                w2[0] = rng.choice(["  ", "    ", " "]) + w2[0].lstrip()
            else:
                s2[-1] = rng.choice([" ", "  "])
        b = join(w2, s2) + (tok.strip() if kind == "ws+token" else "")
    elif kind == "identical":
        b = a
    else:
        b = " ".join(thr_word(rng, 1, 9) for _ in range(rng.randint(1, 6)))
    if kind == "token-delete" or (kind in ("token-insert", "ws-only") and rng.random() < 0.3):
        a, b = b, a
    return a, b, kind


EXACT_DENOMS = [2, 4, 5, 8, 10, 16, 20, 25, 40, 50, 80, 100, 125, 200, 250, 400, 500, 625, 800, 1000, 1250, 2000, 2500]


def thr_exact_pair(rng, cls):
    """A pair whose distance is a short terminating decimal, so that a threshold can sit exactly on it: the added
    line is the removed line (W columns, ASCII) with `,y` appended: distance 2 / (2 + 2 W) = 1 / (W + 1)."""
    lo, hi = dict(long=(400, 2600), mid=(15, 399), short=(1, 14))[cls]
    width = rng.choice([d - 1 for d in EXACT_DENOMS if lo <= d - 1 <= hi])
    words, w = [], 0
    while w < width:
        n = min(rng.randint(1, 9) if cls != "long" else rng.randint(5, 80), width - w)
        if width - w - n == 1:          # no room for a separator and a further word
            n += 1
        words.append(thr_word(rng, n, n)); w += n + 1
    a = " ".join(words)
    return a, a + ",y", "token-append-exact"


def thr_lines(rng, k):
    """One subhunk: mostly one removed and one added line; also 2x2 (as many removed as added lines: the naive
    threshold applies), an unrelated added line first (a rejected candidate), 2x1."""
    cls = ["long", "mid", "short", "long"][k % 4]
    a, b, kind = thr_exact_pair(rng, cls) if THR_KINDS[k % len(THR_KINDS)] == "at" else thr_pair(rng, cls)
    shape = rng.choice(["1x1"] * 6 + ["2x2", "2x2", "1x2", "2x1"])
    minus, plus = [a], [b]
    if shape == "2x2":
        a2, b2, _ = thr_pair(rng, rng.choice([cls, "mid"]))
        minus.append(a2); plus.append(b2)
    elif shape == "1x2":
        plus.insert(0, " ".join(thr_word(rng, 2, 8) for _ in range(3)))
    elif shape == "2x1":
        minus.append(" ".join(thr_word(rng, 2, 8) for _ in range(3)))
    ok = all(l.strip() and l[0] not in "-+\\" for l in minus + plus)
    return (minus, plus, cls, kind) if ok else thr_lines(rng, k)


def dec_str(q):
    """Exact decimal spelling of a Fraction with a terminating expansion (no exponent), else None."""
    from fractions import Fraction
    d, k = q.denominator, 0
    while d % 10 == 0:
        d //= 10; k += 1
    while d % 2 == 0:
        d //= 2; k += 1
    while d % 5 == 0:
        d //= 5; k += 1
    if d != 1 or k > 30:
        return None
    n = q * 10 ** k
    sgn, n = ("-" if n < 0 else ""), abs(int(n))
    digits = str(n).rjust(k + 1, "0")
    return sgn + (digits[:-k] + "." + digits[-k:] if k else digits)


def thr_choose(rng, k, dq):
    """A threshold for a subhunk whose designed pair has distance `dq` (Fraction or None): (kind, spelling or None)."""
    from fractions import Fraction
    kind = THR_KINDS[k % len(THR_KINDS)]
    if kind in ("at", "above", "below") and dq is None:
        kind = "fixed"
    if kind == "zero":
        return kind, rng.choice(ZEROS)
    if kind == "one":
        return kind, rng.choice(ONES)
    if kind == "default":
        return kind, None
    if kind == "tiny":        # a few units in the 3rd .. 6th decimal place: whether a long line pairs depends on it
        return kind, rng.choice(["0.001", "0.0009", "0.0011", "0.002", "0.0005", "0.0001", "0.00001", "1e-3", "0.01"])
    if kind == "fixed":
        return kind, rng.choice(["0.6", "0.5", "0.3", "0.05", "0.9", "0.999", "0.25", "nan"])      # `nan`: no distance is within it
    if kind == "at":
        s = dec_str(dq)
        if s is not None and len(s) <= 17:
            return kind, s
        kind = rng.choice(["above", "below"])
    places = rng.choice([4, 6, 9]) if dq > Fraction(1, 1000) else rng.choice([6, 9, 12])
    unit = Fraction(1, 10 ** places)
    if kind == "above":
        q = (dq // unit + 1) * unit
    else:
        q = -((-dq) // unit) * unit - unit
        if q < 0:
            return "zero", "0"
    return kind, dec_str(q)


def thr_materialise(job, cdir):
    """(command-line arguments, environment) that bring the job's threshold to delta in the job's way."""
    import os
    from ..core import sha
    thr, place = job["thr"], job["place"]
    args, env, main, feat = list(E2E_ARGS), {}, [], []
    if job["env"] is not None:
        env[NAIVE_VAR] = job["env"]
    if thr is not None:
        if place == "cli":
            args += ["--max-line-distance", thr]
        elif place == "cli-eq":
            args += ["--max-line-distance=" + thr]
        elif place == "main":
            main.append("    max-line-distance = " + thr)
        elif place == "feature":
            feat.append("    max-line-distance = " + thr)
        elif place == "git-c":
            env["GIT_CONFIG_PARAMETERS"] = "'delta.max-line-distance=%s'" % thr
    if thr is not None and place in ("main", "feature", "git-c"):
        # `--config <file>` replaces every other git configuration (and still honours GIT_CONFIG_PARAMETERS);
        # `--no-gitconfig` would make delta ignore the file's options
        args.remove("--no-gitconfig")
        if feat:
            main.append("    features = vthr")
        text = "[delta]\n" + "".join(l + "\n" for l in main) + ('[delta "vthr"]\n' + "\n".join(feat) + "\n" if feat else "")
        path = os.path.join(cdir, sha(text)[:16] + ".gitconfig")
        if not os.path.exists(path):
            with open(path + ".%d" % os.getpid(), "w") as f:
                f.write(text)
            os.replace(path + ".%d" % os.getpid(), path)
        args = ["--config", path] + args
    if job["maxlen"] is not None:
        args += ["--max-line-length", str(job["maxlen"])]
    if job["sbs"]:
        w = max(len(l) for l in job["minus"] + job["plus"])
        args[args.index("--width") + 1] = str(2 * (2 * w + 8))      # wide characters take two columns
        args += ["--side-by-side", "--line-numbers-left-format", "", "--line-numbers-right-format", ""]
    return args, env


def f64_of(s):
    try:
        return float(s)
    except (TypeError, ValueError):
        return None


def greedy_pairs(minus, plus, dist, mxf, nvf):
    """The pairing rule of the statement: each removed line, in order, takes the first not yet used added line whose
    distance is within the maximum (within the naive threshold too when there are as many removed as added lines)."""
    want, pi = [], 0
    for i_, a in enumerate(minus):
        for j_ in range(pi, len(plus)):
            d_ = dist[(a, plus[j_])]
            if (len(minus) == len(plus) and d_ <= nvf) or d_ <= mxf:
                want.append((i_, j_)); pi = j_ + 1
                break
    return want


def sbs_pairs(out, minus, plus):
    """Side-by-side view: a removed and an added line are displayed as a pair iff they share a row. Returns the
    pairs [(i, j)] or None when the rows cannot be decoded (wrapped / truncated lines)."""
    M, ME, MN = BG["minus"], BG["minus_emph"], BG["minus_non_emph"]
    P, PE, PN, WE = BG["plus"], BG["plus_emph"], BG["plus_non_emph"], BG["ws_error"]
    mi = pi = 0
    pairs = []
    for row in out.decode("utf-8", "replace").split("\n"):
        cells = decode_row(row)
        left = "".join(ch for bg, ch in cells if bg in (M, ME, MN))
        right = "".join(ch for bg, ch in cells if bg in (P, PE, PN, WE))
        has_l = any(bg in (M, ME, MN) for bg, _ in cells)
        has_r = any(bg in (P, PE, PN, WE) for bg, _ in cells)
        if has_l:
            if mi >= len(minus) or left.rstrip(" ") != minus[mi].rstrip(" "):
                return None
        if has_r:
            if pi >= len(plus) or right.rstrip(" ") != plus[pi].rstrip(" "):
                return None
        if has_l and has_r:
            pairs.append((mi, pi))
        mi += has_l; pi += has_r
    return pairs if (mi, pi) == (len(minus), len(plus)) else None


def end_to_end_thresholds(ctx, rep, jobs=None):
    """Real binary. `--max-line-distance` is written on the command line (two spellings), in the [delta] section of a
    --config file, in a feature, or arrives as `git -c`; the environment variable of the naive threshold is unset,
    zero, unparseable or a number. Direct oracle (independent of the model; distances are the implementation's own
    `annotate` distances of the candidate pairs): (1) with the maximum 0 (and the naive threshold 0) every displayed
    pair differs in nothing but whitespace; (2) the displayed pairs are those of the greedy rule with the *configured*
    values; (3) everything `e2e_oracle` demands (sound emphasis, no emphasis without partner, positional pairs at 1).
    Correspondence `e2e.pairing`: displayed pairs against the model (`pair.thresholds`: the generated argument /
    field expressions interpreted on the option value, then `edits.infer` of `drv_edits` with those thresholds)."""
    import os
    from fractions import Fraction
    from ..core import BUILD
    import time
    rng = ctx.rng
    REGEX = "\\w+"
    fresh = jobs is None
    t0, timing = time.time(), rep.notes.setdefault("e2e-thr-seconds", {})

    def lap(name):
        nonlocal t0
        timing[name] = round(timing.get(name, 0) + time.time() - t0, 1); t0 = time.time()
    if fresh:
        drafts = [thr_lines(rng, k) for k in range(ctx.n(160, 4000))]
    else:
        drafts = [(j["minus"], j["plus"], j["cls"], j.get("kind", "?")) for j in jobs]
    # the implementation's own distance of every candidate pair
    preq, pidx = [], {}
    for minus, plus, _, _ in drafts:
        for a in minus:
            for b in plus:
                if (a, b) not in pidx:
                    pidx[(a, b)] = len(preq)
                    preq.append(f"edits.annotate {hx(REGEX)} {hx(a + chr(10))} {hx(b + chr(10))} {ND} {D} {NI} {I}")
    pans = ask_parallel(ctx.hook, preq, chunk=max(200, len(preq) // 4 + 1))
    dist = {}
    for key, i in pidx.items():
        a = pans[i]
        if a.startswith("ok"):
            dist[key] = struct.unpack(">d", bytes.fromhex(parse_kv(a)["D"]))[0]
    lap("hook-distances")
    if fresh:
        jobs = []
        for k, (minus, plus, cls, kind) in enumerate(drafts):
            d0 = dist.get((minus[0], plus[-1] if len(plus) > len(minus) else plus[0]))
            dq = Fraction(d0).limit_denominator(40000) if d0 is not None else None
            if dq is not None and float(dq) != d0:
                dq = None
            tk, thr = thr_choose(rng, k, dq)
            place = THR_PLACES[(k // len(THR_KINDS) + k) % len(THR_PLACES)]
            env = rng.choice([None] * 6 + ["0", "0.0", "abc", "", "0.3", "1", "0.001"])
            longest = max(len(l.encode()) for l in minus + plus)
            maxlen = rng.choice([None, None, 0, longest + 1 + rng.randint(0, 50)])
            if longest + 1 > 3000:
                maxlen = 0
            jobs.append(dict(minus=minus, plus=plus, thr=thr, place=place, env=env, cls=cls, kind=kind, thr_kind=tk,
                             sbs=(k % 7 == 3 and longest < 1500), maxlen=maxlen))
    cdir = os.path.join(BUILD, "c06-thr", str(os.getpid()))
    os.makedirs(cdir, exist_ok=True)
    mats = [thr_materialise(j, cdir) for j in jobs]

    def one(jm):
        j, (args, env) = jm
        body = "".join("-" + l + "\n" for l in j["minus"]) + "".join("+" + l + "\n" for l in j["plus"])
        diff = "diff --git a/f b/f\n--- a/f\n+++ b/f\n@@ -1,%d +1,%d @@\n" % (len(j["minus"]), len(j["plus"])) + body
        return ctx.run_delta(args, diff.encode(), env=env)
    outs = parallel_map(one, list(zip(jobs, mats)))
    lap("binary")
    for f in os.listdir(cdir):
        try:
            os.remove(os.path.join(cdir, f))
        except OSError:
            pass
    try:
        os.rmdir(cdir)
    except OSError:
        pass
    M, ME, MN = BG["minus"], BG["minus_emph"], BG["minus_non_emph"]
    P, PE, PN = BG["plus"], BG["plus_emph"], BG["plus_non_emph"]
    shown = []          # per job: displayed pairs or None
    for j, (args, env), (rc, out, err) in zip(jobs, mats, outs):
        minus, plus, cls = j["minus"], j["plus"], j["cls"] + "-lines"
        replay = dict(op="e2e-thr", args=args, environment=env, **{k: j.get(k) for k in THR_JOB_KEYS})
        mxs = "0.6" if j["thr"] is None else j["thr"]
        mxf = f64_of(mxs)
        nvf = f64_of(j["env"]) if j["env"] is not None else 0.0
        nvf = 0.0 if nvf is None else nvf
        rep.count("e2e-thr:threshold-" + j.get("thr_kind", "?"))
        rep.count("e2e-thr:place-" + (j["place"] if j["thr"] is not None else "not-given"))
        rep.count("e2e-thr:" + cls)
        rep.count("e2e-thr:env-" + ("unset" if j["env"] is None else ("zero" if nvf == 0.0 else "positive")))
        if j["sbs"]:
            rep.count("e2e-thr:side-by-side")
            if rc != 0:
                viol(rep, "e2e:side-by-side:exit-status", f"delta exited with {rc}", dict(replay, stderr=err.decode("utf-8", "replace")[-300:]))
                shown.append(None); continue
            pairs = sbs_pairs(out, minus, plus)
            rep.case(key=("e2e-thr", j["thr"], j["place"], j["env"], True, tuple(minus), tuple(plus)), nontrivial=bool(pairs),
                     sample=dict(replay, pairs=pairs) if pairs else None)
            rep.count("e2e-thr:sbs-" + ("rows-decoded" if pairs is not None else "rows-not-decoded"))
            if pairs is not None:
                # the styles must tell the same story as the rows
                rows = [decode_row(r) for r in out.decode("utf-8", "replace").split("\n")]
                ms = [any(bg in (ME, MN) for bg, _ in r) for r in rows if any(bg in (M, ME, MN) for bg, _ in r)]
                if [i for i, f in enumerate(ms) if f] != [i for i, _ in pairs]:
                    viol(rep, "e2e:side-by-side:shared-row-and-pair-styles-disagree",
                         "the removed lines that share a row with an added line are not those painted as paired", replay)
        else:
            got = e2e_oracle(rep, replay, minus, plus, mxs, rc, out, err, "e2e", "e2e-thr")
            pairs = None
            if got is not None:
                mrows, prows = got
                mp = [k for k, r in enumerate(mrows) if any(bg in (ME, MN) for bg, _ in r)]
                pp = [k for k, r in enumerate(prows) if any(bg in (PE, PN) for bg, _ in r)]
                pairs = list(zip(mp, pp)) if len(mp) == len(pp) else None
        shown.append(pairs)
        if pairs is None or mxf is None:
            continue
        where = ":side-by-side" if j["sbs"] else ""
        # (1) the maximum set to 0: only lines that differ in nothing but whitespace are paired
        if mxf == 0.0 and (nvf == 0.0 or len(minus) != len(plus)):
            for a, b in pairs:
                if NOSPACE.sub("", minus[a]) != NOSPACE.sub("", plus[b]):
                    viol(rep, f"e2e:distance-zero-pairs-nonblank-difference:{cls}{where}",
                         "with max-line-distance 0 two lines are displayed as a pair although they differ in more than whitespace",
                         dict(replay, pair=[a, b], distance=dist.get((minus[a], plus[b]))))
        # (2) the displayed pairs are those of the greedy rule with the configured values
        if all((a, b) in dist for a in minus for b in plus):
            want = greedy_pairs(minus, plus, dist, mxf, nvf)
            rep.count("e2e-thr:expected-pairs=%d" % min(len(want), 3))
            if want != pairs:
                extra = [q for q in pairs if q not in want][:1]
                missed = [q for q in want if q not in pairs][:1]
                q = (extra or missed)[0]
                viol(rep, ("e2e:pairing-beyond-configured-distance:" if extra else "e2e:pairing-ignores-configured-distance:") + cls + where,
                     ("two lines are displayed as a pair although their distance exceeds the configured maximum" if extra else
                      "two lines whose distance is within the configured maximum, and which the greedy order reaches, are not displayed as a pair"),
                     dict(replay, pair=list(q), distance=dist.get((minus[q[0]], plus[q[1]])), configured=mxs,
                          naive=j["env"], expected_pairs=want, displayed_pairs=pairs))
    # --- correspondence with the model: option value -> Config -> arguments of infer_edits -> pairing
    mdl = emph_model(ctx) if ctx.drivers_ok else None
    if mdl is None:
        return

    def frac(sv):
        try:
            q = Fraction(sv)
        except (ValueError, ZeroDivisionError):
            return None
        return q
    todo, treq, long_budget = [], [], ctx.n(8, 200)
    lap("oracle")
    for k, (j, pairs) in enumerate(zip(jobs, shown)):
        if pairs is None:
            continue
        oq = "default" if j["thr"] is None else frac(j["thr"])
        if j["env"] is None:
            eq = "-"
        else:
            eq = frac(j["env"]) if f64_of(j["env"]) is not None else "x"
        if oq is None or eq is None:
            continue
        # the domain conditions of a line cost the hook O(columns^3), the model's table O(tokens^2) per candidate pair
        ntok = max(len(re.findall(r"\w+", l)) for l in j["minus"] + j["plus"])
        cols = max(len(l) for l in j["minus"] + j["plus"])
        if cols > 400:
            long_budget -= 1
        if ntok > 70 or cols > 640 or (cols > 400 and long_budget < 0):
            rep.count("e2e-thr:model-skipped-size")
            continue
        fq = lambda q: q if isinstance(q, str) else "%d/%d" % (q.numerator, q.denominator)
        todo.append(k); treq.append(f"pair.thresholds {fq(oq)} {fq(eq)}")
    tans = mdl.ask(treq, timeout=600) if treq else []
    lap("model-thresholds")
    dom = Domain(ctx)
    need = [(REGEX, l + "\n") for k in todo for l in jobs[k]["minus"] + jobs[k]["plus"]]
    need.sort(key=lambda p: len(p[1]) % 7)        # spread the long lines over the workers
    dom.fetch(need, chunk=max(8, len(set(need)) // 4 + 1))
    lap("hook-domain")
    ireq, iidx = [], []
    for k, ta in zip(todo, tans):
        j = jobs[k]
        f = ta.split(" ")
        if f[0] != "ok" or len(f) != 3:
            rep.count("e2e-thr:model-not-evaluable")
            continue
        mx, nv = dec_str(Fraction(f[1])), dec_str(Fraction(f[2]))
        lines = [l + "\n" for l in j["minus"] + j["plus"]]
        if mx is None or nv is None or mx.startswith("-") or nv.startswith("-") or not all(dom.ok(REGEX, l) for l in lines):
            rep.count("e2e-thr:model-skipped-domain")
            continue
        parts = [f"edits.infer {hx(REGEX)} {mx} {nv} {D} {I}", str(len(j["minus"]))]
        for l in j["minus"]:
            parts += [hx(l + "\n"), str(ND), dom.field(REGEX, l + "\n")]
        parts.append(str(len(j["plus"])))
        for l in j["plus"]:
            parts += [hx(l + "\n"), str(NI), dom.field(REGEX, l + "\n")]
        ireq.append(" ".join(parts)); iidx.append((k, ta))
    ians = ask_parallel(lambda: ctx.model("drv_edits"), ireq, chunk=max(50, len(ireq) // 4 + 1))
    for (k, ta), req, ans in zip(iidx, ireq, ians):
        j = jobs[k]
        pred = None
        if ans.startswith("ok"):
            al = parse_kv(ans)["A"]
            pred = []
            for e in (al.split(",") if al else []):
                a, b = e.split(":")
                if a != "-" and b != "-":
                    pred.append((int(a), int(b)))
        rep.corr_case("e2e.pairing", pred == shown[k],
                      dict(case=dict(op="e2e-thr", **{kk: j.get(kk) for kk in THR_JOB_KEYS}), thresholds=ta,
                           model=pred, impl=shown[k]))
    lap("model-infer")
