"""C10 — file sections render independently of their neighbours; output is deterministic."""
from .. import machine as M
from ..core import parallel_map

DRIVERS = ["drv_machine"]
GENERATED = ["Handlers", "Markers", "HeaderWrite"]

ENDINGS = [None, "-", "+", " "]


def section(rng, kind, ending, p_commit=0.3):
    f = M.gen_file(rng, kind=kind, ending=ending)
    # `git log -p`: a section may be the first of a commit (the commit lines then close the previous section)
    pre = M.gen_commit(rng) if rng.random() < p_commit else []
    return pre + f["lines"]


# element styles whose `raw` / `omit` value changes which handler claims a line and whether a header is written at all
ELEMS = [("file", "fileRaw", "fileOmit", "fileDeco"), ("hunk-header", "hhRaw", "hhOmit", "hhDeco"),
         ("commit", "commitRaw", "commitOmit", "commitDeco")]
# sections that leave per-file state which is consumed (not reset) later: the mode information
MODE_KINDS = ["mode_changed", "mode_only", "binary_mode_changed"]


def style_family(ctx, rng):
    """raw / omit element styles x decorations for the file, hunk-header and commit styles, each over sequences of sections
    that start with a mode change (the state a header write must consume) - and over sequences that do not.
    Returns [(signature prefix, cfg, seq)]."""
    fam = []
    for elem, rawk, omitk, decok in ELEMS:
        for style in ("raw", "omit"):
            decos = list(range(len(M.DECOS))) if not ctx.quick() else [0] + rng.sample(range(1, len(M.DECOS)), 2)
            variants = [(False, d) for d in decos] + [(True, 0)]        # color-only mode has no decorations
            for co, deco in variants:
                for r in range(ctx.n(1 if co else 2, 8)):
                    cfg = M.gen_cfg(rng, color_only=co)
                    for _, rk, ok, _ in ELEMS:
                        cfg.d[rk] = cfg.d[ok] = 0
                    cfg.d[rawk if style == "raw" else omitk] = 1
                    if not co:
                        cfg.d[decok] = deco
                    first = MODE_KINDS[(r + deco) % len(MODE_KINDS)] if r % 4 != 3 else rng.choice(M.FILE_KINDS)
                    seq = [(first, rng.choice(ENDINGS))] + [(rng.choice(M.FILE_KINDS + MODE_KINDS), rng.choice(ENDINGS))
                                                           for _ in range(rng.randint(1, 2))]
                    fam.append((f"{elem}-style-{style}", cfg, seq, 0.6 if elem == "commit" else 0.2))
    return fam


# ---- mode information under an omitted file style (`--file-style omit`, not color-only) ------------------------------
# The header that would show the mode change is not written, but the mode information is stored all the same; it must
# go with its file. Until fix PENDING the early return of write_generic_diff_header_header_line left it in place for
# the rest of the run, and handle_pending_line_with_diff_name took its "mode change pending" branch at every later
# call: in input that delta reads as plain `diff -u` output (where that function also acts outside the file-header
# states) it marked the current file pair as announced although the state's style (raw, no decoration) said "not
# handled", and a later file-operation line (`new file mode …`) was shown instead of swallowed, or the reverse.
# Sections of plain `diff -u` input: the first carries mode lines; the later ones put file-operation lines, hunk headers,
# hunk lines, commit lines and submodule-log lines in every order. Every hunk is complete (the `--- ` counter is idle at
# the next section), nothing else of `SectionBoundary` is at stake: no header is ever shown.
OPS = ["new file mode 100644", "deleted file mode 100644", "new file mode 100755"]
HUNKS = [[], ["@@ -0,0 +1 @@"], ["@@ -0,0 +1 @@", "+y"], ["@@ -1 +1 @@", " x"], ["@@ -1 +1 @@", "-x", "+y"]]
CLOSERS = [["commit " + M.HASH], ["Submodule sub 1111111..2222222:"], []]
MODES = [("100644", "100755"), ("100755", "100644"), ("100644", "120000")]


def plain_mode_section(rng, k, with_names):
    """`diff -u` command line, then `old mode` / `new mode` lines (not something diff writes: any text may reach delta)"""
    a, b = MODES[k % len(MODES)]
    ls = [f"diff -u a{k} b{k}", "old mode " + a, "new mode " + b]
    return ls + ([f"--- a{k}", f"+++ b{k}"] + rng.choice(HUNKS[2:]) if with_names else [])


def plain_ops_section(k, pre, hunk, mid, closer, post):
    return [f"diff -u c{k} d{k}", f"--- c{k}", f"+++ d{k}"] + pre + hunk + mid + closer + post


def stale_mode_shapes(ctx, rng):
    """(pre, hunk, mid, closer, post): quick = the shapes around a commit / submodule-log line that is met right after
    a hunk header or after hunk lines, with a file-operation line before and after; thorough = all of them"""
    opt = [[]] + [[o] for o in OPS[:2]]
    shapes = [(pre, hunk, mid, closer, post) for pre in opt for hunk in HUNKS for mid in opt for closer in CLOSERS
              for post in ([], [OPS[0]], [OPS[1], OPS[0]])]
    if not ctx.quick():
        return shapes
    core = [sh for sh in shapes if sh[1] in (HUNKS[1], HUNKS[3]) and sh[3] and sh[4] == [OPS[0]] and (sh[0] == [] or sh[2] == [])]
    return core + rng.sample(shapes, 12)


def stale_mode_family(ctx, rng):
    """[(family, cfg, seq of kinds, sections)] - hook level (and model): file style omit x hunk-header style (raw without /
    with decoration, normal, omit) x commit style (normal, raw, omit)."""
    fam = []
    HH = [dict(hhRaw=1, hhDeco=0), dict(), dict(hhRaw=1, hhDeco=1), dict(hhOmit=1)]
    CM = [dict(), dict(commitRaw=1), dict(commitOmit=1), dict(commitDeco=1)]
    for n, shape in enumerate(stale_mode_shapes(ctx, rng)):
        # quick: the raw hunk-header style without decoration (the state in which `should_handle` says no) with a commit
        # style that handles, then the others in turn
        hh, cm = (HH[0], CM[0]) if n % 3 == 0 else (HH[(n // 3) % len(HH)], CM[(n // 5) % len(CM)])
        cfg = M.gen_cfg(rng, color_only=False)
        for k in ("fileRaw", "fileOmit", "hhRaw", "hhOmit", "hhDeco", "commitRaw", "commitOmit", "commitDeco"):
            cfg.d[k] = 0
        cfg.d["fileOmit"] = 1
        cfg.d["fileDeco"] = rng.choice([0, 0, 1, 3])
        cfg.d.update(hh); cfg.d.update(cm)
        secs = [plain_mode_section(rng, 0, with_names=(n % 4 == 1))]
        if n % 5 == 4:       # a section in between: the mode information has to cross more than one boundary
            secs.append(plain_ops_section(1, [], rng.choice(HUNKS[2:]), [], [], []))
        secs.append(plain_ops_section(2, *shape))
        seq = [("plain_mode", None)] + [("plain_ops", None)] * (len(secs) - 1)
        fam.append(("file-style-omit-stale-mode", cfg, seq, secs))
    return fam


def run(ctx, rep):
    rep.rule = ("ordered pairs / random sequences of complete git file sections of every kind (and a submodule log of "
                "diff.submodule=log after and before every kind), each ending in any line kind, "
                "under random unified-view configurations: delta(A++B) must equal delta(A)++delta(B), and repeated runs must be "
                "byte-identical; non-trivial = >= 2 sections of different kinds; distinct by (config, input). Style family: "
                "raw / omit x decorations (and color-only) for the file, hunk-header and commit styles, over sequences that start "
                "with a mode change (state that a header write consumes), hook level and real binary with delta's own decorations. "
                "Omitted file style: mode_changed / mode_only / binary_mode_changed followed by every other kind (hook level and "
                "binary), and sequences of plain `diff -u` sections whose first carries mode lines and whose later ones put "
                "file-operation lines, hunk headers, commit and submodule-log lines in every order, under raw / normal / "
                "omitted hunk-header and commit styles (the mode information must not outlive its file)")
    rng = ctx.rng
    seqs = []
    kinds = M.FILE_KINDS
    # all ordered pairs of kinds (quick: one ending each; thorough: all endings)
    for a in kinds:
        for b in kinds:
            for e in (ENDINGS if not ctx.quick() else [rng.choice(ENDINGS)]):
                seqs.append([(a, e), (b, rng.choice(ENDINGS))])
    # a submodule log (`git diff --submodule=log`) after / before every kind of section: the sections whose file header is
    # written late (mode-only change, empty added file, binary file) must get it before the log's header, as they do at the
    # end of the input (before the repair of handle_submodule_log_line delta(A ++ log) was not delta(A) ++ delta(log))
    for a in kinds + M.EXTRA_FILE_KINDS:
        seqs.append([(a, rng.choice(ENDINGS)), ("submodule_log", None)])
        seqs.append([("submodule_log", None), (a, rng.choice(ENDINGS))])
        if a in M.LATE_HEADER_KINDS:
            seqs.append([(rng.choice(kinds), rng.choice(ENDINGS)), (a, None), ("submodule_log", None), (rng.choice(kinds), rng.choice(ENDINGS))])
    for _ in range(ctx.n(60, 3000)):
        seqs.append([(rng.choice(kinds), rng.choice(ENDINGS)) for _ in range(rng.randint(2, 5))])
    cases, meta = [], []

    def items():     # the random choices are drawn in the order: configuration, then the sections of its sequence
        for seq in seqs:
            yield None, M.gen_cfg(rng, color_only=(rng.random() < 0.15)), seq, 0.3
        yield from style_family(ctx, rng)
        # omitted file style, not color-only: a section with a mode change followed by each of the other kinds
        for first in MODE_KINDS:
            for second in (["modified"] + (rng.sample([k for k in kinds if k != "modified"], 3) if ctx.quick() else
                                           [k for k in kinds if k != "modified"])):
                cfg = M.gen_cfg(rng, color_only=False)
                cfg.d["fileRaw"], cfg.d["fileOmit"] = 0, 1
                yield "file-style-omit-mode-first", cfg, [(first, rng.choice(ENDINGS)), (second, rng.choice(ENDINGS))], 0.2
        for fam, cfg, seq, secs in stale_mode_family(ctx, rng):
            yield fam, cfg, seq, secs
    for fam, cfg, seq, p_commit in items():
        secs = p_commit if isinstance(p_commit, list) else [section(rng, k, e, p_commit) for k, e in seq]
        seq = list(seq) + [fam]          # the family rides along as the last element of the meta record
        whole = [l for s in secs for l in s]
        cases.append((cfg, [l.encode() for l in whole]))
        meta.append(("whole", seq, secs, cfg))
        for s in secs:
            cases.append((cfg, [l.encode() for l in s]))
            meta.append(("part", seq, s, cfg))
    res = M.observe(ctx, cases)
    i = 0
    while i < len(cases):
        kind, seq, secs, cfg = meta[i]
        seq, fam = seq[:-1], seq[-1]
        impl, model = res[i]
        parts = []
        j = i + 1
        while j < len(cases) and meta[j][0] == "part":
            parts.append(res[j])
            j += 1
        whole = [l for s in secs for l in s]
        case = dict(args=cfg.args(), model_cfg=cfg.d, input="\n".join(whole), sections=[len(s) for s in secs], kinds=seq)
        rep.case(key=(cfg.key(), tuple(whole)), nontrivial=len({k for k, _ in seq}) > 1,
                 sample=dict(kinds=seq, n_lines=len(whole), args=" ".join(cfg.args()[:4]) + " …"))
        for k, _ in seq:
            rep.count("kind:" + k)
        if fam and fam.startswith("file-style-omit-"):
            rep.count("family:" + fam + ":" + "+".join(k for k, _ in seq[:2]) +
                      (":hh-raw-no-decoration" if cfg.d["hhRaw"] and not cfg.d["hhDeco"] and fam.endswith("stale-mode") else ""))
        elif fam:
            rep.count("family:" + fam + (":color-only" if cfg.d["colorOnly"] else ":deco-" + M.DECOS[cfg.d[
                {"file": "fileDeco", "hunk": "hhDeco", "commit": "commitDeco"}[fam.split("-")[0]]]].replace(" ", "")))
        if impl.panic or any(p[0].panic for p in parts):
            rep.violation("panic:" + impl.msg[:60], "implementation panicked: " + impl.msg[:200], case)
        elif impl.ok and all(p[0].ok for p in parts):
            cat = b"".join(p[0].out for p in parts)
            if impl.out != cat:
                rep.violation("concat:" + (fam + ":" if fam else "") + "+".join(k for k, _ in seq[:2]),
                              "delta(A++B) differs from delta(A)++delta(B)",
                              dict(case, whole=impl.out.decode("utf-8", "replace")[-600:], parts=cat.decode("utf-8", "replace")[-600:]))
            dis = M.compare(cfg, impl, model)
            rep.corr_case("machine.run", not dis, dict(case, disagreement=dis[:2]))
            if model is not None and model.ok and all(p[1] is not None and p[1].ok for p in parts):
                mcat = [r[:2] for p in parts for r in p[1].rows]
                rep.corr_case("model.concat", [r[:2] for r in model.rows] == mcat, dict(case, note="model rows of A++B vs A,B"))
        i = j
    # the real binary with delta's own styles and syntax highlighting on (the hook comparison above runs with the verification
    # palette and no theme): languages must not leak from one section into the next either
    LANG_PATHS = ["src/lib.rs", "tool.py", "notes.qqq", "Makefile", "notes", "x.c", "README.md", "data.json", "a.unknownext", "sh"]
    bjobs = []
    for _ in range(ctx.n(40, 800)):
        seq = [(rng.choice(["modified", "added", "deleted", "renamed_changed", "mode_changed", "mode_only", "binary"]), rng.choice(ENDINGS))
               for _ in range(rng.randint(2, 3))]
        secs = [M.gen_file(rng, kind=k, ending=e, paths=LANG_PATHS)["lines"] for k, e in seq]
        args = ["--no-gitconfig", "--true-color=always"] + rng.choice([[], ["--side-by-side"], ["--line-numbers"], ["--syntax-theme", "GitHub"],
                                                                          ["--hunk-header-style", "file line-number syntax"]])
        bjobs.append((args, seq, secs, None))
    # ... and with raw / omit element styles next to delta's own decorations (`--file-style raw` keeps the default
    # `blue ul` file decoration: the header lines are then handled, and written as received)
    STYLE_ARGS = [(f"{elem}-style-{st}", [f"--{elem}-style", st] + extra)
                  for elem in ("file", "hunk-header", "commit") for st in ("raw", "omit")
                  for extra in ([], [f"--{elem}-decoration-style", "box"], [f"--{elem}-decoration-style", "ul ol"],
                                [f"--{elem}-decoration-style", "none"])]
    for n in range(ctx.n(36, 1200)):
        fam, sargs = STYLE_ARGS[n % len(STYLE_ARGS)] if n < 2 * len(STYLE_ARGS) else rng.choice(STYLE_ARGS)
        # one pass over every style with a mode change first and nothing else switched on, then random ones
        sure = n < len(STYLE_ARGS)
        first = MODE_KINDS[(n // 4 + n) % len(MODE_KINDS)] if sure or rng.random() < 0.7 else rng.choice(M.FILE_KINDS)
        seq = [(first, rng.choice(ENDINGS))] + [(rng.choice(M.FILE_KINDS + MODE_KINDS), rng.choice(ENDINGS)) for _ in range(rng.randint(1, 2))]
        secs = [section(rng, k, e, 0.6 if fam.startswith("commit") else 0.2) for k, e in seq]
        args = ["--no-gitconfig", "--true-color=always"] + sargs + ([] if sure else rng.choice([[], ["--line-numbers"], ["--color-only"]]))
        bjobs.append((args, seq, secs, fam))

    # omitted file style with delta's own styles: mode change first, then every other kind; and the plain `diff -u`
    # sections above under the raw hunk-line / hunk-header styles in which `should_handle` says no
    for first in MODE_KINDS:
        for second in ["modified"] + rng.sample([k for k in M.FILE_KINDS if k != "modified"], ctx.n(2, 12)):
            seq = [(first, rng.choice(ENDINGS)), (second, rng.choice(ENDINGS))]
            secs = [section(rng, k, e, 0.2) for k, e in seq]
            bjobs.append((["--no-gitconfig", "--true-color=always", "--file-style", "omit"], seq, secs, "file-style-omit-mode-first"))
    RAW_STATES = [["--zero-style", "raw"], ["--hunk-header-style", "raw", "--hunk-header-decoration-style", "none"],
                  ["--zero-style", "raw", "--plus-style", "raw", "--minus-style", "raw"], []]
    shapes = stale_mode_shapes(ctx, rng)
    for n, shape in enumerate(shapes if not ctx.quick() else shapes[:24]):
        args = ["--no-gitconfig", "--true-color=always", "--file-style", "omit", "--commit-style", "normal"] + RAW_STATES[n % len(RAW_STATES)]
        secs = [plain_mode_section(rng, 0, with_names=(n % 4 == 1)), plain_ops_section(2, *shape)]
        bjobs.append((args, [("plain_mode", None), ("plain_ops", None)], secs, "file-style-omit-stale-mode"))

    def brun(j):
        args, seq, secs, _ = j
        enc = lambda ls: ("\n".join(ls) + "\n").encode("utf-8", "surrogateescape")
        return [ctx.run_delta(args, enc([l for s in secs for l in s]))] + [ctx.run_delta(args, enc(s)) for s in secs]
    for (args, seq, secs, fam), outs in zip(bjobs, parallel_map(brun, bjobs)):
        whole = [l for s in secs for l in s]
        case = dict(kind="binary-concat", args=args, input="\n".join(whole), sections=[len(s) for s in secs], kinds=seq)
        rep.case(key=("bin", tuple(args), tuple(whole)), nontrivial=True, sample=dict(level="binary", kinds=seq, args=args))
        rep.count("binary-concat" + (":" + fam if fam else ""))
        if any(o[0] != 0 for o in outs):
            rep.violation("exit-status", f"exit status {[o[0] for o in outs]}", case); continue
        if outs[0][1] != b"".join(o[1] for o in outs[1:]):
            rep.violation("concat-binary:" + (fam + ":" if fam else "") + "+".join(k for k, _ in seq[:2]),
                          "delta(A++B) differs from delta(A)++delta(B) with delta's own styles (syntax highlighting on)", case)
    # determinism: repeated runs of the real binary (fresh process => fresh hash seeds)
    det = []
    for _ in range(ctx.n(12, 200)):
        cfg = M.gen_cfg(rng)
        lines, _ = M.gen_git_diff(rng)
        det.append((cfg, "\n".join(lines).encode() + b"\n"))

    def rerun(c):
        cfg, data = c
        outs = [ctx.run_delta(cfg.args(), data) for _ in range(ctx.n(4, 16))]
        return outs
    for (cfg, data), outs in zip(det, parallel_map(rerun, det)):
        rep.case(key=("det", cfg.key(), data), nontrivial=True)
        rep.count("determinism-inputs")
        if any(o[0] != 0 for o in outs):
            rep.violation("exit-status", f"exit status {outs[0][0]}", dict(args=cfg.args(), input=data.decode()))
        elif len({o[1] for o in outs}) != 1:
            rep.violation("nondeterministic-output", "repeated runs gave different bytes", dict(args=cfg.args(), input=data.decode()))


def replay(ctx, rep, obj):
    c = obj["case"]
    if c.get("kind") == "binary-concat":
        lines = c["input"].split("\n")
        enc = lambda ls: ("\n".join(ls) + "\n").encode("utf-8", "surrogateescape")
        whole = ctx.run_delta(c["args"], enc(lines))[1]
        k, parts = 0, b""
        for n in c["sections"]:
            parts += ctx.run_delta(c["args"], enc(lines[k:k + n]))[1]; k += n
        print("equal" if whole == parts else "DIFFERENT")
        if whole != parts:
            rep.violation(obj.get("signature", "concat-binary"), "delta(A++B) differs from delta(A)++delta(B)", c)
        return
    cfg = M.VCfg(**c["model_cfg"])
    lines = c["input"].split("\n")
    cases = [(cfg, [l.encode() for l in lines])]
    k = 0
    for n in c.get("sections", []):
        cases.append((cfg, [l.encode() for l in lines[k:k + n]])); k += n
    res = M.observe(ctx, cases)
    whole = res[0][0].out
    cat = b"".join(r[0].out for r in res[1:])
    print("equal" if whole == cat else "DIFFERENT")
    if whole != cat:
        rep.violation(obj.get("signature", "concat"), "delta(A++B) differs from delta(A)++delta(B)", c)
