"""C09 — output lines are self-contained, well-formed terminal text.

Correspondence (hook `style.*` ops vs the Lean driver `drv_style`):
  style.paint_strings (ansi_term::ANSIStrings), style.right_fill
  (Painter::right_fill_background_color), style.mark_empty, style.link (format_osc8_hyperlink),
  style.truncate (ansi::truncate_str on a line given as items), style.pad_panel
  (pad_panel_line_to_width under a real Config), and style.term: the Lean abstract terminal against
  the independent Python decoder on the byte strings the implementation produced.
  machine.ingest under `--max-line-length N` (hook) vs `Line.ingestRaw` (= `style.cr_step`, then `style.truncate` of the
  whole CR-processed line when the guard holds) on escape-heavy lines many times longer in bytes than the limit.
Direct oracle: (a) on every hook output — decoded cells carry exactly the requested styles, the
  line ends in the default state; (b) many generated diffs / blame / grep inputs through the real
  binary in all modes: at every newline of stdout the independent decoder is in the default
  rendition, no hyperlink open, no partial or cut sequence.
"""
import os
import re

from ..core import hx, unhx, parallel_map
from .. import core as _core


def core_BUILD():
    return _core.BUILD
from .. import termmodel as T
from .. import ingest as ING
from . import c12

DRIVERS = ["drv_style"]
GENERATED = ["IngestSteps", "PaintLine", "BlameMeta"]      # the rest is found through the imports of Props.C09 / Driver.Style


_SIG_COUNT = {}


def _viol(rep, signature, what, replay):
    """rep.violation, at most 3 cases per signature (core keeps the first 50 violations overall:
    one noisy signature must not crowd out the others)."""
    _SIG_COUNT[signature] = _SIG_COUNT.get(signature, 0) + 1
    if _SIG_COUNT[signature] <= 3:
        return rep.violation(signature, what, replay)
    rep.count("violations-suppressed:" + signature)
    return False

NAMES = ["bold", "faint", "italic", "underline", "blink", "inverse", "conceal", "crossed"]


# --------------------------------------------------------------------------- generators

def rand_ansi(rng, plain_p=0.15, need_bg=False):
    if rng.random() < plain_p and not need_bg:
        return "-:-:00000000"

    def col():
        k = rng.random()
        if k < 0.35:
            return "-"
        if k < 0.55:
            return "b%d" % rng.randint(0, 7)
        if k < 0.85:
            return "f%d" % rng.randint(0, 255)
        return "r%d,%d,%d" % (rng.randint(0, 255), rng.randint(0, 255), rng.randint(0, 255))
    fg, bg = col(), col()
    if need_bg and bg == "-":
        bg = "f%d" % rng.randint(16, 255)
    attrs = "".join("1" if rng.random() < 0.2 else "0" for _ in range(8))
    return "%s:%s:%s" % (fg, bg, attrs)


def ansi_to_term(a):
    fg, bg, attrs = a.split(":")
    return (c12.dump_to_term(fg, 1, None), c12.dump_to_term(bg, 1, None),
            frozenset(n for n, b in zip(NAMES, attrs) if b == "1"))


TEXTS = ["", "a", "ab", "hello", "x y", "  ", "日本", "é", "a\tb", "12", "fn main() {", "→", "éx", "-", "+"]


def rand_text(rng):
    if rng.random() < 0.6:
        return rng.choice(TEXTS)
    return "".join(rng.choice("ab c日é1_") for _ in range(rng.randint(0, 10)))


ESC_ITEMS = ["\x1b[31m", "\x1b[0m", "\x1b[m", "\x1b[1;38;5;9m", "\x1b[48;2;1;2;3m", "\x1b[7m", "\x1b[0K",
             "\x1b]8;;http://example.com/x\x1b\\", "\x1b]8;;\x1b\\", "\x1b[4;32m"]


def rand_items(rng, balanced=True, maxn=6):
    """A line as alternating items [('t', text) | ('e', seq)]; no two adjacent text items.
    balanced: every SGR opened is reset and every link closed before the end."""
    items = []
    open_sgr = open_link = False
    for _ in range(rng.randint(0, maxn)):
        k = rng.random()
        if k < 0.45:
            t = rand_text(rng)
            if t and (not items or items[-1][0] != "t"):
                items.append(("t", t))
        elif k < 0.75:
            if open_sgr and rng.random() < 0.6:
                items.append(("e", rng.choice(["\x1b[0m", "\x1b[m"])))
                open_sgr = False
            else:
                items.append(("e", rng.choice(["\x1b[31m", "\x1b[1;38;5;9m", "\x1b[48;2;1;2;3m", "\x1b[7m", "\x1b[4;32m"])))
                open_sgr = True
        elif k < 0.9:
            if open_link:
                items.append(("e", "\x1b]8;;\x1b\\"))
                open_link = False
            else:
                items.append(("e", "\x1b]8;;http://example.com/x\x1b\\"))
                open_link = True
        else:
            items.append(("e", "\x1b[0K"))
    if balanced:
        if open_link:
            items.append(("e", "\x1b]8;;\x1b\\"))
        if open_sgr:
            items.append(("e", "\x1b[0m"))
    return items


class Graphemes:
    """Segmentation and widths from the implementation (DESIGN.md 3.1), cached."""

    def __init__(self, ctx):
        self.ctx, self.cache = ctx, {}

    def ensure(self, texts):
        todo = sorted(set(t for t in texts if t not in self.cache))
        if todo:
            res = self.ctx.hook().ask(["text.graphemes " + hx(t) for t in todo])
            for t, r in zip(todo, res):
                gs = []
                for f in r.split(" ")[1:]:
                    g, w, _ = f.split(":")
                    gs.append((g[1:], int(w)))
                self.cache[t] = gs

    def item_field(self, item):
        kind, s = item
        if kind == "e":
            return "E:" + hx(s)
        return "T:" + ";".join("%s,%d" % gw for gw in self.cache[s])


def items_fields(gr, items):
    return "%d %s" % (len(items), " ".join(gr.item_field(i) for i in items)) if items else "0"


def hook_items_fields(items):
    return "%d %s" % (len(items), " ".join("%s %s" % (k, hx(s)) for k, s in items)) if items else "0"


def self_contained(b):
    dec = T.decode(b)
    return dec.final.is_default() and not dec.problems


# --------------------------------------------------------------------------- correspondence + hook-level oracle

def corr_strings(ctx, rep, mdl):
    rng = ctx.rng
    reqs, metas = [], []
    for _ in range(ctx.n(500, 10000)):
        n = rng.randint(0, 5)
        pairs = []
        for k in range(n):
            a = rand_ansi(rng) if not (pairs and rng.random() < 0.25) else pairs[-1][0]
            pairs.append((a, rand_text(rng)))
        reqs.append("style.paint_strings %d %s" % (n, " ".join("%s %s" % (a, hx(t)) for a, t in pairs)) if n else "style.paint_strings 0")
        metas.append(pairs)
    # exhaustive ordered pairs over a basis of styles: every branch of Difference::between
    basis = ["-:-:00000000"] + ["-:-:" + "0" * k + "1" + "0" * (7 - k) for k in range(8)] + \
        ["b1:-:00000000", "f1:-:00000000", "f200:-:00000000", "r1,2,3:-:00000000", "-:b2:00000000", "-:f2:00000000",
         "-:r4,5,6:00000000", "b1:b2:00000000", "b4:b2:00000000", "b1:f22:10000000", "b1:-:10010000", "-:f52:00000001",
         "r1,2,3:r4,5,6:11111111", "b1:-:01000000"]
    if not ctx.quick():
        basis += [rand_ansi(rng, plain_p=0) for _ in range(30)]
    for a in basis:
        for b in basis:
            reqs.append("style.paint_strings 2 %s %s %s %s" % (a, hx("ab"), b, hx("cd")))
            metas.append([(a, "ab"), (b, "cd")])
    rep.exhaustive = dict(between_pairs=len(basis) ** 2, basis=len(basis))
    impl = ctx.hook().ask(reqs)
    model = mdl.ask(reqs) if mdl else [None] * len(reqs)
    outs = []
    for pairs, q, i, m in zip(metas, reqs, impl, model):
        rep.case(key=("paint_strings", q), nontrivial=len(pairs) >= 2,
                 sample=dict(op="style.paint_strings", pairs=pairs, impl=i))
        rep.count("paint_strings:n=%d" % len(pairs))
        if m is not None:
            rep.corr_case("style.paint_strings", i == m, dict(request=q, impl=i, model=m))
        if not i.startswith("ok "):
            continue
        b = unhx(i[3:])
        outs.append(b)
        dec = T.decode(b)
        want = []
        for a, t in pairs:
            st = ansi_to_term(a)
            want += [(c.ch, st) for r in T.decode(t.encode()).rows for c in r.cells]
        got = [(c.ch, c.style()) for r in dec.rows for c in r.cells]
        if got != want or not dec.final.is_default() or dec.problems or any(c.link for r in dec.rows for c in r.cells):
            _viol(rep, "strings:cells-differ-from-styles", "ANSIStrings output does not show every text in exactly its style / does not end in the default state",
                          dict(op="style.paint_strings", pairs=pairs, got=i, final=dec.final.describe(), problems=dec.problems))
    return outs


def corr_fill(ctx, rep, mdl, lines):
    rng = ctx.rng
    reqs, metas = [], []
    special = [b"", b"abc", b"\x1b[31mab\x1b[0m", b"\x1b[31mab\x1b[0M", b"\x1b[31mab\x1b[m", b"ab\x1b[0m", b"x\x1b[0m\x1b[0m",
               b"\x1b]8;;http://x\x1b\\ab\x1b]8;;\x1b\\", b"\x1b[1mbold\x1b[0m\x1b[0K\x1b[0m"]
    pool = [l for l in lines if b"\t" not in l][:400] + special
    for _ in range(ctx.n(300, 6000)):
        line = rng.choice(pool)
        a = rand_ansi(rng, plain_p=0.1, need_bg=rng.random() < 0.7)
        reqs.append("style.right_fill %s %s" % (hx(line), a))
        metas.append(("right_fill", line, a))
    for _ in range(ctx.n(120, 2000)):
        line = rng.choice(pool)
        a = rand_ansi(rng, plain_p=0.1)
        marker = rng.choice(["-", hx(" "), hx("~")])
        reqs.append("style.mark_empty %s %s %s" % (hx(line), a, marker))
        metas.append(("mark_empty", line, a))
    for _ in range(ctx.n(120, 2000)):
        url = rng.choice(["http://example.com/a?b=c;d", "file:///tmp/x y.rs:12", "", "x", "https://h/é"])
        text = rng.choice([rand_text(rng), "\x1b[34msrc/x.rs\x1b[0m", "\x1b[1m12\x1b[0m"])
        reqs.append("style.link %s %s" % (hx(url), hx(text)))
        metas.append(("link", url, text))
    impl = ctx.hook().ask(reqs)
    model = mdl.ask(reqs) if mdl else [None] * len(reqs)
    outs = []
    for meta, q, i, m in zip(metas, reqs, impl, model):
        op = meta[0]
        rep.case(key=(op, q), nontrivial=True, sample=dict(op="style." + op, request=q, impl=i))
        rep.count("fill:" + op)
        if m is not None:
            rep.corr_case("style." + op, i == m, dict(request=q, impl=i, model=m))
        if not i.startswith("ok "):
            continue
        b = unhx(i[3:])
        outs.append(b)
        if op in ("right_fill", "mark_empty"):
            line = meta[1]
            if self_contained(line) and not self_contained(b):
                _viol(rep, "fill:%s-leaks" % op, "a self-contained line is no longer self-contained after %s" % op,
                              dict(op="style." + op, request=q, got=i, final=T.decode(b).final.describe()))
        else:
            url, text = meta[1], meta[2]
            dec = T.decode(b)
            cells = [c for r in dec.rows for c in r.cells]
            want_link = url if url else None
            if not dec.final.is_default() or dec.problems or any(c.link != want_link for c in cells):
                _viol(rep, "link:unbalanced", "format_osc8_hyperlink output does not open and close the link around the text",
                              dict(op="style.link", url=url, text=text, got=i))
    return outs


TAILS = [[("e", "\x1b[7m"), ("t", "→"), ("e", "\x1b[0m")], [], [("t", ">")], [("t", "…")], [("t", "日")]]


# candidates for ONE grapheme cluster wider than 2 columns (Hangul jamo sequences, emoji + modifiers / ZWJ sequences): what
# the implementation's tables make of them is read per case and counted (`truncate:cut-at-cluster-width=N`)
WIDE_CLUSTERS = ["\u1100\uac00", "\u1100\u1100\u1161", "\u1100\uac00\u11a8", "\U0001f44d\U0001f3fd",
                 "\U0001f468\u200d\U0001f469\u200d\U0001f467", "\U0001f926\U0001f3fc\u200d\u2642\ufe0f",
                 "\u2764\u200d\U0001f525"]


def _walk_cut(gr, items, dw, used):
    """`truncate_str_impl`'s walk over the text items: (used, width of the first cluster that does not fit or None)."""
    for k, s in items:
        if k != "t":
            continue
        for _, w in gr.cache.get(s, []):
            if used + w > dw:
                return used, w
            used += w
    return used, None


def _cut_width(gr, items, tail, dw):
    tw = sum(w for k, s in tail if k == "t" for _, w in gr.cache.get(s, []))
    used = tw if tw <= dw else _walk_cut(gr, tail, dw, 0)[0]
    return _walk_cut(gr, items, dw, used)[1]


def corr_truncate(ctx, rep, mdl, gr):
    rng = ctx.rng
    cases = []
    for n_ in range(ctx.n(500, 10000)):
        items = rand_items(rng, balanced=rng.random() < 0.85)
        tail = rng.choice(TAILS) if rng.random() < 0.8 else rand_items(rng, maxn=3)
        wide = n_ % 4 == 0
        if wide:   # a text with a cluster wider than 2 columns (no two adjacent text items: merged into a neighbour)
            t = "".join(rng.choice("ab1_") for _ in range(rng.randint(0, 3))) + rng.choice(WIDE_CLUSTERS) + rng.choice(["", "a", "日b"])
            pos = rng.randint(0, len(items))
            if pos > 0 and items[pos - 1][0] == "t":
                items[pos - 1] = ("t", items[pos - 1][1] + t)
            elif pos < len(items) and items[pos][0] == "t":
                items[pos] = ("t", t + items[pos][1])
            else:
                items.insert(pos, ("t", t))
        cases.append([rng.randint(0, 12), tail, items, wide])
    gr.ensure([s for _, tail, items, _ in cases for k, s in tail + items if k == "t"])
    for c in cases:
        w, tail, items, wide = c
        if wide and rng.random() < 0.85:   # cut inside a wide cluster (the `width_of_grapheme > 2` arm)
            offs, off = [], 0
            for k, s in items:
                if k == "t":
                    for _, cw in gr.cache.get(s, []):
                        if cw > 2:
                            offs.append((off, cw))
                        off += cw
            if offs:
                off, cw = rng.choice(offs)
                tw = sum(x for k, s in tail if k == "t" for _, x in gr.cache.get(s, []))
                c[0] = w = off + tw + rng.randrange(cw)
        cwid = _cut_width(gr, items, tail, w)
        if sum(x for k, s in items if k == "t" for _, x in gr.cache.get(s, [])) <= w:
            cwid = None   # the line fits: returned as it is
        if cwid is not None:
            rep.count("truncate:cut-at-cluster-width=%s" % (cwid if cwid < 5 else "5+"))
            if cwid > 2:
                rep.count("truncate:wide-cluster-at-cut")
    cases = [(w, tail, items) for w, tail, items, _ in cases]
    hreq, mreq = [], []
    for w, tail, items in cases:
        hreq.append("style.truncate %d %s %s" % (w, hx("".join(s for _, s in tail)), hook_items_fields(items)))
        mreq.append("style.truncate %d %s %s" % (w, items_fields(gr, tail), items_fields(gr, items)))
    impl = ctx.hook().ask(hreq)
    model = mdl.ask(mreq) if mdl else [None] * len(hreq)
    outs = []
    for (w, tail, items), i, m in zip(cases, impl, model):
        line = "".join(s for _, s in items)
        rep.case(key=("truncate", w, tuple(tail), tuple(items)), nontrivial=len(items) >= 2,
                 sample=dict(op="style.truncate", width=w, tail=tail, items=items, impl=i))
        if i.startswith("PANIC"):
            rep.count("truncate:panic")
            if m is not None:
                rep.corr_case("style.truncate", m.startswith("PANIC"), dict(width=w, tail=tail, items=items, impl=i, model=m))
            continue
        if not i.startswith("ok "):
            rep.corr_case("style.truncate", False, dict(width=w, tail=tail, items=items, impl=i, model=m))
            continue
        out, measured = i.split(" ")[1], int(i.split(" ")[2])
        b = unhx(out)
        outs.append(b)
        rep.count("truncate:" + ("cut" if b != line.encode() else "fits"))
        if m is not None and m.startswith("ok "):
            mw = int(m.split(" ")[2])
            if mw != measured:
                rep.count("truncate:skipped-width-not-additive")   # domain condition of DESIGN.md 3.1
                continue
            rep.corr_case("style.truncate", m.split(" ")[1] == out, dict(width=w, tail=tail, items=items, impl=i, model=m))
        elif m is not None:
            rep.corr_case("style.truncate", False, dict(width=w, tail=tail, items=items, impl=i, model=m))
        # oracle: escapes are kept whole and in order; a self-contained line stays self-contained
        esc_in = [s for k, s in items if k == "e"]
        tail_s = "".join(s for _, s in tail)
        if b != line.encode():
            esc_want = esc_in + [s for k, s in tail if k == "e"]
            esc_got = re.findall(r"\x1b\[[0-9;]*[A-Za-z]|\x1b\].*?\x1b\\", b.decode("utf-8", "replace"))
            if esc_got != esc_want:
                _viol(rep, "truncate:escapes-not-preserved", "truncate_str changed the escape sequences of the line",
                              dict(op="style.truncate", width=w, tail=tail, items=items, got=i))
        if self_contained(line.encode()) and self_contained(tail_s.encode()) and not self_contained(b):
            _viol(rep, "truncate:leaks", "a self-contained line is no longer self-contained after truncation",
                          dict(op="style.truncate", width=w, tail=tail, items=items, got=i))
    return outs


def corr_pad(ctx, rep, mdl, gr):
    rng = ctx.rng
    configs = []
    for _ in range(ctx.n(16, 60)):
        a = ["--side-by-side", "--width=%d" % rng.choice([20, 24, 31, 40, 61]),
             "--line-fill-method=" + rng.choice(["ansi", "spaces"])]
        if rng.random() < 0.7:
            a.append("--minus-style=" + rng.choice(["red", "normal 52", "bold #aabbcc #102030", "reverse red", "normal", "normal 88", "white 124"]))
        if rng.random() < 0.7:
            a.append("--plus-style=" + rng.choice(["green", "syntax 22", "ul 28", "normal", "normal 28", "reverse green"]))
        if rng.random() < 0.3:
            a.append("--zero-style=" + rng.choice(["normal 236", "dim", "syntax"]))
        if rng.random() < 0.3:
            a.append("--minus-empty-line-marker-style=" + rng.choice(["normal 88", "reverse", "normal auto"]))
        configs.append(a)
    tail_items = TAILS[0]
    gr.ensure(["→", " "])

    def one(a):
        n = ctx.n(12, 60)
        lrng = __import__("random").Random(hash(tuple(a)) & 0xffffffff ^ ctx.seed)
        cases = []
        for _ in range(n):
            items = rand_items(lrng, balanced=True, maxn=7)
            cases.append((items, lrng.randint(0, 1) if not items else 0, lrng.randint(0, 1), lrng.choice("mpz"),
                          lrng.choice("lr"), lrng.choice(["ansi", "spaces", "no"])))
        lines = ["cfg " + " ".join(hx(x) for x in a),
                 "style.config_style minus-empty-line-marker-style", "style.config_style plus-empty-line-marker-style"]
        for items, emp, idx, st, side, fill in cases:
            lines.append("style.pad_panel %s %d %d %s %s %s" % (hx("".join(s for _, s in items)), emp, idx, st, side, fill))
        return cases, ctx.hook().ask(lines, sticky=[0])
    results = parallel_map(one, configs)
    all_texts = [s for cases, _ in results for c in cases for k, s in c[0] if k == "t"]
    gr.ensure(all_texts)
    mreq, keep = [], []
    for a, (cases, res) in zip(configs, results):
        marks = {"m": res[1].split(" ")[1] if res[1].startswith("ok ") else None,
                 "p": res[2].split(" ")[1] if res[2].startswith("ok ") else None}
        for c, r in zip(cases, res[3:]):
            items, emp, idx, st, side, fill = c
            rep.case(key=("pad", tuple(a), c[1:], tuple(items)), nontrivial=True,
                     sample=dict(op="style.pad_panel", args=a, items=items, empty=emp, index=idx, state=st, side=side, fill=fill, impl=r))
            if not r.startswith("ok "):
                rep.count("pad:" + r.split(" ")[0])
                if r.startswith("PANIC"):
                    mreq.append(None)
                    keep.append((a, c, r, None))
                continue
            _, out, mode, fstyle, pw = r.split(" ")
            rep.count("pad:mode=" + mode)
            em = "-"
            if emp and idx and st in "mp":
                em = marks[st]
            mreq.append("style.pad_panel %s %s %s %s %s %s" % (em, pw, mode, fstyle, items_fields(gr, tail_items), items_fields(gr, items)))
            keep.append((a, c, r, out))
            line = "".join(s for _, s in items).encode()
            if self_contained(line) and not self_contained(unhx(out)):
                _viol(rep, "pad:leaks", "a self-contained panel line is no longer self-contained after pad_panel_line_to_width",
                              dict(op="style.pad_panel", args=a, case=c, got=r))
    if mdl:
        model = mdl.ask([q for q in mreq if q])
        it = iter(model)
        for q, (a, c, r, out) in zip(mreq, keep):
            if q is None:
                continue
            m = next(it)
            agree = (m.startswith("ok ") and m.split(" ")[1] == out) or (m.startswith("PANIC") and r.startswith("PANIC"))
            # width additivity: compare only when the model's width is the implementation's
            rep.corr_case("style.pad_panel", agree, dict(args=a, case=c, impl=r, model=m))


def corr_term(ctx, rep, mdl, blobs):
    """The Lean abstract terminal vs the independent Python decoder on implementation output."""
    if not mdl:
        return
    rng = ctx.rng
    lines = []
    for b in blobs:
        for ln in b.split(b"\n"):
            if ln and b"\t" not in ln:
                lines.append(ln)
    extra = [b"\x1b[38;5;9;48;2;1;2;3;1mX\x1b[22;39mY\x1b[49;27mZ", b"\x1b[1;31", b"\x1b]8;;u", b"\x1b[?25lq\x1b[0 qx",
             b"\x1b[90;107mb\x1b[m", b"a\x1b[38;5mq", b"\x1b]8;id=1;http://a;b\x07t\x1b]8;;\x07", b"\x1b[4:3mu\x1b[0m"]
    lines = sorted(set(lines))
    rng.shuffle(lines)
    lines = lines[:ctx.n(1500, 30000)] + extra
    res = mdl.ask(["style.term " + hx(l) for l in lines])
    for l, r in zip(lines, res):
        dec = T.decode(l, combine=False)
        row = dec.rows[0] if dec.rows else None
        st = dec.final

        def tc(c):
            return "-" if c is None else ("i%d" % c[1] if c[0] == "idx" else "r%d,%d,%d" % c[1:])

        def rd(fg, bg, attrs):
            return "%s:%s:%s" % (tc(fg), tc(bg), "".join("1" if n in attrs else "0" for n in NAMES))
        mode = {"ground": "ground", "esc": "esc", "csi": "csi", "osc": "osc", "str": "str"}[st.mode]
        want = ["ok", mode, rd(st.fg, st.bg, st.attrs), "-" if st.link is None else hx(st.link)]
        for text, fg, bg, attrs, link in (row.runs() if row else []):
            want.append("%s/%s/%s" % (hx(text), rd(fg, bg, attrs), "-" if link is None else hx(link)))
        # the decoder's extra aspects (overline, colon sub-parameters, C0 handling) are outside the
        # Lean model: compare only lines made of what delta emits
        comparable = not dec.problems and not re.search(rb"[\x00-\x08\x0b-\x1a\x1c-\x1f]|\x1b\[[0-9;]*:", l)
        rep.case(key=("term", l), nontrivial=b"\x1b" in l)
        if comparable:
            rep.corr_case("style.term", r == " ".join(want), dict(line=l.decode("utf-8", "replace"), model=r, decoder=" ".join(want)))
        else:
            rep.count("term:not-compared")


# --------------------------------------------------------------------------- binary oracle

WORDS = ["fn", "main()", "{", "}", "let", "x", "=", "42;", "return", "foo(bar,", "baz)", "//", "comment", "日本語", "テキスト",
         "naïve", "été", "😀", "->", "Result<(),", "Error>", "\"str\"", "if", "else", "#include", "<stdio.h>", "0x1f", "a_b_c"]


def gen_line(rng):
    k = rng.random()
    if k < 0.08:
        return ""
    n = rng.choice([1, 2, 3, 5, 8, 14, 30]) if k < 0.9 else rng.choice([60, 100])
    s = " ".join(rng.choice(WORDS) for _ in range(n))
    if rng.random() < 0.2:
        s = rng.choice(["\t", "    ", "\t\t"]) + s
    if rng.random() < 0.1:
        s += rng.choice([" ", "  ", "\t"])
    return s


def gen_diff(rng, colored=False):
    out = []
    if rng.random() < 0.4:
        out += ["commit %040x" % rng.randrange(1 << 160), "Author: A U Thor <a@example.com>",
                "Date:   Thu Jan 1 00:00:00 1970 +0000", "", "    message " + gen_line(rng)[:40], ""]
    for _ in range(rng.randint(1, 3)):
        ext = rng.choice(["rs", "py", "txt", "zzz", "c", "md"])
        a = "src/%s.%s" % (rng.choice(["main", "lib", "日本", "a b", "x"]), ext)
        b = a if rng.random() < 0.8 else "src/renamed.%s" % ext
        out.append("diff --git a/%s b/%s" % (a, b))
        kind = rng.random()
        if kind < 0.08:
            out += ["old mode 100644", "new mode 100755"]
            if rng.random() < 0.5:
                continue
        if b != a:
            out += ["similarity index 90%", "rename from " + a, "rename to " + b]
        if kind > 0.95:
            out += ["index 1111111..2222222", "Binary files a/%s and b/%s differ" % (a, b)]
            continue
        out += ["index 1111111..2222222 100644", "--- a/" + a, "+++ b/" + b]
        ln = 1
        for _ in range(rng.randint(1, 3)):
            body = []
            for _ in range(rng.randint(1, 4)):
                r = rng.random()
                if r < 0.35:
                    body.append(" " + gen_line(rng))
                elif r < 0.55:
                    body.append("-" + gen_line(rng))
                elif r < 0.75:
                    body.append("+" + gen_line(rng))
                else:
                    base = gen_line(rng).split(" ")
                    new = list(base)
                    if new:
                        new[rng.randrange(len(new))] = rng.choice(WORDS)
                    body.append("-" + " ".join(base))
                    body.append("+" + " ".join(new))
            nm = sum(1 for x in body if x[0] in " -")
            npl = sum(1 for x in body if x[0] in " +")
            out.append("@@ -%d,%d +%d,%d @@ %s" % (ln, nm, ln, npl, rng.choice(["", "fn main() {", "class X:", "impl 日本 {"])))
            out += body
            ln += nm + rng.randint(5, 50)
    if colored:
        col = []
        for l in out:
            if l.startswith("@@"):
                col.append("\x1b[36m%s\x1b[m" % l)
            elif l.startswith("-") and not l.startswith("---"):
                col.append("\x1b[31m%s\x1b[m" % l)
            elif l.startswith("+") and not l.startswith("+++"):
                col.append("\x1b[32m+\x1b[m\x1b[32m%s\x1b[m" % l[1:] if len(l) > 1 else "\x1b[32m+\x1b[m")
            elif l.startswith(("diff ", "index ", "--- ", "+++ ", "old mode", "new mode", "rename", "similarity")):
                col.append("\x1b[1m%s\x1b[m" % l)
            elif l.startswith("commit "):
                col.append("\x1b[33m%s\x1b[m" % l)
            else:
                col.append(l)
        out = col
    return ("\n".join(out) + "\n").encode()


def gen_blame(rng):
    out = []
    commits = ["%08x" % rng.randrange(1 << 32) for _ in range(3)]
    for n in range(1, rng.randint(3, 9)):
        c = rng.choice(commits)
        out.append("%s (%-12s 2020-01-%02d 10:00:00 +0000 %3d) %s" % (c, rng.choice(["Alice", "Bob Builder", "日本 太郎"]), rng.randint(1, 28), n, gen_line(rng)))
    return ("\n".join(out) + "\n").encode()


def gen_grep(rng):
    out = []
    for _ in range(rng.randint(2, 8)):
        out.append("src/%s.rs:%d:%s" % (rng.choice(["main", "lib", "x"]), rng.randint(1, 500), gen_line(rng) or "x"))
    return ("\n".join(out) + "\n").encode()


STYLE_OPTS = ["minus-style", "plus-style", "zero-style", "minus-emph-style", "plus-emph-style",
              "line-numbers-minus-style", "line-numbers-plus-style", "line-numbers-zero-style",
              "line-numbers-left-style", "line-numbers-right-style", "file-style", "hunk-header-style",
              "commit-style", "whitespace-error-style", "hunk-header-file-style", "hunk-header-line-number-style"]
DECOS = ["", "box", "ul", "ol", "box ul", "ul ol", "blue box", "bold yellow ul", "red box ol", "none",
         "bold yellow box ul", "blue box ul", "red 52 box ul ol", "italic 201 ul ol", "omit"]


def gen_args(rng, kind):
    a = ["--no-gitconfig", "--paging=never"]
    a.append("--width=%d" % rng.choice([16, 20, 27, 40, 60, 80, 120]))
    sbs = kind == "diff" and rng.random() < 0.45
    if sbs:
        a.append("--side-by-side")
        a.append("--wrap-max-lines=%s" % rng.choice(["0", "1", "2", "4"]))
        if rng.random() < 0.3:
            a.append("--wrap-left-symbol=" + rng.choice(["↵", "<", "日"]))
    if rng.random() < 0.45:
        a.append("--line-numbers")
    if rng.random() < 0.35:
        a.append("--hyperlinks")
        if rng.random() < 0.5:
            a.append("--hyperlinks-file-link-format=" + rng.choice(["file://{path}", "vscode://file/{path}:{line}", "file-line://{path}:{line}"]))
    a.append("--line-fill-method=" + rng.choice(["ansi", "spaces"]))
    a.append("--true-color=" + rng.choice(["always", "never"]))
    if rng.random() < 0.35:
        a.append("--syntax-theme=none")
    for o in ("commit", "file", "hunk-header"):
        if rng.random() < 0.4:
            a.append("--%s-decoration-style=%s" % (o, rng.choice(DECOS)))
    for feat, p in (("--navigate", 0.15), ("--keep-plus-minus-markers", 0.2), ("--color-only", 0.12),
                    ("--diff-so-fancy", 0.08), ("--raw", 0.05), ("--relative-paths", 0.1), ("--light", 0.15)):
        if rng.random() < p:
            a.append(feat)
    if rng.random() < 0.25:
        a.append("--max-line-length=%d" % rng.choice([10, 25, 40, 0]))
    if rng.random() < 0.15:
        a.append("--tabs=%d" % rng.choice([0, 1, 4, 8]))
    for o in STYLE_OPTS:
        if rng.random() < 0.18:
            s = c12.gen_style(rng, 4)
            if c12.oracle_parse(s) == "error" or (o == "commit-style" and not s.strip()):
                continue
            a.append("--%s=%s" % (o, s))
    if rng.random() < 0.15:
        a = [x for x in a if not x.startswith("--hunk-header-style=")]
        a.append("--hunk-header-style=%s" % rng.choice(["file line-number syntax", "omit", "raw", "file syntax bold", "line-number red"]))
    if rng.random() < 0.1:
        a.append("--inspect-raw-lines=false")
    return a


def check_stdout(rep, replay, out, tag=None):
    dec = T.decode(out)
    bad = 0
    for n, r in enumerate(dec.rows):
        if not r.terminated:
            if r.cells or r.problems:
                rep.count("binary:unterminated-last-row")
            continue
        e = r.end
        what = None
        if r.problems:
            what = "partial-sequence:" + r.problems[0][0]
        elif e.mode != "ground":
            what = "partial-sequence"
        elif e.link is not None:
            what = "open-hyperlink"
        elif e.fg is not None or e.bg is not None or e.attrs:
            what = "rendition"
        if what:
            bad += 1
            _viol(rep, "newline-not-default:" + what + ((":" + tag) if tag else ""),
                          "at a newline of stdout the terminal is not in its default state (%s)" % what,
                          dict(replay, row=n, row_text=r.text()[:200], state=e.describe(), problems=r.problems[:3]))
            break
    return dec, bad


def binary_oracle(ctx, rep):
    rng = ctx.rng
    jobs = []
    for k in range(ctx.n(640, 30000)):
        r = rng.random()
        if r < 0.8:
            kind, inp = "diff", gen_diff(rng, colored=rng.random() < 0.25)
            env = {}
        elif r < 0.9:
            kind, inp = "blame", gen_blame(rng)
            env = {"DELTA_VERIF_FORCE_GUESS": "git blame src/main.rs"}
        else:
            kind, inp = "grep", gen_grep(rng)
            env = {"DELTA_VERIF_FORCE_GUESS": "git grep -n x"}
        jobs.append((kind, gen_args(rng, kind), inp, env))

    def run(job):
        kind, args, inp, env = job
        return ctx.run_delta(args, inp, env=env, timeout=20)
    results = parallel_map(run, jobs)
    blobs = []
    for (kind, args, inp, env), (rc, out, err) in zip(jobs, results):
        mode = "sbs" if "--side-by-side" in args else "unified"
        replay = dict(kind="binary", input_kind=kind, args=args, env=env, stdin_b64=__import__("base64").b64encode(inp).decode())
        nontrivial = out.count(b"\n") >= 3
        rep.case(key=("binary", kind, tuple(args), inp), nontrivial=nontrivial,
                 sample=dict(op="binary", kind=kind, args=args, rc=rc, rows=out.count(b"\n")))
        rep.count("binary:%s:%s" % (kind, mode))
        for f in ("--line-numbers", "--hyperlinks", "--color-only", "--navigate", "--keep-plus-minus-markers"):
            if f in args:
                rep.count("binary:flag" + f)
        rep.count("binary:fill=" + [x for x in args if x.startswith("--line-fill-method")][0].split("=")[1])
        if rc == "timeout":
            rep.count("binary:timeout(C03)")
            continue
        if rc != 0:
            rep.count("binary:rc=%s(C03)" % rc)       # crashes belong to C03; what was printed is still checked
        dec, bad = check_stdout(rep, replay, out)
        if len(blobs) < 400:
            blobs.append(out)
        rep.count("binary:rows", len(dec.rows))
        if any(r.erases for r in dec.rows):
            rep.count("binary:with-EL")
        if any(c.link for r in dec.rows for c in r.cells):
            rep.count("binary:with-links")
    return blobs


DECO_SHAPES = ["box", "ul", "ol", "box ul", "box ol", "ul ol", "box ul ol", "none", "omit", ""]
DECO_COLOURS = ["bold yellow", "blue", "#aabbcc 52 reverse", "ul italic 201", ""]


def decoration_oracle(ctx, rep):
    """Every decoration shape x commit / file / hunk-header x coloured and attributed decoration styles x unified and
    side-by-side x fixed and variable width: every line of the drawn box / rule / whisker ends in the default state."""
    jobs = []
    for el in ("commit", "file", "hunk-header"):
        for shape in DECO_SHAPES:
            for col in DECO_COLOURS:
                for sbs in (False, True):
                    for width in ("--width=40", "--width=variable"):
                        if not ctx.quick() or (DECO_COLOURS.index(col) + DECO_SHAPES.index(shape) + sbs) % 2 == 0 or shape in ("box ul", "box ul ol"):
                            a = ["--no-gitconfig", "--paging=never", width, "--%s-decoration-style=%s" % (el, (col + " " + shape).strip())]
                            if el == "commit":
                                a.append("--commit-style=" + ctx.rng.choice(["bold 214", "raw", "normal"]))
                            if el == "hunk-header":
                                a.append("--hunk-header-style=" + ctx.rng.choice(["file line-number syntax", "raw", "bold red"]))
                            if sbs:
                                a.append("--side-by-side")
                            jobs.append((el, shape, col, a))
    results = parallel_map(lambda j: ctx.run_delta(j[3], c12.DIFF, timeout=20), jobs)
    for (el, shape, col, a), (rc, out, err) in zip(jobs, results):
        rep.case(key=("decoration", el, shape, col, tuple(a)), nontrivial=bool(shape and shape not in ("none", "omit")),
                 sample=dict(op="decoration", element=el, shape=shape, colour=col, rc=rc))
        rep.count("decoration:%s:%s" % (el, shape or "(empty)"))
        if rc != 0:
            rep.count("decoration:rc=%s" % rc)
        import base64
        check_stdout(rep, dict(kind="binary", input_kind="diff", args=a, env={}, stdin_b64=base64.b64encode(c12.DIFF).decode()), out)


CR_LINES = ["\x1b[33mwarning: thing\r\x1b[0m", "\x1b[33mwarning\x1b[0m\r", "plain\r", "\x1b]8;;http://example.com/x\x1b\\link\r\x1b]8;;\x1b\\",
            "\x1b[1;31merror\x1b[m \x1b]8;;http://e.x/\x1b\\here\r\x1b]8;;\x1b\\\x1b[m", "a\rb\r\x1b[0m", "ab\rcd", "\r", "\r\x1b[m",
            "\x1b[31m-removed\x1b[m\x1b[41m\r\x1b[m", "\x1b[32m+\x1b[m\x1b[32madded\r\x1b[m", "no cr at all \x1b[4mx\x1b[0m"]


def corr_cr(ctx, rep, mdl):
    """`ingest_line` (hook op machine.ingest, default Config) vs the model's CR step, on lines whose sequences close
    between the CR and the LF; oracle: a balanced input line is still balanced as `raw_line`."""
    rng = ctx.rng
    lines = list(CR_LINES)
    for _ in range(ctx.n(150, 3000)):
        items = rand_items(rng, balanced=rng.random() < 0.85, maxn=6)
        k = rng.randint(0, len(items))
        items = items[:k] + [("t", "\r")] + items[k:]
        lines.append("".join(x for _, x in items))
    tails = [l[l.rfind("\r") + 1:] if "\r" in l else "" for l in lines]
    widths = ctx.hook().ask(["style.truncate 0 x 1 t " + hx(t) for t in tails])
    impl = ctx.hook().ask(["machine.ingest " + hx(l) for l in lines])
    mreq = []
    for l, w in zip(lines, widths):
        tz = 1 if (w.startswith("ok ") and w.split(" ")[2] == "0") else 0
        mreq.append("style.cr_step %d %s" % (tz, hx(l)))
    model = mdl.ask(mreq) if mdl else [None] * len(lines)
    for l, i, m in zip(lines, impl, model):
        rep.case(key=("cr", l), nontrivial="\x1b" in l and "\r" in l, sample=dict(op="machine.ingest", line=l, impl=i))
        rep.count("cr:" + ("esc-after-cr" if "\r\x1b" in l else "other"))
        raw = i.split(" ")[1] if i.startswith("ok ") else None
        if m is not None:
            rep.corr_case("machine.ingest/cr_step", raw is not None and m == "ok " + raw, dict(line=l, impl=i, model=m))
        if raw is not None and self_contained(l.replace("\r", "").encode()) and not self_contained(unhx(raw).replace(b"\r", b"")):
            _viol(rep, "ingest:cr-step-drops-closing-sequences", "a line whose own sequences are balanced is no longer balanced after ingest_line",
                  dict(op="machine.ingest", line=l, got=i))


def cr_binary_oracle(ctx, rep):
    """Balanced input sequences that close between CR and LF, on every raw path x modes."""
    import base64
    y, z, ln, lk = "\x1b[33m", "\x1b[0m", "\x1b]8;;http://example.com/x\x1b\\", "\x1b]8;;\x1b\\"
    plain = ("%swarning: something\r%s\n" % (y, z) + "%sclick\r%s\n" % (ln, lk) + "%s%sboth\r%s%s\n" % (y, ln, lk, z)).encode()
    git_crlf = ("\x1b[33mcommit 1111111111111111111111111111111111111111\r\x1b[m\n"
                "Author: A <a@b>\r\n\r\n    msg\r\n\r\n"
                "\x1b[1mdiff --git a/f.txt b/f.txt\x1b[m\n\x1b[1mindex 1111111..2222222 100644\x1b[m\n"
                "\x1b[1m--- a/f.txt\x1b[m\n\x1b[1m+++ b/f.txt\x1b[m\n"
                "\x1b[36m@@ -1,3 +1,3 @@\x1b[m \x1b[33mfn main() {\r\x1b[m\n"
                " context\r\n"
                "\x1b[31m-removed line\x1b[m\x1b[41m\r\x1b[m\n"
                "\x1b[32m+\x1b[m\x1b[32madded line\r\x1b[m\n"
                "\x1b[33mwarning inside the hunk\r\x1b[0m\n"
                "%snot a hunk line\r%s\n" % (ln, lk)).encode()
    inputs = [("plain", plain), ("git-crlf", git_crlf), ("plain-after-diff", git_crlf + plain)]
    modes = [[], ["--side-by-side"], ["--color-only"], ["--line-numbers"], ["--max-line-length=12"],
             ["--commit-style=raw", "--file-style=raw", "--hunk-header-style=raw"],
             ["--minus-style=raw", "--plus-style=raw", "--zero-style=raw"],
             ["--commit-style=raw", "--file-style=raw", "--hunk-header-style=raw", "--hunk-header-decoration-style=blue box ul",
              "--side-by-side", "--hyperlinks"],
             ["--inspect-raw-lines=false"], ["--raw"], ["--diff-so-fancy"]]
    jobs = [(n, inp, ["--no-gitconfig", "--paging=never", "--width=50"] + m) for n, inp in inputs for m in modes]
    results = parallel_map(lambda j: ctx.run_delta(j[2], j[1], timeout=20), jobs)
    for (n, inp, a), (rc, out, err) in zip(jobs, results):
        rep.case(key=("cr-binary", n, tuple(a)), nontrivial=True, sample=dict(op="cr-binary", input=n, args=a, rc=rc))
        rep.count("cr-binary:" + n)
        if rc != 0:
            rep.count("cr-binary:rc=%s" % rc)
        check_stdout(rep, dict(kind="binary", input_kind="cr:" + n, args=a, env={}, stdin_b64=base64.b64encode(inp).decode()), out)


def diff_stat_oracle(ctx, rep):
    """`git log --stat` blocks under --relative-paths with GIT_PREFIX (the diff-stat lines are rewritten by
    relativize_path_in_diff_stat_line): coloured and plain graphs, long and non-ASCII paths, paths inside and outside
    the prefix, several widths and --diff-stat-align-width values, hyperlinks on and off."""
    import base64
    rng = ctx.rng
    work = os.path.join(core_BUILD(), "c09-work")
    os.makedirs(os.path.join(work, "sub", "dir"), exist_ok=True)
    g, r, z = "\x1b[32m", "\x1b[31m", "\x1b[m"

    def stat_block(coloured, crlf=False):
        paths = ["sub/dir/a_rather_long_file_name_for_the_stat.rs", "other/b.rs", "sub/dir/x.py", "sub/日本語/テキスト.txt",
                 "sub/dir/deep/er/and/deeper/still/going/on/for/a/while/longer_than_the_width.c", "README.md", "sub/dir/a b.txt"]
        rng.shuffle(paths)
        paths = paths[:rng.randint(2, len(paths))]
        w = max(len(p) for p in paths)
        out = ["commit %040x" % rng.randrange(1 << 160), "Author: A <a@b.c>", "Date:   Mon Jan 1 00:00:00 2024 +0000", "", "    msg", ""]
        for p in paths:
            plus, minus = rng.randint(0, 40), rng.randint(0, 30)
            if plus + minus == 0:
                plus = 1
            graph = (g + "+" * plus + z if plus else "") + (r + "-" * minus + z if minus else "") if coloured else "+" * plus + "-" * minus
            out.append(" %s | %*d %s" % (p.ljust(w), 3, plus + minus, graph))
        out.append(" %d files changed, 8 insertions(+), 6 deletions(-)" % len(paths))
        return ("\n".join(out) + "\n").encode()
    jobs = []
    for k in range(ctx.n(90, 1500)):
        inp = stat_block(coloured=k % 3 != 0)
        a = ["--no-gitconfig", "--paging=never", "--relative-paths", "--width=%s" % rng.choice(["30", "40", "60", "72", "78", "100", "variable"])]
        if rng.random() < 0.5:
            a.append("--diff-stat-align-width=%d" % rng.choice([0, 10, 30, 48, 80]))
        if rng.random() < 0.3:
            a.append("--hyperlinks")
        if rng.random() < 0.2:
            a.append("--side-by-side")
        jobs.append((inp, a, {"GIT_PREFIX": rng.choice(["sub/dir/", "sub/", "sub/dir/deep/"])}))
    # the seeded family: fixed widths around the byte length of a coloured line
    fixed = stat_block(True)
    for wd in (60, 66, 70, 72, 74, 76, 78, 80, 90):
        jobs.append((fixed, ["--no-gitconfig", "--paging=never", "--relative-paths", "--width=%d" % wd], {"GIT_PREFIX": "sub/dir/"}))
    results = parallel_map(lambda j: ctx.run_delta(j[1], j[0], env=j[2], cwd=work, timeout=20), jobs)
    for (inp, a, env), (rc, out, err) in zip(jobs, results):
        rewritten = sum(1 for l in out.split(b"\n") if b"|" in l)
        rep.case(key=("diff-stat", tuple(a), tuple(env.items()), inp), nontrivial=rewritten > 0,
                 sample=dict(op="diff-stat", args=a, env=env, rc=rc, stat_rows=rewritten))
        rep.count("diff-stat:" + ("coloured" if b"\x1b[32m" in inp else "plain"))
        if rc != 0:
            rep.count("diff-stat:rc=%s" % rc)
        check_stdout(rep, dict(kind="binary", input_kind="diff-stat", args=a, env=env, cwd="sub/dir under a scratch work dir",
                               stdin_b64=base64.b64encode(inp).decode()), out)


def rg_multiline_oracle(ctx, rep):
    """`rg --json` match records whose `lines.text` holds several lines (ripgrep --multiline), with submatches,
    both grep output types, side-by-side on and off."""
    import base64, json
    def rec(text, ln, subs):
        return json.dumps({"type": "match", "data": {"path": {"text": "src/a.rs"}, "lines": {"text": text}, "line_number": ln,
                           "absolute_offset": 0, "submatches": [{"match": {"text": text[a:b]}, "start": a, "end": b} for a, b in subs]}})
    begin = json.dumps({"type": "begin", "data": {"path": {"text": "src/a.rs"}}})
    texts = [("fn foo() {\n    bar();\n}\n", [(3, 6)]), ("fn foo() {\n    bar();\n}\n", [(3, 6), (15, 18)]), ("a foo\nb foo\n", [(2, 5), (8, 11)]),
             ("foo\nfoo", [(0, 3), (4, 7)]), ("x\n\nfoo\n", [(3, 6)]), ("foo bar\nbaz\n", [(4, 11)]), ("one line foo\n", [(9, 12)])]
    jobs = []
    for text, subs in texts:
        inp = (begin + "\n" + rec(text, 10, subs) + "\n").encode()
        for extra in ([], ["--side-by-side"], ["--grep-output-type=classic"], ["--grep-output-type=ripgrep", "--line-numbers"],
                      ["--syntax-theme=none", "--grep-match-line-style=normal 52"]):
            jobs.append((inp, ["--no-gitconfig", "--paging=never", "--width=60"] + extra, text.count("\n") > 1 or (text.count("\n") == 1 and not text.endswith("\n"))))
    results = parallel_map(lambda j: ctx.run_delta(j[1], j[0], env={"DELTA_VERIF_FORCE_GUESS": "rg foo"}, timeout=20), jobs)
    for (inp, a, multi), (rc, out, err) in zip(jobs, results):
        rep.case(key=("rg-multiline", tuple(a), inp), nontrivial=multi, sample=dict(op="rg-json", args=a, multiline=multi, rc=rc))
        rep.count("rg-json:" + ("multi-line" if multi else "single-line"))
        check_stdout(rep, dict(kind="binary", input_kind="rg-json", args=a, env={"DELTA_VERIF_FORCE_GUESS": "rg foo"},
                               stdin_b64=base64.b64encode(inp).decode()), out, tag="rg-json-multiline-match" if multi else None)


# --------------------------------------------------------------------------- ingest_line_utf8 under --max-line-length

ESC_RE = re.compile("\x1b\\][^\x07\x1b]*(?:\x07|\x1b\\\\)|\x1b\\[[0-9;]*[A-Za-z]")


def state_problem(b):
    """None when the line `b` (no newline) read from the default state ends in it; else what is wrong."""
    dec = T.decode(b)
    if dec.problems:
        return "partial-sequence"
    e = dec.final
    if e.mode != "ground":
        return "partial-sequence"
    if e.link is not None:
        return "open-hyperlink"
    if not e.is_default():
        return "rendition"
    return None


def ingest_guard(max_len, r1):
    """The documented rule: lines longer than --max-line-length bytes are truncated, except hunk headers and rg --json."""
    b = r1.encode()
    return max_len > 0 and len(b) > max_len and not b.startswith(b"@@") and not b.startswith(b"{")


def heavy_cases(rng, max_len, n):
    """Escape-heavy balanced lines for this limit (vlib/ingest.py: gen_escape_heavy), some with a `\r`: git's CRLF
    remnant (the CR before the closing sequences at the end) or a CR followed by visible text."""
    out = []
    for _ in range(n):
        items, shape = ING.gen_escape_heavy(rng, max_len)
        r = rng.random()
        texts = [k for k, it in enumerate(items) if it[0] == "t"]
        cr = "no-cr"
        if r < 0.15:
            if texts and all(k == "e" for k, _ in items[texts[-1] + 1:]):
                items[texts[-1]] = ("t", items[texts[-1]][1] + "\r")
                cr = "cr-before-closing-sequences"
            elif not texts:
                items.insert(rng.randint(0, len(items)), ("t", "\r"))
                cr = "cr-among-sequences"
        elif r < 0.22 and len(texts) >= 2:
            k = rng.choice(texts[:-1])
            items[k] = ("t", items[k][1] + "\r")
            cr = "cr-before-text"
        out.append((items, shape, cr))
    return out


def drop_last_cr(items):
    for k in range(len(items) - 1, -1, -1):
        kind, s = items[k]
        if kind == "t" and "\r" in s:
            i = s.rindex("\r")
            t = s[:i] + s[i + 1:]
            return items[:k] + ([("t", t)] if t else []) + items[k + 1:]
    return items


def eval_ingest(rep, max_len, items, shape, cr, impl, model_out, comparable):
    """Oracle + correspondence for one `machine.ingest` answer."""
    line = "".join(s for _, s in items)
    replay = dict(kind="ingest-hook", max_line_length=max_len, items=[list(x) for x in items], shape=shape, cr=cr, got=impl)
    if not impl.startswith("ok"):
        rep.count("ingest:" + impl.split(" ")[0])
        if model_out is not None:
            rep.corr_case("machine.ingest/ingest_raw", impl.startswith("PANIC") and model_out == "PANIC", dict(replay, model=model_out))
        return
    f = impl.split(" ")
    raw = unhx(f[1]) if len(f) > 1 else b""
    if model_out is not None:
        if comparable:
            rep.corr_case("machine.ingest/ingest_raw", model_out == raw, dict(replay, model=repr(model_out)))
        else:
            rep.count("ingest:skipped-width-not-additive")
    cls = "%s:%s" % (shape, cr)
    what_in = state_problem(line.replace("\r", "").encode())
    what_out = state_problem(raw.replace(b"\r", b""))
    if what_in is None and what_out is not None:
        _viol(rep, "ingest:max-line-length:raw-line-unbalanced:" + what_out,
              "a line whose own sequences are balanced is no longer balanced as raw_line (what every raw output path prints) "
              "under --max-line-length %d [%s]" % (max_len, cls), replay)
    esc_in = [s for k, s in items if k == "e"]
    esc_got = ESC_RE.findall(raw.decode("utf-8", "replace"))
    if esc_got != esc_in and esc_got != esc_in + [s for k, s in TAILS[0] if k == "e"]:
        _viol(rep, "ingest:max-line-length:escapes-not-preserved",
              "raw_line does not carry exactly the escape sequences of the input line (plus those of the truncation symbol) "
              "under --max-line-length %d [%s]" % (max_len, cls), replay)


def ask_ingest(ctx, mdl, gr, max_len, cases):
    """machine.ingest (hook, Config from `--max-line-length max_len`) and the model `Line.ingestRaw` for each case:
    -> [(impl answer, model raw_line bytes | 'PANIC' | None, comparable)]."""
    hook = ctx.hook()
    cfgline = "cfg " + " ".join(hx(a) for a in ["--max-line-length", str(max_len)])
    lines = ["".join(s for _, s in items) for items, _, _ in cases]
    impl = hook.ask([cfgline] + ["machine.ingest " + hx(l) for l in lines], sticky=[0])[1:]
    if not mdl:
        return [(i, None, False) for i in impl]
    tails = [l[l.rfind("\r") + 1:] if "\r" in l else "" for l in lines]
    widths = hook.ask(["style.truncate 0 x 1 t " + hx(t) for t in tails])
    tz = [1 if (w.startswith("ok ") and w.split(" ")[2] == "0") else 0 for w in widths]
    r1s = mdl.ask(["style.cr_step %d %s" % (z, hx(l)) for z, l in zip(tz, lines)])
    sym = TAILS[0]
    gr.ensure(["→"])
    todo, plan = [], []
    for (items, _, _), l, r in zip(cases, lines, r1s):
        r1 = unhx(r[3:]).decode("utf-8") if r.startswith("ok ") else None
        if r1 is None:
            plan.append(("err", None))
            continue
        items1 = drop_last_cr(items) if r1 != l else items
        if "".join(s for _, s in items1) != r1:
            plan.append(("err", None))
            continue
        if ingest_guard(max_len, r1):
            gr.ensure([s for k, s in items1 if k == "t"])
            todo.append((items1, r1))
            plan.append(("trunc", len(todo) - 1))
        else:
            plan.append(("asis", r1))
    mres = mdl.ask(["style.truncate %d %s %s" % (max_len, items_fields(gr, sym), items_fields(gr, it)) for it, _ in todo]) if todo else []
    hres = hook.ask(["style.truncate %d %s %s" % (max_len, hx("".join(s for _, s in sym)), hook_items_fields(it)) for it, _ in todo]) if todo else []
    out = []
    for i, (kind, x) in zip(impl, plan):
        if kind == "err":
            out.append((i, "ERR", True))
        elif kind == "asis":
            out.append((i, x.encode(), True))
        else:
            m, h = mres[x], hres[x]
            if m.startswith("PANIC"):
                out.append((i, "PANIC", True))
            elif m.startswith("ok "):
                additive = h.startswith("ok ") and h.split(" ")[2] == m.split(" ")[2]
                out.append((i, unhx(m.split(" ")[1]), additive))
            else:
                out.append((i, "ERR", True))
    return out


def corr_ingest(ctx, rep, mdl, gr):
    """`ingest_line_utf8` under small `--max-line-length` values on escape-heavy lines 1-33 times the limit long in
    bytes: the hook's raw_line vs `Line.ingestRaw`, and the property on raw_line (balanced in => balanced out, every
    sequence kept)."""
    rng = ctx.rng
    probe = ctx.hook().ask(["machine.ingest_cfg"])[0]
    if not probe.startswith("ok "):
        rep.count("ingest:hook-op-missing")
        return
    for max_len in ING.HEAVY_LIMITS + [0]:
        cases = heavy_cases(rng, max_len if max_len else 20, ctx.n(14, 200))
        res = ask_ingest(ctx, mdl, gr, max_len, cases)
        for (items, shape, cr), (i, m, comparable) in zip(cases, res):
            line = "".join(s for _, s in items)
            nbytes = len(line.encode())
            rep.case(key=("ingest", max_len, line), nontrivial=ingest_guard(max_len, line),
                     sample=dict(op="machine.ingest", max_line_length=max_len, shape=shape, cr=cr, bytes=nbytes, impl=i[:120]))
            rep.count("ingest:shape=" + shape)
            rep.count("ingest:" + cr)
            if max_len:
                k = nbytes // (max_len + 1)
                rep.count("ingest:bytes/(limit+1)=" + ("1-3" if k < 4 else "4-7" if k < 8 else "8-15" if k < 16 else ">=16"))
                if i.startswith("ok ") and ingest_guard(max_len, line) and unhx(i.split(" ")[1]).replace(b"\r", b"") == line.replace("\r", "").encode():
                    rep.count("ingest:longer-than-limit-but-fits-in-columns")
            eval_ingest(rep, max_len, items, shape, cr, i, m, comparable)


# --------------------------------------------------------------------------- binary: escape-heavy lines on every raw path

SMALL_DIFF = ["\x1b[1mdiff --git a/src/app.js b/src/app.js\x1b[m", "\x1b[1mindex 587be6b..975fbec 100644\x1b[m",
              "\x1b[1m--- a/src/app.js\x1b[m", "\x1b[1m+++ b/src/app.js\x1b[m",
              "\x1b[36m@@ -1,3 +1,3 @@\x1b[m function main() {", " var a = 1;", "\x1b[31m-var b = 2;\x1b[m", "\x1b[32m+var b = 3;\x1b[m", " var z = 26;"]

RAW_STYLES = ["--commit-style=raw", "--file-style=raw", "--hunk-header-style=raw"]
RAW_HUNK = ["--minus-style=raw", "--plus-style=raw", "--zero-style=raw"]
BOXES = ["--commit-decoration-style=blue box ul", "--file-decoration-style=blue box ul", "--hunk-header-decoration-style=blue box ul"]

RAW_PATHS = {
    # context -> option sets under which the context's lines are written from raw_line
    "plain-text": [[], ["--side-by-side"], ["--color-only"], ["--line-numbers"], ["--raw"], ["--line-fill-method=spaces"]],
    "text-after-hunk": [[], ["--side-by-side"], ["--line-numbers"], ["--color-only"]],
    "no-newline-marker": [[], ["--side-by-side", "--line-numbers"]],
    "commit-line": [["--commit-style=raw"], RAW_STYLES + BOXES, ["--color-only"], ["--raw"], ["--commit-style=raw", "--hyperlinks"]],
    "file-lines": [["--file-style=raw"], RAW_STYLES + BOXES, ["--color-only"], ["--raw"], []],
    "hunk-header": [["--hunk-header-style=raw"], RAW_STYLES + BOXES, ["--hunk-header-style=raw", "--side-by-side"], ["--color-only"]],
    "hunk-lines": [RAW_HUNK, RAW_HUNK + ["--side-by-side"], RAW_HUNK + ["--line-numbers"], [], ["--side-by-side", "--wrap-max-lines=0"],
                   ["--inspect-raw-lines=false"], ["--color-only"], ["--raw"], RAW_HUNK + ["--side-by-side", "--line-fill-method=spaces"]],
    "diff-stat": [["--relative-paths"], ["--relative-paths", "--hyperlinks"], []],
    "binary-and-submodule": [[], ["--file-style=raw"], ["--color-only"]],
    "grep": [[], ["--hyperlinks"]],
}


def raw_path_doc(rng, context, max_len):
    """-> (lines, env, shapes): an input in which escape-heavy balanced lines stand where `context` says."""
    shapes = []

    def h(shape=None):
        items, sh = ING.gen_escape_heavy(rng, max_len, shape)
        shapes.append(sh)
        return "".join(s for _, s in items)
    env = {}
    sha = "%040x" % rng.randrange(1 << 160)
    if context == "plain-text":
        lines = [h("rainbow"), "", h("tokens"), h("link"), h("escape-tail"), h("late-close"), h(), "plain text without any colour at all"] + SMALL_DIFF
    elif context == "text-after-hunk":
        lines = SMALL_DIFF + [h("rainbow"), h("escape-tail"), h("late-close"), h()]
    elif context == "no-newline-marker":
        lines = SMALL_DIFF + ["\\ No newline at end of file " + h("escape-tail"), "\\ " + h()]
    elif context == "commit-line":
        lines = ["\x1b[33mcommit %s\x1b[m\x1b[33m (\x1b[m%s\x1b[33m)\x1b[m" % (sha, h(rng.choice(["tokens", "rainbow", "escape-tail", "late-close"]))),
                 "Author: A U Thor <a@example.com>", "Date:   Thu Jan 1 00:00:00 1970 +0000", "", "    " + h(), ""] + SMALL_DIFF
    elif context == "file-lines":
        lines = ["\x1b[1mdiff --git a/src/app.js b/src/app.js\x1b[m " + h("escape-tail"), "\x1b[1mindex 587be6b..975fbec 100644\x1b[m" + h("escape-tail"),
                 "\x1b[1m--- a/src/\x1b[m%s\x1b[1m.js\x1b[m" % h(rng.choice(["rainbow", "late-close", "escape-tail"])),
                 "\x1b[1m+++ b/src/\x1b[m%s\x1b[1m.js\x1b[m" % h(rng.choice(["rainbow", "late-close", "escape-tail"]))] + SMALL_DIFF[4:]
    elif context == "hunk-header":
        lines = SMALL_DIFF[:4] + ["\x1b[36m@@ -1,3 +1,3 @@\x1b[m " + h()] + SMALL_DIFF[5:] + \
            ["\x1b[36m@@ -11,2 +11,2 @@\x1b[m" + h("escape-tail"), " x", "\x1b[31m-y\x1b[m", "\x1b[32m+z\x1b[m"]
    elif context == "hunk-lines":
        lines = SMALL_DIFF[:4] + ["\x1b[36m@@ -1,4 +1,4 @@\x1b[m",
                                  " " + h(), "\x1b[31m-\x1b[m" + h("rainbow"), "\x1b[31m-\x1b[m" + h("late-close"),
                                  "\x1b[32m+\x1b[m" + h("rainbow"), "\x1b[32m+\x1b[m" + h("escape-tail"), " " + h("tokens"), " " + h("link")]
    elif context == "diff-stat":
        env = {"GIT_PREFIX": "sub/"}
        graph = "".join("\x1b[32m+\x1b[m" for _ in range(rng.randint(1, 3) * (max_len + 1))) + "".join("\x1b[31m-\x1b[m" for _ in range(rng.randint(1, 9)))
        shapes.append("graph")
        lines = ["commit " + sha, "Author: A <a@b.c>", "Date:   Mon Jan 1 00:00:00 2024 +0000", "", "    msg", "",
                 " sub/a.rs | 40 " + graph, " sub/dir/b.rs | 7 " + h("rainbow"), " other/c.rs | 3 " + h("escape-tail"),
                 " 3 files changed, 8 insertions(+), 6 deletions(-)"]
    elif context == "binary-and-submodule":
        lines = ["\x1b[1mdiff --git a/x.bin b/x.bin\x1b[m", "\x1b[1mindex 1111111..2222222 100644\x1b[m",
                 "Binary files a/x.bin and b/x.bin differ" + h("escape-tail"),
                 "\x1b[1mSubmodule sub 1111111..2222222:\x1b[m" + h("escape-tail"), "  > " + h(), "Binary files a/y and b/y differ " + h("rainbow")]
    elif context == "grep":
        env = {"DELTA_VERIF_FORCE_GUESS": "git grep -n x"}
        lines = ["src/main.rs:%d:%s" % (rng.randint(1, 99), h()) for _ in range(3)] + \
                ["\x1b[35msrc/main.rs\x1b[m\x1b[36m:\x1b[m\x1b[32m7\x1b[m\x1b[36m:\x1b[m" + h("tokens")]
    else:
        raise ValueError(context)
    return lines, env, shapes


def raw_path_oracle(ctx, rep):
    """Escape-heavy balanced lines (bytes >> columns, 1-33 x the limit in bytes) in every place where delta prints
    `raw_line`, under --max-line-length 5/10/20/40/100 (and the default / 0 as controls)."""
    import base64
    rng = ctx.rng
    work = os.path.join(core_BUILD(), "c09-work")
    os.makedirs(os.path.join(work, "sub", "dir"), exist_ok=True)
    jobs = []
    limits = [5, 10, 20, 40, 100]
    for rnd in range(ctx.n(1, 8)):
        for context, optsets in RAW_PATHS.items():
            for max_len in limits:
                lines, env, shapes = raw_path_doc(rng, context, max_len)
                if any(state_problem(l.encode()) for l in lines):
                    rep.count("raw-path:input-not-balanced(skipped)")
                    continue
                inp = ("\n".join(lines) + "\n").encode()
                picks = optsets if (rnd > 0 or not ctx.quick()) else optsets[:2] + [rng.choice(optsets[2:])] if len(optsets) > 2 else optsets
                for opts in picks:
                    lim = ["--max-line-length=%d" % max_len]
                    if rng.random() < 0.08:
                        lim = rng.choice([[], ["--max-line-length=0"]])
                    a = ["--no-gitconfig", "--paging=never", "--width=%s" % rng.choice(["60", "90", "variable"])] + list(opts) + lim
                    jobs.append((context, max_len, a, env, inp, shapes))
    results = parallel_map(lambda j: ctx.run_delta(j[2], j[4], env=j[3], cwd=work, timeout=20), jobs)
    for (context, max_len, a, env, inp, shapes), (rc, out, err) in zip(jobs, results):
        rep.case(key=("raw-path", context, tuple(a), inp), nontrivial=True,
                 sample=dict(op="raw-path", context=context, args=a, shapes=shapes, rc=rc, rows=out.count(b"\n")))
        rep.count("raw-path:" + context)
        rep.count("raw-path:limit=%s" % ([x.split("=")[1] for x in a if x.startswith("--max-line-length")] or ["default"])[0])
        if rc == "timeout":
            rep.count("raw-path:timeout(C03)")
            continue
        if rc != 0:
            rep.count("raw-path:rc=%s(C03)" % rc)
        check_stdout(rep, dict(kind="binary", input_kind="raw-path:" + context, args=a, env=env, cwd="scratch work dir with sub/dir",
                               stdin_b64=base64.b64encode(inp).decode()), out, tag="max-line-length:raw-path:" + context)

# --------------------------------------------------------------------------- session 4 (T5): the painted line, built by the model

PL_STYLES = ["red", "normal 52", "bold #aabbcc #102030", "reverse red", "normal", "white 124", "syntax 22", "ul 28",
             "reverse green", "dim", "green", "normal 22", "bold ul italic 201 17"]
PL_TEXTS = ["a", "ab", "hello world", "x y", "  ", "日本", "é", "12", "fn main() {", "→", "éx", "-", "+", "let x = 42;", " "]
PL_STATES = ["m", "z", "p", "M", "Z", "P", "mw", "zw", "pw", "b", "u", "cm:" + hx("- "), "cz:" + hx("  "), "cp:" + hx("++"), "cm:" + hx(" -")]
PL_CFG_STYLES = ["minus-style", "zero-style", "plus-style", "minus-non-emph-style", "plus-non-emph-style"]
OSC8_FIELD = re.compile("^\x1b\\]8;;([^\x1b\x07]*)\x1b\\\\(.*)\x1b\\]8;;\x1b\\\\$", re.S)


def pl_config(rng):
    a = []
    for o in PL_CFG_STYLES:
        if rng.random() < 0.6:
            a.append("--%s=%s" % (o, rng.choice(PL_STYLES)))
    if rng.random() < 0.45:
        a.append("--keep-plus-minus-markers")
    w = rng.choice([None, "variable", "24", "40", "80"])
    if w:
        a.append("--width=" + w)
    return a


def pl_coalesce(sections):
    """superimpose_style_sections when every syntax section carries the null syntect style: adjacent characters of equal
    style are merged, the terminating newline of the last group is removed (paint.rs `coalesce`)."""
    groups = []
    for a, t in sections:
        for ch in t:
            if groups and groups[-1][0] == a:
                groups[-1][1] += ch
            else:
                groups.append([a, ch])
    if groups and groups[-1][1].endswith("\n"):
        groups[-1][1] = groups[-1][1][:-1]
    return [(a, t) for a, t in groups]


def pl_clusters(gr, t):
    return ";".join("%s,%d" % gw for gw in gr.cache[t]) if t else "-"


def pl_piece(gr, t):
    m = OSC8_FIELD.match(t)
    if m:
        return "L:%s:%s" % (hx(m.group(1)), pl_clusters(gr, m.group(2)))
    return "P:" + pl_clusters(gr, t)


def pl_piece_texts(t):
    m = OSC8_FIELD.match(t)
    return [m.group(2)] if m else [t]


def pl_model_request(gr, cfg_styles, keep, ln, ext, avail, case, gutter):
    state, hom, empty, bg, sections, syntax_empty = case
    sup = pl_coalesce(sections)
    f = ["paint.line"] + cfg_styles + ["-:-:00000000", str(keep), str(ln), str(ext), str(avail), state, str(hom), empty, bg,
                                       "1" if syntax_empty else "0", str(len(gutter))]
    for a, t in gutter:
        f += [a, pl_piece(gr, t)]
    f.append(str(len(sup)))
    for a, t in sup:
        f += [a, pl_clusters(gr, t)]
    f.append(str(len(sections)))
    for a, t in sections:
        f += [a, hx(t)]
    return " ".join(f)


def pl_state_class(state):
    return state.split(":")[0]


def pl_oracle(rep, line, sig, replay):
    """The property on one painted line (texts are ESC-free): back in the default state at its end."""
    if not self_contained(line):
        _viol(rep, "paint_lines:line-not-self-contained:" + sig,
              "a line written by Painter::paint_lines from ESC-free texts does not end in the terminal's default state",
              dict(replay, final=T.decode(line).final.describe()))


def corr_paint_lines(ctx, rep, mdl, gr):
    """Hook `style.paint_lines` (one line through the real Painter::paint_lines) vs `paint.line` of drv_style
    (`PaintLine.paintedLine`). The op is new in session 4: when the hooked tree does not have it yet the correspondence is
    skipped (counted) and `corr_paint_binary` alone ties the model."""
    rng = ctx.rng
    probe = ctx.hook().ask(["cfg", "style.paint_lines m 0 - no 0 0 0"])[-1]
    if not probe.startswith("ok "):
        rep.count("paint_lines:hook-op-missing(skipped)")
        return False
    configs = [pl_config(rng) + (["--line-numbers"] + (["--hyperlinks"] if rng.random() < 0.4 else []) if rng.random() < 0.45 else [])
               for _ in range(ctx.n(14, 80))]

    def one(a):
        lrng = __import__("random").Random(hash(tuple(a)) & 0xffffffff ^ ctx.seed)
        ln = 1 if "--line-numbers" in a else 0
        cases = []
        for _ in range(ctx.n(16, 150)):
            k = lrng.choice([0, 1, 1, 2, 3, 4])
            secs = []
            for j in range(k):
                st = secs[-1][0] if secs and lrng.random() < 0.25 else rand_ansi(lrng, plain_p=0.2, need_bg=lrng.random() < 0.5)
                secs.append([st, lrng.choice(PL_TEXTS) if lrng.random() < 0.9 else ""])
            if secs and lrng.random() < 0.9:
                secs[-1][1] += "\n"
            if secs and lrng.random() < 0.1:
                secs = [[secs[0][0], "\n"]]
            secs = [(x, y) for x, y in secs]
            cases.append((lrng.choice(PL_STATES), lrng.randint(0, 1), "-" if lrng.random() < 0.4 else rand_ansi(lrng, plain_p=0.1),
                          lrng.choice(["no", "ansi", "ansi", "spaces", "spaces"]), secs, k == 0))
        lines = ["cfg " + " ".join(hx(x) for x in a)] + ["style.config_style " + o for o in PL_CFG_STYLES]
        for state, hom, empty, bg, secs, se in cases:
            text = "".join(t for _, t in secs)
            syn = "0" if se else "1 " + hx(text)
            lines.append("style.paint_lines %s %d %s %s %d %s %d%s" % (state, hom, empty, bg, ln, syn, len(secs),
                                                                       "".join(" %s %s" % (x, hx(y)) for x, y in secs)))
        return cases, ctx.hook().ask(lines, sticky=[0])
    results = parallel_map(one, configs)
    texts, parsed = set(["-", "+", " "]), []
    for a, (cases, res) in zip(configs, results):
        styles = [r.split(" ")[1] if r.startswith("ok ") else None for r in res[1:6]]
        for c, r in zip(cases, res[6:]):
            gutter, out, fields = [], None, None
            if r.startswith("ok "):
                f = r.split(" ")
                out, fields = unhx(f[1]), f[2:6]
                g = f[7:]
                gutter = [(g[2 * i], unhx(g[2 * i + 1]).decode("utf-8", "replace")) for i in range(int(f[6]))]
            for _, t in pl_coalesce(c[4]):
                texts.add(t)
            for _, t in gutter:
                texts.update(pl_piece_texts(t))
            parsed.append((a, styles, c, r, out, fields, gutter))
    gr.ensure([t for t in texts if t])
    reqs = []
    for a, styles, c, r, out, fields, gutter in parsed:
        if fields is None or None in styles:
            reqs.append(None)
            continue
        avail, ext, keep, ln = fields
        reqs.append(pl_model_request(gr, styles, keep, ln, ext, avail, c, gutter))
    model = iter(mdl.ask([q for q in reqs if q]) if mdl else [])
    for (a, styles, c, r, out, fields, gutter), q in zip(parsed, reqs):
        state, hom, empty, bg, secs, se = c
        sig = "%s:bg=%s" % (pl_state_class(state), bg)
        replay = dict(kind="paint-lines-hook", args=a, state=state, homolog=hom, empty_style=empty, bg=bg,
                      sections=[list(x) for x in secs], syntax_empty=se, impl=r[:400])
        rep.case(key=("paint_lines", tuple(a), state, hom, empty, bg, tuple(secs)), nontrivial=len(secs) >= 1, sample=replay)
        rep.count("paint_lines:state=" + pl_state_class(state))
        rep.count("paint_lines:" + ("PANIC" if r.startswith("PANIC") else "gutter" if gutter else "no-gutter"))
        if out is not None:
            if not out.endswith(b"\n") or b"\n" in out[:-1]:
                _viol(rep, "paint_lines:not-one-line:" + sig, "paint_lines pushed something else than one line and its newline", replay)
            else:
                pl_oracle(rep, out[:-1], sig, replay)
        if mdl is None:
            continue
        if q is None:
            if r.startswith("PANIC") and None not in styles:
                # the Config fields come with the ok answer; a panic is compared under the defaults of the request
                m = mdl.ask([pl_model_request(gr, styles, 0, 0, 1, 80, c, [])])[0] if all(t in gr.cache or not t for _, t in pl_coalesce(secs)) else "?"
                rep.corr_case("style.paint_lines", m.startswith("PANIC"), dict(replay, model=m))
            continue
        m = next(model)
        agree = m.startswith("ok ") and unhx(m.split(" ")[1]) + b"\n" == out
        rep.corr_case("style.paint_lines", agree, dict(replay, request=q, model=m[:400]))
    return True


PL_WORDS = ["fn", "main()", "{", "}", "let", "x", "=", "42;", "日本語", "é", "→", "return", "a+b", "-1", "# note"]


def corr_paint_binary(ctx, rep, mdl, gr):
    """The model's whole painted line vs the real binary: hunks of removed-only / added-only lines and context lines (no edit
    inference, no syntax highlighting: the sections of a line are known - one section in the line's style), explicit styles,
    with and without --keep-plus-minus-markers, --width fixed / variable. Styles and the available width are read from the
    Config through hook ops that exist (`style.config_style`, `wrap.panels`)."""
    rng = ctx.rng
    runs = []
    for _ in range(ctx.n(24, 300)):
        a = pl_config(rng) + ["--syntax-theme=none"]
        kind = rng.choice("mp")
        body = []
        for _ in range(rng.randint(1, 3)):
            body.append(("z", " ".join(rng.choice(PL_WORDS) for _ in range(rng.randint(1, 5)))))
        for _ in range(rng.randint(1, 4)):
            t = " ".join(rng.choice(PL_WORDS) for _ in range(rng.randint(1, 6))) if rng.random() < 0.9 or kind == "p" else ""
            body.append((kind, t))
        if rng.random() < 0.5:
            body.append(("z", " ".join(rng.choice(PL_WORDS) for _ in range(rng.randint(1, 5)))))
        nm = sum(1 for k, _ in body if k in "mz")
        npl = sum(1 for k, _ in body if k in "pz")
        doc = "diff --git a/f.txt b/f.txt\nindex 1111111..2222222 100644\n--- a/f.txt\n+++ b/f.txt\n@@ -1,%d +1,%d @@\n" % (nm, npl)
        doc += "".join({"m": "-", "p": "+", "z": " "}[k] + t + "\n" for k, t in body)
        runs.append((a, body, doc.encode()))

    def one(run):
        a, body, doc = run
        rc, out, err = ctx.run_delta(a, doc, timeout=20)
        res = ctx.hook().ask(["cfg " + " ".join(hx(x) for x in a)] + ["style.config_style " + o for o in PL_CFG_STYLES] +
                             ["wrap.panels " + " ".join(hx(x) for x in a)], sticky=[0])
        return rc, out, res
    results = parallel_map(one, runs)
    gr.ensure([t for _, body, _ in runs for _, t in body if t] + ["-", "+", " "])
    reqs, metas = [], []
    for (a, body, doc), (rc, out, res) in zip(runs, results):
        styles = [r.split(" ")[1] if r.startswith("ok ") else None for r in res[1:6]]
        if rc != 0 or None in styles or not res[6].startswith("ok "):
            rep.count("paint_binary:skipped(rc=%s)" % rc)
            continue
        avail = res[6].split(" ")[3]
        keep = 1 if "--keep-plus-minus-markers" in a else 0
        ext = 0 if "--width=variable" in a else 1
        got = out.split(b"\n")
        got = got[:-1] if got and got[-1] == b"" else got
        got = got[-len(body):]
        sty = dict(m=styles[0], z=styles[1], p=styles[2])
        for (k, t), g in zip(body, got):
            case = (k, 0, "-", "spaces" if k == "z" else "ansi", [(sty[k], t + "\n")], False)
            reqs.append(pl_model_request(gr, styles, keep, 0, ext, avail, case, []))
            metas.append((a, k, t, g, doc))
    model = mdl.ask(reqs) if mdl else [None] * len(reqs)
    import base64
    for (a, k, t, g, doc), q, m in zip(metas, reqs, model):
        replay = dict(kind="binary", input_kind="paint-line:" + k, args=a, stdin_b64=base64.b64encode(doc).decode(), line=t)
        rep.case(key=("paint_binary", tuple(a), k, t), nontrivial=True, sample=dict(replay, got=g.decode("utf-8", "replace")[:300]))
        rep.count("paint_binary:line=" + k)
        pl_oracle(rep, g, "binary:%s" % k, replay)
        if m is not None:
            agree = m.startswith("ok ") and unhx(m.split(" ")[1]) == g
            rep.corr_case("paint_lines/binary", agree, dict(args=a, kind=k, line=t, impl=hx(g.decode("utf-8", "replace")), model=m[:400], request=q))


# --------------------------------------------------------------------------- session 4 (strengthening, seeded change C09-w6-09):
# what `format::pad` is applied to — blame metadata with a precision on every placeholder, x --hyperlinks x commit URL
# templates x stdout a pipe / a terminal; the line-number gutter with a precision

BM_URLS = [None, "https://example.com/c/{commit}", "x:{commit}", "https://git.example.org/some/rather/long/path/to/repo/-/commit/{commit}?view=full",
           "{commit}", "https://h/é/{commit}"]
BM_AUTHORS = ["Alice", "Bob Builder", "日本 太郎", "deadbeefcafe", "Dan Davison", "é", "A. U. Thor (work)", "cafebabe1234 feedface"]
BM_LABELS = ["timestamp", "author", "commit"]
BM_COMMIT_RE = re.compile(r"\b[0-9a-f]{7,40}\b")
BM_ENV = {"DELTA_VERIF_FORCE_GUESS": "git blame src/main.rs"}


def bm_gen_blame(rng, distinct=False):
    """A git blame stream: hashes of 4-40 hex digits (some all-decimal: not linked; some with the boundary marker `^`),
    plain / wide / hex-looking authors, optional file column, code that may itself contain hashes."""
    out = []
    pool = []
    for _ in range(rng.randint(2, 4)):
        n = rng.choice([4, 7, 8, 8, 8, 12, 40])
        h = "".join(rng.choice("0123456789abcdef") for _ in range(n))
        if rng.random() < 0.12:
            h = "".join(rng.choice("0123456789") for _ in range(n))
        if rng.random() < 0.12:
            h = "^" + h[:max(4, min(len(h), 39))]
        pool.append(h)
    if distinct:
        pool = list(dict.fromkeys(pool))
    nlines = rng.randint(3, 7)
    prev = None
    for n in range(1, nlines + 1):
        c = rng.choice(pool)
        if distinct:
            c = rng.choice([x for x in pool if x != prev] or pool)
        prev = c
        filecol = " src/old name.rs" if rng.random() < 0.1 else ""
        code = gen_line(rng) if rng.random() < 0.8 else "see commit %s and %s" % (rng.choice(pool).lstrip("^"), "0123456789abcdef")
        out.append("%s%s (%-12s 2020-01-%02d 10:%02d:00 +0000 %3d) %s" % (c, filecol, rng.choice(BM_AUTHORS), rng.randint(1, 28),
                                                                         rng.randint(0, 59), n, code))
    return out


def bm_precisions(rng, url):
    """Precisions that fall before, inside and after each part of a linked 8-40 digit hash: the OSC 8 opener
    (ESC ] 8 ; ; URL ESC \\), the text, the closer (ESC ] 8 ; ; ESC \\)."""
    opener = 5 + len((url or "").replace("{commit}", "12345678")) + 2
    return [0, 1, 2, 3, 4, 5, 6, 7, 8, 10, 14, opener - 1, opener, opener + 1, opener + rng.randint(2, 7), opener + 8, opener + 9,
            opener + 8 + rng.randint(1, 6), opener + 8 + 7, opener + rng.randint(0, 60), 60, 200, 70000]


def bm_placeholder(rng, label, prec_p, url):
    if rng.random() < 0.12:
        return "{%s}" % label
    fill = rng.choice(["", "", "", ".", "_", "*"])
    al = rng.choice(["<", "<", "^", ">", ""])
    s = (fill + al) if al else ""
    if rng.random() < 0.85:
        s += str(rng.choice([0, 1, 4, 7, 8, 9, 12, 15, 20, 30, 64]))
    prec = None
    if rng.random() < prec_p:
        prec = rng.choice(bm_precisions(rng, url))
        s += ".%d" % prec
    return "{%s%s}" % (label, (":" + s) if s else ""), prec


def bm_format(rng, url, commit_prec):
    """-> (format string, set of labels that carry a precision). `commit_prec`: make sure {commit} has one."""
    labels = list(BM_LABELS)
    rng.shuffle(labels)
    labels = labels[:rng.choice([1, 2, 3, 3, 3])]
    if commit_prec and "commit" not in labels:
        labels[rng.randrange(len(labels))] = "commit"
    if rng.random() < 0.15:
        labels.append(rng.choice(BM_LABELS))
    out, with_prec = rng.choice(["", "", " ", "[", "«"]), set()
    for k, lab in enumerate(labels):
        r = bm_placeholder(rng, lab, 1.0 if (commit_prec and lab == "commit") else 0.5, url)
        if isinstance(r, tuple):
            text, prec = r
            if prec is not None:
                with_prec.add(lab)
        else:
            text = r
        out += text + (rng.choice([" ", " ", "|", " • ", "", "] "]) if k + 1 < len(labels) else rng.choice(["", "", " ", "]", "»"]))
    return out, with_prec


def bm_config(rng, want_link=None, want_commit_prec=None):
    """-> (args, info). info: hyperlinks, url, format, labels with a precision, class name of the input."""
    hl = rng.random() < 0.75 if want_link is None else want_link
    url = rng.choice(BM_URLS[1:]) if (hl and rng.random() < 0.9) else (rng.choice(BM_URLS) if rng.random() < 0.3 else None)
    cp = (rng.random() < 0.7) if want_commit_prec is None else want_commit_prec
    fmt, with_prec = bm_format(rng, url, cp)
    a = ["--blame-format=" + fmt, "--blame-timestamp-output-format=" + rng.choice(["%Y-%m-%d", "%Y", "%H:%M %d.%m.%y", "%Y-%m-%d %H:%M:%S %z"])]
    if hl:
        a.append("--hyperlinks")
    if url is not None:
        a.append("--hyperlinks-commit-link-format=" + url)
    if with_prec and hl and url is not None:
        cls = "precision-cuts-link"
    elif with_prec:
        cls = "precision"
    else:
        cls = "no-precision"
    return a, dict(hyperlinks=hl, url=url, format=fmt, with_prec=sorted(with_prec), cls=cls)


def bm_link_pieces(text, url):
    """`format_commit_line_with_osc8_commit_hyperlink(text, config)` as pieces, written from its documentation: the first 13
    matches of \\b[0-9a-f]{7,40}\\b that contain a letter become links to the URL template with {commit} replaced."""
    if url is None:
        return [("P", text)]
    out, pos = [], 0
    for k, m in enumerate(BM_COMMIT_RE.finditer(text)):
        if k >= 13:
            break
        if m.start() > pos:
            out.append(("P", text[pos:m.start()]))
        h = m.group(0)
        if re.search("[a-f]", h):
            out.append(("L", url.replace("{commit}", h), h))
        else:
            out.append(("P", h))
        pos = m.end()
    if pos < len(text) or not out:
        out.append(("P", text[pos:]))
    return out


class BmWidths:
    """`UnicodeWidthStr::width` of single chars, from the implementation (hook op blame.widths), cached."""

    def __init__(self, ctx):
        self.ctx, self.cache = ctx, {}

    def table(self, strings):
        chars = sorted(set(ch for s in strings for ch in s if not (" " <= ch <= "~")))
        todo = [c for c in chars if c not in self.cache]
        if todo:
            res = self.ctx.hook().ask(["blame.widths " + hx(c) for c in todo])
            for c, r in zip(todo, res):
                self.cache[c] = int(r.split(" ")[1]) if r.startswith("ok ") else 1
        t = ["%d:%d" % (ord(c), self.cache[c]) for c in chars if self.cache[c] != 1]
        return ";".join(t) if t else "-"


def bm_field(text, url):
    ps = bm_link_pieces(text, url)
    f = [hx(text), str(len(ps))]
    for p in ps:
        f += ["P", hx(p[1])] if p[0] == "P" else ["L", hx(p[1]), hx(p[2])]
    return " ".join(f)


def bm_items_of(format_data):
    """hook `blame.format_data` answer -> the item fields of a blamemeta.format request (None: not understood)."""
    if not format_data.startswith("ok "):
        return None
    f = format_data.split(" ")
    items = []
    for it in f[2:]:
        p = it.split(",")
        if len(p) != 6:
            return None
        lab = {"t": "timestamp", "a": "author", "c": "commit", "-": "-"}.get(p[1])
        if lab is None:
            return None
        items.append("%s %s %s %s %s %s" % (p[0], lab, p[2], p[3], p[4], p[5]))
    if len(items) != int(f[1]):
        return None
    return "%d %s" % (len(items), " ".join(items)) if items else "0"


def bm_model_request(bw, info, terminal, items, ts, author, commit):
    url = info["url"] if info["hyperlinks"] else None
    # without --hyperlinks no arm consults the link function; with it and no template there is no remote either (--no-gitconfig)
    cw = bw.table([ts, author, commit, info["format"], url or ""])
    return "blamemeta.format %d %d %s %s %s %s %s %s" % (1 if info["hyperlinks"] else 0, 1 if terminal else 0, cw,
                                                          hx(url) if url is not None else "-",
                                                          bm_field(ts, url), bm_field(author, url), bm_field(commit, url), items)


def bm_hook_facts(ctx, args, lines):
    """One conversation with the hooked binary under `args`: the parsed format and, per line, the parsed blame line and the
    real `format_blame_metadata` -> (items | None, [(parse answer, meta answer)])."""
    req = ["cfg " + " ".join(hx(x) for x in args), "blame.format_data"]
    for l in lines:
        req += ["blame.parse " + hx(l), "blame.meta " + hx(l)]
    res = ctx.hook().ask(req, sticky=[0])
    facts = [(res[2 + 2 * k], res[3 + 2 * k]) for k in range(len(lines))]
    return bm_items_of(res[1]), facts


def bm_parsed(parse, meta):
    """-> (commit, author, ts) or None"""
    if not parse.startswith("ok ") or parse == "ok none" or not meta.startswith("ok ") or meta == "ok none":
        return None
    p, m = parse.split(" "), meta.split(" ")
    try:
        return unhx(p[1]).decode("utf-8"), unhx(p[2]).decode("utf-8"), unhx(m[3]).decode("utf-8")
    except Exception:
        return None


def corr_blame_meta(ctx, rep, mdl):
    """Hook `blame.meta` (the real format_blame_metadata under a real Config; the hook's stdout is a pipe) vs
    `blamemeta.format` of drv_style (`BlameMeta.formatMeta`, stdout-is-terminal = false), and the property on the hook's
    answer: the metadata decodes to the default state."""
    rng = ctx.rng
    bw = BmWidths(ctx)
    runs = []
    for k in range(ctx.n(40, 500)):
        a, info = bm_config(rng, want_link=True if k % 2 == 0 else None, want_commit_prec=True if k % 4 == 0 else None)
        runs.append((a, info, bm_gen_blame(rng)))

    def one(run):
        a, info, lines = run
        return bm_hook_facts(ctx, a, lines)
    results = parallel_map(one, runs, workers=4)
    reqs, metas = [], []
    for (a, info, lines), (items, facts) in zip(runs, results):
        for l, (parse, meta) in zip(lines, facts):
            rep.count("blame_meta:" + info["cls"])
            replay = dict(kind="blame-meta-hook", args=a, line=l, cls=info["cls"], impl=meta[:300])
            got = unhx(meta.split(" ")[1]) if meta.startswith("ok ") and meta != "ok none" else None
            rep.case(key=("blame_meta", tuple(a), l), nontrivial=got is not None, sample=replay)
            if got is not None and not self_contained(got):
                _viol(rep, "blame:metadata-not-self-contained:" + info["cls"],
                      "format_blame_metadata returns a string with a cut escape sequence / an unclosed link / a rendition left on (%s)"
                      % (state_problem(got),), replay)
            pr = bm_parsed(parse, meta)
            if pr is None or items is None:
                rep.count("blame_meta:not-compared(" + ("unparsed-line" if pr is None else "format") + ")")
                continue
            commit, author, ts = pr
            reqs.append(bm_model_request(bw, info, False, items, ts, author, commit))
            metas.append((replay, meta))
    model = mdl.ask(reqs) if mdl else []
    for (replay, meta), q, m in zip(metas, reqs, model):
        agree = (m.startswith("ok ") and meta.startswith("ok ") and m.split(" ")[1] == meta.split(" ")[1]) or \
            (m.startswith("PANIC") and meta.startswith("PANIC"))
        rep.corr_case("blame.meta", agree, dict(replay, request=q, model=m[:300]))


def run_delta_pty(ctx, args, stdin_bytes, env=None, timeout=20):
    """The real binary with stdout on a pseudo-terminal in raw mode (no NL translation): what delta writes when it is the
    last process before the terminal. -> (rc, stdout bytes)."""
    import pty, select, subprocess, time, tty
    e = dict(os.environ)
    for k in ("GIT_CONFIG_PARAMETERS", "DELTA_FEATURES", "DELTA_PAGER", "PAGER", "BAT_PAGER", "BAT_THEME", "COLORTERM",
              "DELTA_VERIF_HOOK", "LESS", "GIT_PREFIX"):
        e.pop(k, None)
    e["HOME"] = os.path.join(core_BUILD(), "home")
    os.makedirs(e["HOME"], exist_ok=True)
    e["GIT_CONFIG_NOSYSTEM"] = "1"
    e["DELTA_VERIF_FORCE_GUESS"] = "none"
    e["TERM"] = "xterm-256color"
    e.update(env or {})
    master, slave = pty.openpty()
    tty.setraw(slave)
    p = subprocess.Popen([ctx.delta] + list(args), stdin=subprocess.PIPE, stdout=slave, stderr=subprocess.DEVNULL, env=e, close_fds=True)
    os.close(slave)
    try:
        p.stdin.write(stdin_bytes)
        p.stdin.close()
    except BrokenPipeError:
        pass
    out, t0 = b"", time.time()
    while time.time() - t0 < timeout:
        r, _, _ = select.select([master], [], [], 0.5)
        if r:
            try:
                d = os.read(master, 65536)
            except OSError:
                break
            if not d:
                break
            out += d
        elif p.poll() is not None:
            break
    try:
        p.wait(timeout=5)       # the slave side is closed (EIO / EOF): the process is exiting
    except subprocess.TimeoutExpired:
        p.kill()
        p.wait()
        os.close(master)
        return "timeout", out
    os.close(master)
    return p.returncode, out


def bm_check_rows(rep, replay, out, sig):
    """Every complete row of `out` through the independent decoder; the first row that does not end in the default state is
    reported under `sig`. -> (decoded, bad)"""
    dec = T.decode(out)
    for n, r in enumerate(dec.rows):
        if not r.terminated:
            continue
        e = r.end
        what = None
        if r.problems:
            what = "partial sequence (%s)" % r.problems[0][0]
        elif e.mode != "ground":
            what = "partial sequence"
        elif e.link is not None:
            what = "hyperlink still open"
        elif e.fg is not None or e.bg is not None or e.attrs:
            what = "rendition left on"
        if what:
            _viol(rep, sig, "at a newline of stdout the terminal is not in its default state: %s" % what,
                  dict(replay, row=n, row_text=r.text()[:200], state=e.describe(), problems=r.problems[:3]))
            return dec, 1
    return dec, 0


BM_ROW_FRONT = re.compile(rb"^(\x1b\[[0-9;]*m)")


def blame_binary_oracle(ctx, rep, mdl):
    """git blame streams through the real binary, stdout a pipe and (a smaller family) stdout a pseudo-terminal:
    blame formats with a precision on each placeholder x --hyperlinks x commit URL templates x widths x separator formats
    x fill methods. Oracle: every output row ends in the default state (signature names the input class). Correspondence:
    the row of every line whose key differs from the previous one starts with <metadata style> + the model's metadata +
    reset (`BlameMeta.formatMeta` with stdout-is-terminal as in the run)."""
    import base64
    rng = ctx.rng
    bw = BmWidths(ctx)
    jobs = []
    for k in range(ctx.n(96, 1500)):
        a, info = bm_config(rng, want_link=True if k % 3 != 2 else None, want_commit_prec=True if k % 3 == 0 else None)
        a = ["--no-gitconfig", "--paging=never", "--width=%s" % rng.choice(["40", "60", "80", "120", "variable"])] + a
        if rng.random() < 0.3:
            a.append("--blame-separator-format=" + rng.choice(["{n:>6}│", "│{n:^4}│", "{n:<3.2} ", "none", "{n:^7_block}", " "]))
        if rng.random() < 0.25:
            a.append("--blame-palette=" + rng.choice(["#102030", "#102030 #203040 #304050", "red blue"]))
        if rng.random() < 0.2:
            a.append("--blame-separator-style=" + rng.choice(["bold yellow", "reverse", "normal"]))
        if rng.random() < 0.2:
            a.append("--blame-code-style=" + rng.choice(["syntax", "normal 236", "italic"]))
        a.append("--line-fill-method=" + rng.choice(["ansi", "spaces"]))
        if rng.random() < 0.3:
            a.append("--syntax-theme=none")
        if rng.random() < 0.15:
            a.append("--line-numbers")
        jobs.append((a, info, bm_gen_blame(rng, distinct=rng.random() < 0.5), False))
    for k in range(ctx.n(16, 200)):
        a, info = bm_config(rng, want_link=True if k % 4 != 3 else None, want_commit_prec=True if k % 2 == 0 else None)
        a = ["--no-gitconfig", "--paging=never", "--detect-dark-light=never", "--width=%s" % rng.choice(["60", "80"])] + a
        jobs.append((a, info, bm_gen_blame(rng, distinct=True), True))

    def one(job):
        a, info, lines, on_tty = job
        inp = ("\n".join(lines) + "\n").encode()
        if on_tty:
            rc, out = run_delta_pty(ctx, a, inp, env=BM_ENV)
        else:
            rc, out, _ = ctx.run_delta(a, inp, env=BM_ENV, timeout=20)
        hook_args = [x for x in a if x not in ("--paging=never", "--no-gitconfig")]       # `cfg` implies --no-gitconfig
        items, facts = bm_hook_facts(ctx, hook_args, lines)
        return rc, out, items, facts
    results = parallel_map(one, jobs, workers=4)
    reqs, metas = [], []
    for (a, info, lines, on_tty), (rc, out, items, facts) in zip(jobs, results):
        inp = ("\n".join(lines) + "\n").encode()
        sig = "newline-not-default:blame:" + info["cls"] + (":stdout-terminal" if on_tty else "")
        replay = dict(kind="blame-binary", args=a, env=BM_ENV, stdout="pty" if on_tty else "pipe", cls=info["cls"], signature=sig,
                      stdin_b64=base64.b64encode(inp).decode())
        rep.case(key=("blame-binary", tuple(a), on_tty, inp), nontrivial=out.count(b"\n") >= 3,
                 sample=dict(op="blame-binary", args=a, stdout=replay["stdout"], cls=info["cls"], rc=rc, rows=out.count(b"\n")))
        rep.count("blame-binary:%s:%s" % ("pty" if on_tty else "pipe", info["cls"]))
        if rc == "timeout":
            rep.count("blame-binary:timeout(C03)")
            continue
        if rc != 0:
            rep.count("blame-binary:rc=%s(C03)" % rc)
        dec, bad = bm_check_rows(rep, replay, out, sig)
        if any(c.link for r in dec.rows for c in r.cells):
            rep.count("blame-binary:with-links")
        rows = out.split(b"\n")[:-1]
        if items is None or len(rows) != len(lines) or rc != 0:
            rep.count("blame-binary:not-compared(rows=%d,lines=%d)" % (len(rows), len(lines)) if items is not None else "blame-binary:not-compared(format)")
            continue
        for l, row, (parse, meta) in zip(lines, rows, facts):
            pr = bm_parsed(parse, meta)
            if pr is None:
                continue
            commit, author, ts = pr
            reqs.append(bm_model_request(bw, info, on_tty, items, ts, author, commit))
            metas.append((replay, l, row))
    model = mdl.ask(reqs) if mdl else []
    prev_key = {}
    for (replay, l, row), q, m in zip(metas, reqs, model):
        if not m.startswith("ok "):
            rep.corr_case("blame_meta/binary", False, dict(replay, line=l, request=q, model=m[:300]))
            continue
        key = unhx(m.split(" ")[1])
        rid = id(replay)
        is_repeat = prev_key.get(rid) == key
        prev_key = {rid: key}
        if is_repeat:
            rep.count("blame-binary:repeat-row(not compared)")
            continue
        f = BM_ROW_FRONT.match(row)
        agree = bool(f) and row.startswith(f.group(1) + key + b"\x1b[0m")
        rep.corr_case("blame_meta/binary", agree, dict(replay, line=l, row=row.decode("utf-8", "replace")[:300], request=q, model=m[:300]))


def gutter_precision_oracle(ctx, rep):
    """The line-number gutter: --line-numbers x --hyperlinks x formats with a precision on {nm} / {np} x unified / side-by-side:
    every row ends in the default state (a precision must not cut the OSC 8 link around a number)."""
    import base64
    rng = ctx.rng
    jobs = []
    for k in range(ctx.n(40, 600)):
        a = ["--no-gitconfig", "--paging=never", "--line-numbers", "--width=%d" % rng.choice([40, 60, 80, 120])]
        if k % 4 != 3:
            a.append("--hyperlinks")
            if rng.random() < 0.5:
                a.append("--hyperlinks-file-link-format=" + rng.choice(["file://{path}", "vscode://file/{path}:{line}", "file-line://{path}:{line}"]))

        def ph(label):
            al = rng.choice(["<", "^", ">", ""])
            return "{%s:%s%s.%d}" % (label, al, rng.choice(["", "2", "4", "6"]), rng.choice([0, 1, 2, 3, 5, 9, 14, 20, 30, 60]))
        a.append("--line-numbers-left-format=" + rng.choice(["", "["]) + ph("nm") + rng.choice(["⋮", " ", "|" + ph("np")]))
        a.append("--line-numbers-right-format=" + ph("np") + rng.choice(["│", " ", ""]))
        if rng.random() < 0.4:
            a.append("--side-by-side")
        if rng.random() < 0.3:
            a.append("--line-fill-method=spaces")
        jobs.append((a, gen_diff(rng, colored=rng.random() < 0.2)))
    results = parallel_map(lambda j: ctx.run_delta(j[0], j[1], timeout=20), jobs, workers=4)
    for (a, inp), (rc, out, err) in zip(jobs, results):
        rep.case(key=("gutter-precision", tuple(a), inp), nontrivial=out.count(b"\n") >= 3,
                 sample=dict(op="gutter-precision", args=a, rc=rc, rows=out.count(b"\n")))
        rep.count("gutter-precision:" + ("hyperlinks" if "--hyperlinks" in a else "plain"))
        if rc != 0:
            rep.count("gutter-precision:rc=%s(C03)" % rc)
        check_stdout(rep, dict(kind="binary", input_kind="diff", args=a, env={}, stdin_b64=base64.b64encode(inp).decode()), out,
                     tag="line-numbers:precision" + ("-cuts-link" if "--hyperlinks" in a else ""))


def run(ctx, rep):
    rep.rule = ("hook level: random lists of (style, text) / random lines built from text and escape-sequence items "
                "(SGR, OSC 8, EL), random fill styles, widths 0-12, five truncation tails, 10 side-by-side configs; "
                "binary: generated diffs (plain and git-coloured, wide chars, tabs, long lines, renames, modes), blame and "
                "grep inputs x random mode flags (side-by-side + wrap/truncate at widths 16-120, line numbers, hyperlinks, "
                "decorations, both fill methods, colour depths, random style options); ingest: escape-heavy balanced lines "
                "(rainbow / per-token / OSC 8 with long URLs / text that fits followed by sequences only / rendition and link "
                "closed only at the very end / mixed; 1-33 x (limit+1) bytes long) x --max-line-length 1-100 through "
                "machine.ingest, and through the binary at every place raw_line is printed (10 contexts x the option sets that "
                "make them raw); blame: streams (4-40 digit hashes, boundary marker, wide / hex-looking authors) x blame formats "
                "with fill / alignment / width / precision on every placeholder (precisions before, inside and after the OSC 8 "
                "opener, the text and the closer) x --hyperlinks x commit URL templates x stdout a pipe / a pseudo-terminal, at "
                "the hook (blame.meta) and through the binary; gutter: --line-numbers x --hyperlinks x number formats with a "
                "precision. Non-trivial = >=2 strings/items or "
                ">=3 output rows; distinct by full input")
    rep.extra_trusted += ["vlib/termmodel.py (independent terminal decoder, from ECMA-48 / xterm ctlseqs / OSC 8 spec)",
                          "unicode-segmentation / unicode-width (clusters and widths taken from the implementation)",
                          "partition of a painted line into text / escape items (ansi iterator: C03/C08 models)"]
    mdl = ctx.model("drv_style") if ctx.drivers_ok else None
    gr = Graphemes(ctx)
    o1 = corr_strings(ctx, rep, mdl)
    o2 = corr_fill(ctx, rep, mdl, o1)
    o3 = corr_truncate(ctx, rep, mdl, gr)
    corr_pad(ctx, rep, mdl, gr)
    corr_paint_lines(ctx, rep, mdl, gr)
    corr_paint_binary(ctx, rep, mdl, gr)
    corr_blame_meta(ctx, rep, mdl)
    blame_binary_oracle(ctx, rep, mdl)
    gutter_precision_oracle(ctx, rep)
    blobs = binary_oracle(ctx, rep)
    decoration_oracle(ctx, rep)
    corr_cr(ctx, rep, mdl)
    cr_binary_oracle(ctx, rep)
    corr_ingest(ctx, rep, mdl, gr)
    raw_path_oracle(ctx, rep)
    diff_stat_oracle(ctx, rep)
    rg_multiline_oracle(ctx, rep)
    corr_term(ctx, rep, mdl, o1 + o2 + o3 + blobs)


def replay(ctx, rep, obj):
    case = obj.get("case", {})
    if case.get("kind") == "binary":
        import base64
        inp = base64.b64decode(case["stdin_b64"])
        rc, out, err = ctx.run_delta(case["args"], inp, env=case.get("env") or {}, timeout=20)
        print("replay rc=%s" % rc)
        dec, bad = check_stdout(rep, dict(case), out)
        rep.case(key=("replay",), nontrivial=True)
        print("rows=%d bad=%d" % (len(dec.rows), bad))
    elif case.get("kind") == "blame-binary":
        import base64
        inp = base64.b64decode(case["stdin_b64"])
        if case.get("stdout") == "pty":
            rc, out = run_delta_pty(ctx, case["args"], inp, env=case.get("env") or {})
        else:
            rc, out, err = ctx.run_delta(case["args"], inp, env=case.get("env") or {}, timeout=20)
        print("replay rc=%s (stdout: %s)" % (rc, case.get("stdout")))
        dec, bad = bm_check_rows(rep, dict(case), out, case.get("signature", "newline-not-default:blame:" + case.get("cls", "?")))
        rep.case(key=("replay",), nontrivial=True)
        print("rows=%d bad=%d" % (len(dec.rows), bad))
    elif case.get("kind") == "blame-meta-hook":
        (items, facts) = bm_hook_facts(ctx, case["args"], [case["line"]])
        meta = facts[0][1]
        print("replay blame.meta -> %s" % meta[:300])
        rep.case(key=("replay",), nontrivial=True)
        got = unhx(meta.split(" ")[1]) if meta.startswith("ok ") and meta != "ok none" else None
        if got is not None and not self_contained(got):
            _viol(rep, "blame:metadata-not-self-contained:" + case.get("cls", "?"),
                  "format_blame_metadata returns a string with a cut escape sequence / an unclosed link / a rendition left on (%s)"
                  % (state_problem(got),), dict(case))
    elif case.get("kind") == "paint-lines-hook":
        secs = [tuple(x) for x in case["sections"]]
        text = "".join(t for _, t in secs)
        syn = "0" if case.get("syntax_empty") else "1 " + hx(text)
        ln = 1 if "--line-numbers" in case["args"] else 0
        q = "style.paint_lines %s %d %s %s %d %s %d%s" % (case["state"], case["homolog"], case["empty_style"], case["bg"], ln, syn,
                                                          len(secs), "".join(" %s %s" % (x, hx(y)) for x, y in secs))
        r = ctx.hook().ask(["cfg " + " ".join(hx(x) for x in case["args"]), q], sticky=[0])[-1]
        print("replay style.paint_lines -> %s" % r[:300])
        rep.case(key=("replay",), nontrivial=True)
        if r.startswith("ok "):
            out = unhx(r.split(" ")[1])
            pl_oracle(rep, out[:-1] if out.endswith(b"\n") else out, "%s:bg=%s" % (pl_state_class(case["state"]), case["bg"]), dict(case))
    elif case.get("kind") == "ingest-hook":
        mdl = ctx.model("drv_style") if ctx.drivers_ok else None
        items = [tuple(x) for x in case["items"]]
        c = [(items, case.get("shape", "?"), case.get("cr", "?"))]
        (i, m, comparable), = ask_ingest(ctx, mdl, Graphemes(ctx), case["max_line_length"], c)
        print("replay machine.ingest -> %s" % i[:200])
        rep.case(key=("replay",), nontrivial=True)
        eval_ingest(rep, case["max_line_length"], items, c[0][1], c[0][2], i, m, comparable)
    else:
        run(ctx, rep)
